#!/bin/bash
# commit /verif only with evidence written by a clean-tree quick run of every claimed check
set -e
cd "$(dirname "$0")"
if [ -n "$(git -C "${TALLY_REPO:-/repo}" status --porcelain)" ]; then echo "/repo working tree is not clean"; exit 1; fi
out=$(./runall quick 2>&1) || { echo "$out" | tail -30; echo "runall failed: not committing"; exit 1; }
if echo "$out" | grep -q '^VIOLATION'; then echo "$out" | grep '^VIOLATION'; exit 1; fi
/venv/bin/python -m harness.manifest >/dev/null
git add -A
git commit -qm "$1"
git log --oneline | head -1
