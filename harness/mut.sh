#!/bin/bash
# usage: mut.sh <file> <old> <new> <prop>...   — apply a one-off textual mutation to /repo, run checks, undo.
python3 - "$1" "$2" "$3" <<'PY'
import sys
p,old,new=sys.argv[1:4]
s=open(p).read()
assert s.count(old)>=1, 'pattern not found'
open(p,'w').write(s.replace(old,new,1))
PY
[ $? -ne 0 ] && exit 1
shift 3
cd /verif
for P in "$@"; do ./check $P 2>&1 | grep -E "VIOLATION|KNOWN|\] (ok|VIOL)"; done
git -C /repo checkout -- .
