"""Pristine-process oracle for C07: answers an operation the way a FRESH process would.

Run as a server (`python -m harness.pristine`, PYTHONPATH=<repo>/src:<verif>): reads one JSON request per line,
forks, and the CHILD — whose module state is exactly what importing tally gives — performs only
[the last load, the operation] and prints one JSON line.  The parent never executes an operation itself.
"""
import datetime
import json
import os
import shutil
import sys
import tempfile


def _txn(t):
    t = dict(t)
    if t.get('date'):
        t['date'] = datetime.date.fromisoformat(t['date'])
    return t


def perform(req, state=None):
    """Shared by the pristine child and by the in-process (history-carrying) side. `state` carries the
    caller's notion of 'the rules returned by the last load' across calls for the in-process side."""
    from tally import merchant_utils as MU, expr_parser as EP
    from harness import exprs
    op = req['op']
    if op['k'] == 'load':
        # the history-carrying side keeps ONE budget directory for the whole history (the user edits
        # config/merchants.rules in place and reloads it); the pristine child uses a directory of its own
        keep = state is not None and state.get('dir')
        d = state['dir'] if keep else tempfile.mkdtemp(prefix='tvhist_')
        try:
            path = os.path.join(d, 'merchants.rules' if op['kind'] == 'rules' else 'merchant_categories.csv')
            with open(path, 'w', encoding='utf-8', newline='') as f:
                f.write(op['text'])
            if op.get('mtime'):
                os.utime(path, (op['mtime'], op['mtime']))      # an edit within the file system's timestamp granularity
            order = op.get('order', 'rt')
            rules = transforms = None
            for which in order:                                  # the commands ask for rules / transforms in either order
                if which == 'r':
                    rules = MU.get_all_rules(path, match_mode=op.get('mode', 'first_match'))
                else:
                    transforms = MU.get_transforms(path, match_mode=op.get('mode', 'first_match'))
        finally:
            if not keep:
                shutil.rmtree(d, ignore_errors=True)
        if state is not None:
            state['rules'], state['transforms'] = rules, transforms
        return {'loaded': len(rules)}, (rules, transforms)
    rules, transforms = (state['rules'], state['transforms']) if state is not None else ([], [])
    if op['k'] == 'classify':
        t = _txn(op['txn'])
        try:
            m, c, s, info = MU.normalize_merchant(t['description'], rules, amount=t.get('amount'), txn_date=t.get('date'),
                                                  field=t.get('field'), data_source=t.get('source'), transforms=transforms,
                                                  location=t.get('location'), data_sources=op.get('sources'))
            return {'res': [m, c, s, sorted((info or {}).get('tags', []))]}, None
        except Exception as e:
            return {'exc': type(e).__name__}, None
    if op['k'] == 'eval':
        t = _txn(op['txn'])
        return exprs.impl_eval(op['expr'], t, None, op.get('sources'), root=True), None
    return {'err': 'unknown op'}, None


def main():
    import tally.merchant_utils, tally.expr_parser, tally.merchant_engine   # noqa: E401  (import-time state only)
    for line in sys.stdin:
        line = line.strip()
        if not line:
            continue
        req = json.loads(line)
        r, w = os.pipe()
        pid = os.fork()
        if pid == 0:
            os.close(r)
            try:
                st = {'rules': [], 'transforms': []}
                if req.get('last_load'):
                    perform({'op': req['last_load']}, st)
                out, _ = perform(req, st)
            except BaseException as e:      # noqa
                out = {'exc': type(e).__name__, 'msg': str(e)[:200]}
            os.write(w, (json.dumps(out) + '\n').encode())
            os._exit(0)
        os.close(w)
        data = b''
        while True:
            chunk = os.read(r, 65536)
            if not chunk:
                break
            data += chunk
        os.close(r)
        os.waitpid(pid, 0)
        sys.stdout.write(data.decode() if data else '{"exc": "child died"}\n')
        sys.stdout.flush()


if __name__ == '__main__':
    main()
