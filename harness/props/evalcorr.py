"""Evaluator correspondence streams shared by C03 / C04 / C08: real TransactionEvaluator vs Lean `Expr.eval`."""
import datetime
import json

from .. import common, exprs
from ..gen import exprs as GE
from ..gen import rules as GR

BASE_TXN = {'description': 'UBER EATS 123 Seattle', 'amount': 45.5, 'date': datetime.date(2025, 3, 14),
            'field': {'memo': 'PROJ:abc1 x', 'type': 'ACH'}, 'source': 'Amex', 'location': 'WA'}
ROWS = {'rows': [{'item': 'Book', 'amount': 45.5, 'date': datetime.date(2025, 3, 13)},
                 {'item': 'Pen', 'amount': 3.0, 'date': datetime.date(2025, 3, 1)},
                 {'item': 'uber ride', 'amount': 0.1, 'date': datetime.date(2024, 12, 31)}],
        'orders': [{'item': 'X', 'amount': -5, 'date': datetime.date(2025, 1, 1)}], 'empty': []}


def parse(text):
    from tally import expr_parser as EP
    return EP.parse_expression(text)


def run_stream(items, root=False, impl_outcomes=None):
    """items: [(text, txn, variables, data_sources, label)] → (n_compared, disagreements, stats)"""
    from tally import expr_parser as EP
    cases, impl, kept = [], [], []
    stats = {'rejected_at_load': 0, 'unmodelled': 0, 'nan_skipped': 0, 'outcomes': {}}
    for text, txn, variables, ds, label in items:
        try:
            tree = parse(text)
        except EP.ExpressionError:
            stats['rejected_at_load'] += 1
            continue
        except (RecursionError, ValueError, MemoryError):
            stats['rejected_at_load'] += 1
            continue
        if any(exprs.has_lone_surrogate(s) for s in [text]):
            continue
        cases.append({'expr': exprs.ast_json(tree.body), 'ctx': exprs.ctx_json(txn, variables, ds), 'convert_py': root})
        impl.append(impl_outcomes[text] if impl_outcomes is not None else exprs.impl_eval(text, txn, variables, ds, root=root))
        kept.append((text, txn, variables, ds, label))
    model = exprs.model_eval(cases)
    dis = []
    n = 0
    for k, m, i in zip(kept, model, impl):
        if m.get('err') == 'unmodelled':
            stats['unmodelled'] += 1
            stats.setdefault('unmodelled_why', {})
            w = m.get('why', '')[:40]
            stats['unmodelled_why'][w] = stats['unmodelled_why'].get(w, 0) + 1
            continue
        if 'ok' in i and exprs.nan_in(i['ok']):
            stats['nan_skipped'] += 1      # NaN payload/sign bits are not compared
            continue
        n += 1
        key = 'ok' if 'ok' in i else (i['err'] if i['err'] == 'expr' else i['cls'])
        stats['outcomes'][key] = stats['outcomes'].get(key, 0) + 1
        if not exprs.same_outcome(m, i):
            dis.append({'expr': k[0], 'label': k[4], 'model': {x: y for x, y in m.items() if x != 'scope'}, 'implementation': i,
                        'variables': {a: repr(b) for a, b in (k[2] or {}).items()}, 'txn': GR_jtxn(k[1])})
    return n, dis, stats


def GR_jtxn(txn):
    t = dict(txn)
    if t.get('date'):
        t['date'] = t['date'].isoformat()
    return t


def table_items(thorough=False):
    for e, v, label in GE.table_cells(thorough):
        yield (e, BASE_TXN, v, ROWS, label)


def random_items(r, n, ill=0.0, depth=3):
    for _ in range(n):
        txn = GR.gen_txn(r)
        variables = {}
        if r.random() < 0.4:
            variables['is_large'] = ('bool', txn['amount'] > 100)
            variables['lbl'] = ('str', txn['description'].lower())
            variables['half'] = ('num', txn['amount'] / 2)
        env = GE.Env(txn, variables, ROWS if r.random() < 0.6 else {})
        ty = r.choice(['bool', 'bool', 'bool', 'num', 'str'])
        text = GE.gen_expr(r, env, ty, depth=r.choice([1, 2, 3, depth]), illtyped=ill)
        yield (text, txn, {k: v for k, (t, v) in variables.items()}, env.sources, f'random:{ty}')


def small_items(max_ops):
    txns = [BASE_TXN,
            {'description': '', 'amount': 0.0, 'field': None, 'source': None, 'location': None},
            {'description': 'uber', 'amount': -0.01, 'date': datetime.date(2024, 12, 31), 'field': {'memo': ''}, 'source': '', 'location': ''}]
    for e in GE.enum_small(max_ops):
        for t in txns:
            yield (e, t, None, ROWS, 'small')
