"""C11 — `tally up` honours every setting: report = totals(classify(parse(sources))).

Proof: Props/C11.lean — silent_source_neutral, source_local, setting_local, source_order_irrelevant,
report_count over the composition `runUp`, for arbitrary per-source parse-and-classify functions
(consequences of C06's permutation / partition theorems).
Tie: generated budget directories → `python -m tally up <config> --format json -v -q` in a FRESH process
vs the composed Lean model (`pipeline` op: C05's parser on the implementation's tokenised rows →
field transforms → engine → Unknown fallback → totals), merchants / categories / tags / counts exactly,
money figures to the cent.
Oracle on the implementation alone: per-source locality (report(all) = Σ report(single source)),
missing / unreadable / supplemental sources are neutral, changing one source's setting moves only its share.
Unreadable-file stream: ordinary and supplemental source files that exist but cannot be read the way a user
meets it (Latin-1 / Windows-1252 / UTF-16 export, binary junk, a directory in the file's place, permission
denied when not root, 0-byte and header-only files) and files that are readable but unusual (UTF-8 BOM):
the run must complete and every other source's transactions and totals must be what they are without it.
PARTIAL: argparse, YAML loading and printing are exercised but not modelled; legacy-CSV rule files are
covered by the oracle only (their loop is proved under C01/C14).
"""
import datetime
import json
import os
import shutil
import subprocess
import sys
import tempfile
from concurrent.futures import ThreadPoolExecutor

from .. import common, exprs
from ..common import bits_float
from ..gen import rules as GR

DESCS = ['UBER EATS 123', 'NETFLIX.COM', 'AMAZON MKTPL WA', 'COSTCO WHSE #45', 'STARBUCKS STORE 0042 SEATTLE', 'ACME PAYROLL',
         'TRANSFER SAVINGS', 'SHELL OIL', 'TRADER JOES', 'LYFT RIDE', 'uber trip', 'Target 55']


def fmt_amount(r, cents, eu):
    neg = cents < 0
    c = abs(cents)
    whole, frac = divmod(c, 100)
    s = f'{whole:,}' if r.random() < 0.3 else str(whole)
    if eu:
        s = s.replace(',', '.') + f',{frac:02d}'
    else:
        s = s + f'.{frac:02d}'
    if r.random() < 0.15:
        s = '$' + s
    if neg:
        s = f'({s})' if r.random() < 0.3 else '-' + s
    return s


# ---- files that exist but are not what the settings say --------------------------------------------------
# A file entry of a budget is either a str (written as UTF-8 text) or a dict:
#   {'hex': '..'} raw bytes, {'dir': True} a directory in the file's place, {'text': .., 'mode': 0} chmod after writing.
UNREADABLE = ['latin1', 'cp1252', 'utf16', 'binary', 'dir', 'noperm']     # cannot be read as UTF-8 text at all
HOLLOW = ['empty', 'header-only']                                         # readable, no data row
FAULTS = UNREADABLE + HOLLOW


def fault_entry(r, kind, text, header=True):
    """the file a user ends up with instead of the UTF-8 CSV `text` (all random draws happen for every kind,
    so the stream of budgets does not depend on the kind chosen)"""
    lines = text.split('\n')
    at = r.randint(0, max(len(lines) - 1, 0))
    junk = bytes(r.getrandbits(8) for _ in range(r.choice([8, 64, 300])))
    if kind == 'noperm' and os.geteuid() == 0:
        kind = 'dir'                        # root reads through any mode: use the other OSError a user meets
    if kind == 'latin1':                    # export saved by a spreadsheet as ISO-8859-1
        return {'hex': '\n'.join(lines[:at] + ['Caf\u00e9 M\u00fcnchen,\u00a35'] + lines[at:]).encode('latin-1').hex()}
    if kind == 'cp1252':                    # Windows "ANSI": euro sign and a curly apostrophe
        return {'hex': '\n'.join(lines[:at] + ['\u20ac 5 Joe\u2019s'] + lines[at:]).encode('cp1252').hex()}
    if kind == 'utf16':                     # Excel "Unicode text"
        return {'hex': text.encode('utf-16').hex()}
    if kind == 'binary':                    # the .xlsx / .pdf itself, renamed
        return {'hex': (r.choice([b'PK\x03\x04\x14\x00', b'%PDF-1.7\n%\xe2\xe3\xcf\xd3\n', b'\x00\x01']) + junk + b'\xff\xfe\x80\n').hex()}
    if kind == 'dir':
        return {'dir': True}
    if kind == 'noperm':
        return {'text': text, 'mode': 0}
    if kind == 'empty':
        return ''
    if kind == 'header-only':
        return lines[0] + '\n' if header and lines and lines[0] else ''
    if kind == 'bom':                       # readable: UTF-8 with signature, as written by Excel / Notepad
        return '\ufeff' + text
    return text


def gen_source(r, i, year):
    eu = r.random() < 0.3
    delim = r.choice([None, None, ';', 'tab'])
    if eu and delim is None:
        delim = ';'
    header = r.random() < 0.7
    sign = r.choice(['', '', '-', '+'])
    datefmt = r.choice(['%Y-%m-%d', '%m/%d/%Y', '%d.%m.%Y'])
    with_type = r.random() < 0.35
    cols = ['date', 'description', 'amount'] + (['type'] if with_type else [])
    if r.random() < 0.4:
        cols.insert(r.randint(0, len(cols)), '_')
    r.shuffle(cols) if r.random() < 0.3 else None
    fmt_parts = []
    for c in cols:
        if c == 'date':
            fmt_parts.append('{date:%s}' % datefmt)
        elif c == 'amount':
            fmt_parts.append('{%samount}' % sign)
        elif c == 'description':
            fmt_parts.append('{merchant}' if with_type else '{description}')
        else:
            fmt_parts.append('{%s}' % c)
    src = {'name': f'Src{i}', 'file': f'data/s{i}.csv', 'format': ','.join(fmt_parts)}
    if with_type:
        src['columns'] = {'description': '{merchant} ({type})'}
    if delim:
        src['delimiter'] = delim
    if not header or r.random() < 0.3:
        src['has_header'] = header
    if eu:
        src['decimal_separator'] = ','
    rows = []
    expected = []
    for _ in range(r.choice([2, 3, 5, 8])):
        d = datetime.date(year, r.choice([1, 1, 2, 3, 12]), r.randint(1, 28))
        cents = r.choice([1599, 10000, 250, -2050, 50000, -200000, 100, 4200, r.randint(-90000, 90000)])
        row = {'date': d.strftime(datefmt), 'description': r.choice(DESCS), 'amount': fmt_amount(r, cents, eu), 'type': r.choice(['ACH', 'card', '']),
               '_': r.choice(['x', '', '123'])}
        ok = cents != 0
        if r.random() < 0.08:
            row['amount'] = r.choice(['', 'n/a', '0.00'])
            ok = False
        if r.random() < 0.05:
            row['date'] = 'soon'
            ok = False
        if ok:
            final = {'': cents, '-': -cents, '+': abs(cents)}[sign]
            expected.append({'cents': final, 'description': row['description']})
        rows.append([row[c] for c in cols])
    sep = {None: ',', ';': ';', 'tab': '\t'}[delim]
    lines = []
    if header:
        lines.append(sep.join(c.upper() for c in cols))
    for row in rows:
        lines.append(sep.join('"%s"' % c if (sep in c) else c for c in row))
    return src, '\n'.join(lines) + '\n', expected


def gen_budget(r):
    year = 2025
    n = r.choice([1, 2, 2, 3, 4])
    files, sources = {}, []
    expect = []
    states = []
    for i in range(n):
        src, text, exp = gen_source(r, i, year)
        sources.append(src)
        # the file: present (with or without a UTF-8 signature) / missing / there but unreadable or hollow
        state = r.random()
        fk = r.choice(FAULTS)
        entry = fault_entry(r, fk, text, header=src.get('has_header', True))
        # EXCLUSION (finding F11-bom, notes): a UTF-8 signature is only put on files that have a header line
        bom = r.random() < 0.15 and src.get('has_header', True)
        if state < 0.78:
            files[src['file']] = fault_entry(r, 'bom', text) if bom else text
            expect.extend(exp)
            states.append('bom' if bom else 'ok')
        elif state < 0.88:
            states.append('missing')
        else:
            files[src['file']] = entry
            states.append(fk)
    supp = r.random() < 0.4
    ORDERS = 'date,item,amount\n2025-01-05,Book,15.99\n2025-01-06,Pen,100.00\n2025-02-01,Ink,2.50\n'
    supp_state = 'ok'
    if supp:
        sources.insert(r.randint(0, len(sources)), {'name': 'orders', 'file': 'data/orders.csv', 'format': '{date:%Y-%m-%d},{item},{amount}',
                                                    'columns': {'description': '{item}'}, 'supplemental': True})
        files['data/orders.csv'] = ORDERS
        fk = r.choice(FAULTS + ['missing', 'bom'])
        entry = fault_entry(r, fk, ORDERS)
        if r.random() < 0.3:
            supp_state = fk
            if fk == 'missing':
                del files['data/orders.csv']
            else:
                files['data/orders.csv'] = entry
    states.append('supplemental:' + supp_state if supp else 'no-supplemental')
    # pre-drawn extra source for the neutrality oracle: an ordinary source whose file contributes nothing, or a supplemental source
    # that no rule queries (any content): adding it must not move a single figure
    gsupp = r.random() < 0.5
    gkind = r.choice(FAULTS + (['bom', 'valid'] if gsupp else []))
    ghost = {'supplemental': gsupp, 'kind': gkind, 'pos': r.randint(0, len(sources)),
             'entry': fault_entry(r, gkind, 'Date,What,Amount\n2025-01-09,GHOST CAFE,12.00\n2025-02-10,GHOST RENT,900.00\n')}
    txn = GR.gen_txn(r)
    txn['description'] = r.choice(DESCS)
    kind = r.choice(['rules', 'rules', 'rules', 'none', 'csv'])
    settings = {'year': year, 'data_sources': sources}
    probe = None
    if kind == 'rules':
        f = GR.gen_rules_file(r, txn)
        if supp and r.random() < 0.7:
            f['rules'].insert(0, {'name': 'Ordered', 'match': 'any(r.amount == amount for r in orders)', 'category': 'Orders',
                                  'tags': ['{next((r.item for r in orders if r.amount == amount), "")}']})
            f['transforms'] = []
            # with the orders file unreadable the rule may or may not see rows (the loader may skip the file or decode it leniently):
            # only the ordinary sources' transactions and amounts are required then
            probe = ('Ordered', sum(1 for e in expect if e['cents'] in (1599, 10000, 250))) if supp_state in ('ok', 'bom') else None
        elif r.random() < 0.4:
            f['transforms'] = [('field.description', 'regex_replace(field.description, "^UBER\\\\s+", "")')]
            f['rules'].insert(0, {'name': 'Probe', 'match': 'startswith("EATS")', 'category': 'Probe'})
            probe = ('Probe', sum(1 for e in expect if e['description'] == 'UBER EATS 123'))
        files['config/merchants.rules'] = GR.render_rules(f)
        settings['merchants_file'] = 'config/merchants.rules'
    elif kind == 'csv':
        files['config/merchant_categories.csv'] = GR.render_csv_rules(GR.gen_csv_rules(r, txn))
    mode = r.choice(['first_match', 'first_match', 'most_specific'])
    if mode != 'first_match' or r.random() < 0.2:
        settings['rule_mode'] = mode
    if r.random() < 0.3:
        files['config/views.rules'] = '[Big]\nfilter: total > 100\n\n[Recurring]\nfilter: months >= 2\n'
        settings['views_file'] = 'config/views.rules'
    import yaml
    files['config/settings.yaml'] = yaml.safe_dump(settings, sort_keys=False)
    return {'files': files, 'kind': kind, 'states': states, 'ghost': ghost, 'expect': {'count': len(expect), 'sum_cents': sum(e['cents'] for e in expect),
                                                       'probe': probe if mode == 'first_match' else None}}


def write_budget(d, budget):
    for rel, text in budget['files'].items():
        p = os.path.join(d, rel)
        os.makedirs(os.path.dirname(p), exist_ok=True)
        if isinstance(text, dict):
            if text.get('dir'):
                os.makedirs(p, exist_ok=True)
                continue
            if 'hex' in text:
                with open(p, 'wb') as f:
                    f.write(bytes.fromhex(text['hex']))
                continue
            mode, text = text.get('mode'), text.get('text', '')
        else:
            mode = None
        with open(p, 'w', encoding='utf-8', newline='') as f:
            f.write(text)
        if mode is not None:
            os.chmod(p, mode)
    os.makedirs(os.path.join(d, 'data'), exist_ok=True)


def run_up(budget, extra=()):
    d = tempfile.mkdtemp(prefix='tvup_')
    try:
        write_budget(d, budget)
        env = dict(os.environ, PYTHONPATH=os.path.join(common.REPO, 'src'), NO_COLOR='1', PYTHONDONTWRITEBYTECODE='1')
        p = subprocess.run([sys.executable, '-m', 'tally', 'up', 'config', '--format', 'json', '-v', '-q'] + list(extra), cwd=d, env=env,
                           stdin=subprocess.DEVNULL, stdout=subprocess.PIPE, stderr=subprocess.PIPE, text=True, timeout=120)
        out = p.stdout
        if p.returncode != 0:
            return {'exit': p.returncode, 'stderr': p.stderr[-300:]}
        try:
            return {'json': json.loads(out[out.index('{'):])}
        except Exception:
            return {'exit': 0, 'unparsed': out[:300]}
    finally:
        shutil.rmtree(d, ignore_errors=True)


def impl_view(res):
    if 'json' not in res:
        return {'no_report': True}
    j = res['json']
    ms = {m['name']: {'category': m['category'], 'subcategory': m['subcategory'], 'tags': sorted(m['tags']), 'total': m['total'],
                      'count': m['count']} for m in j['merchants']}
    s = j['summary']
    return {'merchants': ms, 'income': s['income_total'], 'spending': s['spending_total'], 'credits': s['credits_total'],
            'transfers_in': s['transfers_in'], 'transfers_out': s['transfers_out'],
            'by_month': {k: v['total'] for k, v in j['by_month'].items()}}


def model_input(budget):
    """Build the `pipeline` op from the budget using the implementation's own config loader and tokeniser
    (rows after tokenisation, as in C05); float()/strptime answers are filled by CPython on demand."""
    from tally import config_loader, parsers, merchant_engine as ME
    d = tempfile.mkdtemp(prefix='tvupm_')
    try:
        write_budget(d, budget)
        cfgdir = os.path.join(d, 'config')
        config = config_loader.load_config(cfgdir)
        supp = config_loader.load_supplemental_sources(config, cfgdir)
        sources = []
        for s in config['data_sources']:
            if s.get('_supplemental'):
                sources.append({'supplemental': True})
                continue
            fp = os.path.normpath(os.path.join(cfgdir, '..', s['file']))
            if not os.path.exists(fp):
                continue
            spec = s['_format_spec']
            try:
                rows = [list(x) for x in parsers._iter_rows_with_delimiter(fp, spec.delimiter, spec.has_header)]
            except (OSError, UnicodeError):
                continue           # cmd_run: "Error parsing" → the source yields no transaction (Props.C11.unreadable_source_neutral)

            def pairs(dct):
                return None if dct is None else [[k, v] for k, v in dct.items()]
            js = {'date_col': spec.date_column, 'date_format': spec.date_format, 'amount_col': spec.amount_column,
                  'desc_col': spec.description_column, 'custom': pairs(spec.custom_captures), 'template': spec.description_template,
                  'extra': pairs(spec.extra_fields), 'loc_col': spec.location_column, 'source_name': spec.source_name,
                  'negate': bool(spec.negate_amount), 'abs': bool(spec.abs_amount)}
            sources.append({'supplemental': False, 'spec': js, 'cfg': {'eu': s.get('decimal_separator', '.') == ',', 'source': s.get('name', 'CSV'), 'fixed': True},
                            'rows': rows, 'floats': [], 'dates': [], '_fmt': spec.date_format})
        mf = config.get('_merchants_file')
        rb = {'mode': config.get('rule_mode', 'first_match'), 'has_engine': False, 'variables': [], 'transforms': [], 'rules': []}
        if mf and mf.endswith('.rules'):
            eng = ME.load_merchants_file(__import__('pathlib').Path(mf), match_mode=rb['mode'])
            ec = exprs.engine_case(eng, {'description': '', 'amount': 0.0}, rb['mode'])
            rb.update(has_engine=True, variables=ec['variables'], rules=ec['rules'],
                      transforms=[[fp[6:], exprs.parse_or_none(e)] for fp, e in eng.transforms])
        elif mf:
            return None            # legacy CSV rules: oracle only
        return {'sources': sources, 'rulebook': rb, 'supp': [[k, exprs.val_json(v, True)] for k, v in supp.items()]}
    finally:
        shutil.rmtree(d, ignore_errors=True)


def fill_csv_oracles(cases):
    """demand-driven float()/strptime tables for every source, via the `csv` op's `misses`"""
    drv = common.Driver()
    for _ in range(6):
        batch, where = [], []
        for ci, c in enumerate(cases):
            for si, s in enumerate(c['sources']):
                if not s.get('supplemental'):
                    batch.append({'op': 'csv', 'spec': s['spec'], 'cfg': s['cfg'], 'rows': s['rows'], 'floats': s['floats'], 'dates': s['dates']})
                    where.append((ci, si))
        outs = drv.batch(batch)
        progress = False
        for (ci, si), o in zip(where, outs):
            s = cases[ci]['sources'][si]
            for kind, arg in o.get('misses', []):
                progress = True
                if kind == 'float':
                    try:
                        s['floats'].append([arg, common.float_bits(float(arg))])
                    except ValueError:
                        s['floats'].append([arg, None])
                else:
                    try:
                        s['dates'].append([arg, datetime.datetime.strptime(arg, s['_fmt']).isoformat()])
                    except ValueError:
                        s['dates'].append([arg, None])
        if not progress:
            break


def model_view(out):
    if 'txns' not in out:
        return {'model_error': out}
    if not out['txns']:
        return {'no_report': True}
    ms = {}
    for t in out['txns']:
        m = ms.setdefault(t['merchant'], {'category': '', 'subcategory': '', 'tags': set()})
        m['category'], m['subcategory'] = t['category'], t['subcategory']
        m['tags'].update(t['tags'])
    for name, cnt, tot in out['by_merchant']:
        ms[name].update(count=cnt, total=round(bits_float(tot), 2))
    for m in ms.values():
        m['tags'] = sorted(m['tags'])
    r2 = lambda k: round(bits_float(out[k]), 2)
    return {'merchants': ms, 'income': r2('income'), 'spending': r2('spending'), 'credits': r2('credits'),
            'transfers_in': r2('transfers_in'), 'transfers_out': r2('transfers_out'),
            'by_month': {k: round(bits_float(v), 2) for k, v in sorted(out['by_month'])}}


def close(a, b):
    if isinstance(a, dict) and isinstance(b, dict):
        return a.keys() == b.keys() and all(close(a[k], b[k]) for k in a)
    if isinstance(a, (int, float)) and isinstance(b, (int, float)) and not isinstance(a, bool):
        return abs(a - b) <= 0.011
    return a == b


def single_source_budgets(budget):
    import yaml
    st = yaml.safe_load(budget['files']['config/settings.yaml'])
    outs = []
    real = [s for s in st['data_sources'] if not s.get('supplemental')]
    for keep in real:
        st2 = dict(st, data_sources=[s for s in st['data_sources'] if s.get('supplemental') or s is keep])
        files = dict(budget['files'])
        files['config/settings.yaml'] = yaml.safe_dump(st2, sort_keys=False)
        outs.append(dict(budget, files=files))
    return outs


def locality_oracle(budget, whole):
    """report(all sources) = Σ report(each source alone): counts and money figures, merchant by merchant"""
    if 'json' not in whole:
        return []
    parts = [run_up(b) for b in single_source_budgets(budget)]
    tot = {}
    cnt = {}
    flows = {k: 0.0 for k in ('income_total', 'spending_total', 'credits_total', 'transfers_in', 'transfers_out')}
    for p in parts:
        if 'json' not in p:
            continue            # a source with no transaction at all: "No transactions found"
        for m in p['json']['merchants']:
            tot[m['name']] = tot.get(m['name'], 0) + m['total']
            cnt[m['name']] = cnt.get(m['name'], 0) + m['count']
        for k in flows:
            flows[k] += p['json']['summary'][k]
    w = whole['json']
    fails = []
    wcnt = {m['name']: m['count'] for m in w['merchants']}
    wtot = {m['name']: m['total'] for m in w['merchants']}
    nsrc = max(len(parts), 1)
    if wcnt != cnt:
        fails.append({'class': 'source-not-local:counts', 'whole': wcnt, 'sum_of_single_sources': cnt})
    elif any(abs(wtot[k] - tot[k]) > 0.006 * nsrc + 0.005 for k in wtot):
        fails.append({'class': 'source-not-local:totals', 'whole': wtot, 'sum_of_single_sources': tot})
    elif any(abs(w['summary'][k] - flows[k]) > 0.006 * nsrc + 0.005 for k in flows):
        fails.append({'class': 'source-not-local:flows', 'whole': {k: w['summary'][k] for k in flows}, 'sum_of_single_sources': flows})
    for f in fails:
        f['budget'] = budget
    return fails


def spec_oracle(budget, whole):
    """the generator knows which rows are well-formed and what they say: count, Σ amount and the probes
    (a rule that needs the supplemental rows; a rule that only matches after the field transform)"""
    exp = budget.get('expect')
    if not exp:
        return []
    fails = []
    if 'json' not in whole:
        if exp['count'] > 0:
            fails.append({'class': 'report-missing', 'budget': budget, 'expected_transactions': exp['count'], 'observed': whole})
        return fails
    j = whole['json']
    cnt = sum(m['count'] for m in j['merchants'])
    if cnt != exp['count']:
        fails.append({'class': 'wrong-transaction-count', 'budget': budget, 'observed': cnt, 'required': exp['count']})
    elif abs(j['summary']['total_spending'] - exp['sum_cents'] / 100) > 0.006:
        fails.append({'class': 'amounts-not-read-with-the-source-settings', 'budget': budget, 'observed_sum': j['summary']['total_spending'],
                      'required_sum': exp['sum_cents'] / 100})
    elif exp.get('probe'):
        name, want = exp['probe']
        got = sum(m['count'] for m in j['merchants'] if m['name'] == name)
        if got != want:
            fails.append({'class': 'rule-setting-not-honoured:' + name, 'budget': budget, 'observed': got, 'required': want})
    return fails


def neutral_oracle(r, budget, whole):
    """adding a source whose file is missing, a source whose file is there but unreadable / hollow, or a supplemental source nobody
    queries (readable or not) changes nothing: the run completes and every figure of the other sources stays"""
    import yaml
    if 'json' not in whole:
        return []
    st = yaml.safe_load(budget['files']['config/settings.yaml'])
    fails = []

    def variant(src, entry, pos):
        ds = list(st['data_sources'])
        ds.insert(min(pos, len(ds)), src)
        files = dict(budget['files'])
        files['config/settings.yaml'] = yaml.safe_dump(dict(st, data_sources=ds), sort_keys=False)
        if entry is not None:
            files[src['file']] = entry
        return dict(budget, files=files, expect=None, ghost=None)

    fmt = '{date:%Y-%m-%d},{description},{amount}'
    b2 = variant({'name': 'Ghost', 'file': 'data/ghost.csv', 'format': fmt}, None, len(st['data_sources']))
    other = run_up(b2)
    if impl_view(other) != impl_view(whole):
        fails.append({'class': 'missing-source-not-neutral', 'budget': budget, 'with_missing_source': impl_view(other), 'without': impl_view(whole)})
    g = budget.get('ghost')
    if g:
        src = {'name': 'Ledger', 'file': 'data/ledger.csv', 'format': fmt}
        if g['supplemental']:
            src['supplemental'] = True
        b3 = variant(src, g['entry'], g['pos'])
        other = run_up(b3)
        if impl_view(other) != impl_view(whole):
            what = ('supplemental-source-nobody-queries' if g['kind'] in ('valid', 'bom') else
                    ('unreadable-' if g['kind'] in UNREADABLE else 'hollow-') + ('supplemental-' if g['supplemental'] else '') + 'source')
            fails.append({'class': what + '-not-neutral', 'file_is': g['kind'], 'budget': budget,
                          'settings_with_the_extra_source': b3['files']['config/settings.yaml'], 'extra_file': g['entry'],
                          'with_the_extra_source': other if 'json' not in other else impl_view(other), 'without': impl_view(whole)})
    return fails


def run(ctx):
    lo = common.lean_phase(ctx, 'TallyVerif.Props.C11')
    r = ctx.rng
    n = 80 if ctx.quick else 2500
    if ctx.replay:
        ce = json.loads(common.read(ctx.replay)).get('counterexample', {})
        budgets = [ce['budget']] if 'budget' in ce else []
    else:
        budgets = [gen_budget(r) for _ in range(n)]
    with ThreadPoolExecutor(max_workers=16) as ex:
        impls = list(ex.map(run_up, budgets))
    prop_fail, corr_fail = [], []
    mcases, midx = [], []
    for i, b in enumerate(budgets):
        try:
            mi = model_input(b)
        except Exception as e:
            mi = None
            ctx.notes.setdefault('model_input_errors', []).append(f'{type(e).__name__}: {e}'[:120])
        if mi is not None:
            mcases.append(mi); midx.append(i)
    unmodelled = 0
    if mcases:
        fill_csv_oracles(mcases)
        for c in mcases:
            for s in c['sources']:
                s.pop('_fmt', None)
        outs = exprs.model_eval(mcases, op='pipeline')
        for i, o in zip(midx, outs):
            if o.get('err') == 'unmodelled':
                unmodelled += 1
                continue
            mv, iv = model_view(o), impl_view(impls[i])
            if not close(mv, iv):
                diff = [k for k in set(mv) | set(iv) if not close(mv.get(k), iv.get(k))]
                corr_fail.append({'differs_in': diff, 'model': {k: mv.get(k) for k in diff}, 'implementation': {k: iv.get(k) for k in diff},
                                  'budget': budgets[i]})
    ctx.obligation('correspondence:python -m tally up (fresh process) vs the composed Lean pipeline', 'correspondence', not corr_fail,
                   cases=len(mcases) - unmodelled, error=json.dumps(corr_fail[0], default=str)[:2500] if corr_fail else None)
    nor = 0
    with ThreadPoolExecutor(max_workers=8) as ex:
        sel = [i for i in range(len(budgets)) if (ctx.replay or i % (2 if ctx.quick else 3) == 0)]
        for i in range(len(budgets)):
            prop_fail.extend(spec_oracle(budgets[i], impls[i]))
        for fl in ex.map(lambda i: locality_oracle(budgets[i], impls[i]) + neutral_oracle(r, budgets[i], impls[i]), sel):
            prop_fail.extend(fl)
            nor += 1
    ctx.cov['evaluations'] = len(budgets) + nor * 4
    ctx.cov['traces_validated_against_impl'] = len(mcases) - unmodelled
    ctx.cov['distinct_nontrivial'] = sum(1 for b, im in zip(budgets, impls) if 'json' in im and len(im['json']['merchants']) >= 2
                                         and (sum(1 for x in b['states'] if x in ('ok', 'bom')) if 'states' in b else
                                              sum(1 for k in b['files'] if k.startswith('data/s'))) >= 2)
    ctx.cov['rule'] = ('generated budget directories: 1–4 sources with independent format strings (column order, skip columns, custom capture + '
                       'description template), delimiter (comma / ; / tab), header flag, decimal convention, sign mode, malformed rows, missing files, an '
                       'optional supplemental source queried by a rule, .rules / legacy CSV / no rules, both rule modes, optional views; each run '
                       'through `python -m tally up --format json -v -q` in a fresh process and through the composed Lean model. '
                       'Unreadable-file stream: an ordinary source file (12 %) or the queried supplemental file (30 %) is replaced by what a user '
                       'ends up with — Latin-1 / Windows-1252 / UTF-16 bytes, binary junk (zip / pdf magic + NULs + invalid UTF-8), a directory, a '
                       'mode-000 file (only when not root; a directory otherwise), a 0-byte or header-only file — or carries a UTF-8 BOM (15 % of '
                       'the files with a header line); such a source must contribute nothing and the run must complete with every other source\'s '
                       'transactions and amounts (generator truth + locality); for every second budget one more run adds a pre-drawn extra source '
                       '(ordinary with an unreadable / hollow file, or supplemental and unqueried with any of those or a readable file) at a random '
                       'position and requires an identical report. Non-trivial = ≥ 2 readable data files and ≥ 2 merchants in the report')
    fs = {}
    for b in budgets:
        for x in b.get('states', []):
            fs[x] = fs.get(x, 0) + 1
    ctx.notes['source_file_states'] = dict(sorted(fs.items()))
    gs = {}
    for i in sel:
        g = budgets[i].get('ghost')
        if g and 'json' in impls[i]:
            k = ('supplemental:' if g['supplemental'] else 'ordinary:') + g['kind']
            gs[k] = gs.get(k, 0) + 1
    ctx.notes['extra_source_neutrality_runs'] = dict(sorted(gs.items()))
    ctx.notes['permission_denied_testable'] = os.geteuid() != 0
    ctx.notes['budgets_by_rules_kind'] = {k: sum(1 for b in budgets if b.get('kind') == k) for k in ('rules', 'csv', 'none')}
    ctx.notes['unmodelled_skipped'] = unmodelled
    ctx.notes['reports_produced'] = sum(1 for im in impls if 'json' in im)
    for b in budgets[:2]:
        ctx.sample({'settings': b['files']['config/settings.yaml'], 'files': sorted(b['files']), 'file_states': b.get('states')})

    def search():
        out = []
        for _ in range(150):
            b = gen_budget(r)
            w = run_up(b)
            out.extend(spec_oracle(b, w) + locality_oracle(b, w) + neutral_oracle(r, b, w))
            if out:
                break
        return out

    common.conclude(ctx, prop_fail, search=search,
                    required='the report contains exactly the transactions of all non-supplemental sources, each read with its own settings and '
                             'classified by the configured rules; changing one source or setting changes only its share; a missing or unreadable source '
                             '(ordinary or supplemental) leaves the others intact and does not stop the run')
    return ctx.finish(extra_trusted=[
        'PARTIAL: argparse, YAML loading, path resolution and JSON printing are exercised end to end but not modelled',
        'tokenisation (csv.reader / regex) is taken from the implementation, as in C05',
        'legacy-CSV rule budgets: implementation-only oracle (their loop is proved under C01/C14); money figures compared to the cent',
        'the component models (Csv, Expr, Engine, Rules, Totals) and their own ties (C05, C04/C08, C01/C02/C09, C06)'])
