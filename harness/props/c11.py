"""C11 — `tally up` honours every setting: report = totals(classify(parse(sources))).

Proof: Props/C11.lean — silent_source_neutral, source_local, setting_local, source_order_irrelevant,
report_count over the composition `runUp`, for arbitrary per-source parse-and-classify functions
(consequences of C06's permutation / partition theorems).
Tie: generated budget directories → `python -m tally up <config> --format json -v -q` in a FRESH process
vs the composed Lean model (`pipeline` op: C05's parser on the implementation's tokenised rows →
field transforms → engine → Unknown fallback → totals), merchants / categories / tags / counts exactly,
money figures to the cent.
Oracle on the implementation alone: per-source locality (report(all) = Σ report(single source)),
missing / unreadable / supplemental sources are neutral, changing one source's setting moves only its share.
Unreadable-file stream: ordinary and supplemental source files that exist but cannot be read the way a user
meets it (Latin-1 / Windows-1252 / UTF-16 export, binary junk, a directory in the file's place, permission
denied when not root, 0-byte and header-only files) and files that are readable but unusual (UTF-8 BOM):
the run must complete and every other source's transactions and totals must be what they are without it.
Damaged-in-one-place stream: the queried supplemental file with a few bytes that are not UTF-8 in its header, in one cell,
in an added row or in a torn last line: every row whose own bytes are intact must still answer the rule that queries it
(generator truth; Props/C11 readable_rows_survive / query_answered_by_intact_row for the line-by-line lenient loader).
File names: `file:` is a literal path — names and directories with spaces, brackets, parentheses, # & ' + , % ~ $ { },
non-ASCII (NFC and NFD), leading dots / dashes, * ? [ ], upper / lower case, nested and unnormalised paths, and SIBLINGS
(the same name in other case; the name another one becomes when read or written as a pattern); every source, also the
supplemental one and the extra sources of the neutrality oracle (a missing file whose name reads as a pattern stays missing).
Legacy CSV rule files (merchant_categories.csv) are modelled like `.rules` files: the tuples the implementation loads
(`get_all_rules`) are classified by `Pipeline.classifyLegacy` (`_is_expression_pattern` → evaluator with the supplemental
rows, else regex oracle on the upper-cased description + `Migrate.checkAll` on exact doubles; `_resolve_dynamic_tags`;
`Rules.legacy`), and a dedicated legacy stream writes such files against the statement lines the sources carry.
`_is_expression_pattern` is additionally compared densely with `Pipeline.isExpressionPattern` (op `legacyshape`).
Tagged stream: the rules (legacy CSV and .rules alike) are keyword rows with tags; the GENERATOR knows which rows match which
statement lines and what tags they carry, so the implementation-only oracle requires the tags of every merchant, the figure each
amount lands in (income / investment / transfers / spending / credits; JSON summary and the HTML report) and the selection of the
`"t" in tags` views — not only counts and sums.
Delimiters: every source (ordinary and supplemental) declares its delimiter in one of the spellings the code accepts — absent, `,`,
`;`, the word `tab`, a REAL tab, a blank, `|` and ten more single characters (white-space characters U+001F, form feed, NBSP, EM SPACE
among them), `regex:` line patterns (one ending in a significant blank) — and its file is written with exactly that separator.
Odd-cell stream: the queried supplemental file, perfectly readable, with ONE odd cell or row (empty / blank / textual / otherwise
shaped date, an amount that is no number, an empty item, a pending order without date, a subtotal line with fewer cells, surplus
cells, a row of blank cells, no usable date in any row): the rule must still answer for every OTHER row (generator truth;
Props/C11 odd_cell_field_local / amount_survives_odd_date for the cell-by-cell loader).
PARTIAL: argparse, YAML loading and printing are exercised but not modelled.
"""
import datetime
import json
import os
import shutil
import subprocess
import sys
import tempfile
from concurrent.futures import ThreadPoolExecutor

from .. import common, exprs, regen
from . import c11_config as CC
from ..common import bits_float
from ..gen import rules as GR

DESCS = ['UBER EATS 123', 'NETFLIX.COM', 'AMAZON MKTPL WA', 'COSTCO WHSE #45', 'STARBUCKS STORE 0042 SEATTLE', 'ACME PAYROLL',
         'TRANSFER SAVINGS', 'SHELL OIL', 'TRADER JOES', 'LYFT RIDE', 'uber trip', 'Target 55']


def fmt_amount(r, cents, eu):
    neg = cents < 0
    c = abs(cents)
    whole, frac = divmod(c, 100)
    s = f'{whole:,}' if r.random() < 0.3 else str(whole)
    if eu:
        s = s.replace(',', '.') + f',{frac:02d}'
    else:
        s = s + f'.{frac:02d}'
    if r.random() < 0.15:
        s = '$' + s
    if neg:
        s = f'({s})' if r.random() < 0.3 else '-' + s
    return s


# ---- files that exist but are not what the settings say --------------------------------------------------
# A file entry of a budget is either a str (written as UTF-8 text) or a dict:
#   {'hex': '..'} raw bytes, {'dir': True} a directory in the file's place, {'text': .., 'mode': 0} chmod after writing.
UNREADABLE = ['latin1', 'cp1252', 'utf16', 'binary', 'dir', 'noperm']     # cannot be read as UTF-8 text at all
HOLLOW = ['empty', 'header-only']                                         # readable, no data row
FAULTS = UNREADABLE + HOLLOW


def fault_entry(r, kind, text, header=True):
    """the file a user ends up with instead of the UTF-8 CSV `text` (all random draws happen for every kind,
    so the stream of budgets does not depend on the kind chosen)"""
    lines = text.split('\n')
    at = r.randint(0, max(len(lines) - 1, 0))
    junk = bytes(r.getrandbits(8) for _ in range(r.choice([8, 64, 300])))
    if kind == 'noperm' and os.geteuid() == 0:
        kind = 'dir'                        # root reads through any mode: use the other OSError a user meets
    if kind == 'latin1':                    # export saved by a spreadsheet as ISO-8859-1
        return {'hex': '\n'.join(lines[:at] + ['Caf\u00e9 M\u00fcnchen,\u00a35'] + lines[at:]).encode('latin-1', 'replace').hex()}
    if kind == 'cp1252':                    # Windows "ANSI": euro sign and a curly apostrophe
        return {'hex': '\n'.join(lines[:at] + ['\u20ac 5 Joe\u2019s'] + lines[at:]).encode('cp1252', 'replace').hex()}
    if kind == 'utf16':                     # Excel "Unicode text"
        return {'hex': text.encode('utf-16').hex()}
    if kind == 'binary':                    # the .xlsx / .pdf itself, renamed
        return {'hex': (r.choice([b'PK\x03\x04\x14\x00', b'%PDF-1.7\n%\xe2\xe3\xcf\xd3\n', b'\x00\x01']) + junk + b'\xff\xfe\x80\n').hex()}
    if kind == 'dir':
        return {'dir': True}
    if kind == 'noperm':
        return {'text': text, 'mode': 0}
    if kind == 'empty':
        return ''
    if kind == 'header-only':
        return lines[0] + '\n' if header and lines and lines[0] else ''
    if kind == 'bom':                       # readable: UTF-8 with signature, as written by Excel / Notepad
        return '\ufeff' + text
    return text


# ---- a supplemental file that is DAMAGED IN ONE PLACE ----------------------------------------------------
# A few bytes that are not UTF-8 (a Latin-1 letter in a name, a torn multi-byte sequence, a stray 0xFF) somewhere in an otherwise
# fine export.  `load_supplemental_sources` reads leniently (errors='replace'): the bytes become U+FFFD inside their own cell and
# every other row is what it is in the clean file (established on the unchanged code, notes/C11_notes.md round 2).  None of the
# byte strings contains a delimiter, a quote or a line break, so the damage cannot move a cell or a row boundary.
BAD_BYTES = [b'\xe9', b'\x92', b'\xff', b'\x80', b'\xc3', b'\xe2\x82', b'\xed\xa0\x80', b'\xc0\xaf', b'\xf8\x88\x80\x80\x80', b'\xfe\xff',
             b'Caf\xe9', b'M\xfcnchen \xa35', b'\xa0', b'Joe\x92s']
PARTIAL = ['bad-header', 'bad-cell', 'bad-extra-row', 'bad-tail', 'bad-amount']


def damage_entry(r, text, where, sep=','):
    """`text` = header line + `sep`-separated data rows (date, item, amount) with bytes that are not UTF-8 in ONE place.
    Returns (file entry, touched) where `touched` lists the 1-based data rows whose OWN bytes were changed; every other row is
    byte for byte the row of the clean file.  (All draws happen for every `where`.)"""
    lines = [l.encode('utf-8') for l in text.split('\n')]
    assert lines[-1] == b''
    n = len(lines) - 2                                   # data rows are lines[1..n]
    bad = r.choice(BAD_BYTES)
    k = r.randint(1, n)
    at = r.randint(1, n + 1)
    u = r.random()
    full = r.random() < 0.5
    touched = []
    sb = sep.encode('utf-8')
    bad = bad.replace(sb, b'')                           # (the blank delimiter: the damage must not add a cell boundary)

    def splice(b, lo, hi):
        i = lo + int(u * (hi - lo + 1))
        return b[:i] + bad + b[i:]
    if where == 'bad-header':                            # a column title with an accent, saved as ISO-8859-1
        lines[0] = splice(lines[0], 0, len(lines[0]))
    elif where == 'bad-cell':                            # the item text of ONE row (a column the rule does not compare)
        c = lines[k].split(sb)
        c[1] = splice(c[1], 0, len(c[1]))
        lines[k] = sb.join(c)
        touched = [k]
    elif where == 'bad-amount':                          # the amount cell of ONE row
        c = lines[k].split(sb)
        c[2] = splice(c[2], 0, len(c[2]))
        lines[k] = sb.join(c)
        touched = [k]
    elif where == 'bad-extra-row':                       # one more (complete) row that carries the bytes; its amount matches nothing
        lines.insert(at, b'2025-03-09' + sb + b'Gi' + bad + b'ft' + sb + b'7.77')
    elif where == 'bad-tail':                            # a torn last line without line end
        lines[-1] = (b'2025-03-30' + sb + b'Stamp' + bad + sb + b'0.85') if full else bad
    return {'hex': b'\n'.join(lines).hex()}, touched


# ---- a supplemental file with ONE ODD CELL / ONE ODD ROW (all of it perfectly readable text) ----------------------------------------
# Order exports carry rows a statement never has: a pending order without a date, a subtotal line, a gift without a price, `n/a`,
# a date in another shape or with the weekday appended, a line with fewer or more cells.  What `load_supplemental_sources` does with
# them, cell by cell (established on the unchanged code, notes/C11_notes.md round 4): a date cell that does not parse with the
# source's date format (empty, blank, text, an impossible date, another shape, date + weekday / time) stays a STRING in its row; an
# amount cell that is empty / not a number becomes 0.0; an empty item is ''; a row with fewer cells simply lacks the fields it has no
# cell for; surplus cells are ignored; a line whose cells are all blank is skipped.  No cell ever costs another row, let alone the table.
ODD = ['odd-date-empty', 'odd-date-blank', 'odd-date-text', 'odd-amount', 'odd-item', 'odd-extra-row', 'odd-short-row', 'odd-blank-cells-row',
       'odd-long-row', 'odd-every-date']
ODD_DATES = ['pending', 'n/a', 'TBD', '-', '0000-00-00', '2025-02-30', '2025-13-01', '01/05/2025', '5 Jan 2025', '2025-01-05  Mon', '2025-01-05 10:31',
             '2025-01-05T10:31:00', '20250105', '2025-1-5x', '#N/A', 'date']
ODD_AMOUNTS = ['', ' ', 'n/a', '-', '--', 'free', '$', 'USD', '12.x', '1.2.3', 'TBD', '#VALUE!', '()']          # none of them is a number


def odd_entry(r, text, where, sep=','):
    """`text` = header line + `sep`-separated data rows (date, item, amount), all well-formed; ONE cell or ONE row of it made odd.
    Returns (text, promised, extra_cents): `promised` = the 1-based ORIGINAL data rows whose amount a query `any(r.amount == amount
    for r in orders)` must still find (every untouched row; with a row that has NO amount cell in the file — on which the query
    raises — the rows standing before it), `extra_cents` = the amounts of added rows (they may answer the query too).
    (All draws happen for every `where`.)"""
    lines = text.split('\n')
    assert lines[-1] == ''
    n = len(lines) - 2
    k = r.randint(1, n)
    at = r.randint(1, n + 1)
    odd_date = r.choice(ODD_DATES)
    odd_amount = r.choice(ODD_AMOUNTS)
    blank = r.choice([' ', '  ', '\t', ' \t ', '\xa0', '\u3000'])
    short = r.choice([['Subtotal'], ['2025-03-09', 'Gift (no price)'], [''], ['', 'Pending'], ['Total:']])
    item_empty = r.random() < 0.5
    empty_date_row = r.random() < 0.6
    quoted = r.random() < 0.3
    rows = [l.split(sep) for l in lines[1:-1]]
    promised = list(range(1, n + 1))
    extra = []

    def cell(c):                                        # a cell that contains the separator (or is to be written quoted) is quoted
        return '"%s"' % c if (sep in c or (quoted and c == '')) else c
    if sep in blank:
        blank = ' ' if sep != ' ' else '\t'
    out = [[c for c in row] for row in rows]
    ins = None
    if where == 'odd-date-empty':
        out[k - 1][0] = ''
    elif where == 'odd-date-blank':
        out[k - 1][0] = blank
    elif where == 'odd-date-text':
        out[k - 1][0] = odd_date
    elif where == 'odd-amount':
        out[k - 1][2] = odd_amount
        promised.remove(k)
    elif where == 'odd-item':
        out[k - 1][1] = '' if item_empty else blank
    elif where == 'odd-extra-row':                      # a pending order: no date yet (or an odd one); its amount is a real amount
        ins = (at, ['' if empty_date_row else odd_date, 'Garden hose (pending)', '310.00'])
        extra = [31000]
    elif where == 'odd-short-row':                      # fewer cells than columns: the row has no amount field at all
        ins = (at, short)
        if any(c.strip() for c in short):               # (a line of blank cells only is skipped like a blank line)
            promised = list(range(1, at))               # the query raises on that row: only rows before it are sure to answer
    elif where == 'odd-blank-cells-row':                # `,,` / ` , , `: skipped like a blank line
        ins = (at, ['', blank, ''] if empty_date_row else ['', '', ''])
    elif where == 'odd-long-row':                       # surplus cells
        ins = (at, ['2025-03-02', 'Tape', '3.33', 'gift wrap', '', 'x'])
        extra = [333]
    elif where == 'odd-every-date':                     # no row has a usable date (the export writes dates in another shape)
        for row in out:
            row[0] = odd_date if empty_date_row else ''
    if ins is not None:
        out.insert(ins[0] - 1, ins[1])
    return '\n'.join([lines[0]] + [sep.join(cell(c) for c in row) for row in out]) + '\n', promised, extra


# ---- file names as statement exports really carry them ---------------------------------------------------
# `file:` is a LITERAL path relative to the budget directory (cmd_run / load_supplemental_sources: os.path.join + normpath +
# os.path.exists).  Banks and browsers produce names with spaces, brackets, parentheses, '#', '&', quotes, '+', ',', '%', '~',
# non-ASCII letters, leading dots and dashes, characters that mean something to a shell / glob / format string / YAML, upper and
# lower case, and users sort them into sub-directories.
NAME_DIRS = ['data', 'data', 'data', 'data/2025', 'data/2025/Q1', 'data/Bank & Co', 'data/Card [4321]', 'Statements (2025)', "data/Joe's",
             'data/.archive', 'data/-old', 'data/Q1+Q2', 'data/100%', 'data/~backup', 'data/Übersicht', 'data/明細', 'data/a/b/c',
             'DATA', 'Data', 'data/#1', 'data/x,y', 'exports/*new*', 'data/what?', 'data/[2025]', '', './data', 'data/.', 'data//raw',
             'data/{a,b}', 'data/$HOME', 'data/two  spaces']
NAME_STEMS = ['checking', 'Card [4321]', 'Chase1234_Activity20250101_20250331_20250405', 'Transactions (1)', 'activity #2', 'AT&T',
              "Joe's card", 'a+b', 'a,b', '50% off', '~export', 'Umsätze März', '明細', '.hidden', '-dash', '--help', 'stmt *',
              'stmt ?', '[abc]', 'x[!a]y', '[]]', '[', 'a]b[c', '[a-z]', 'file{1,2}', 'UPPER', 'MiXeD', ' leading', 'trailing ', 'two  spaces',
              'dots..in.name', 'Export 2025-01-01 — 2025-03-31', 'café', 'café', '$HOME', '%TEMP%', '%s', '{date}', 'a;b', 'a=b',
              'a@b', 'a!b', 'a:b', '"quoted"', '#', '*', '?', '**', 'null', 'yes', '2025', '1e3', '~']
NAME_EXTS = ['.csv', '.csv', '.csv', '.CSV', '.Csv', '.txt', '', '.csv.txt', '.tsv', '.csv ', '.2025']
GLOB_CHARS = set('*?[]')


def _norm(p):
    return os.path.normpath(p)


def _name_free(p, taken):
    """`p` names a file of its own: no other file at the same (normalised, case-sensitive) path, none of the two is a directory
    of the other, and it stays inside the budget directory and out of config/"""
    q = _norm(p)
    if q.startswith('..') or q.startswith('/') or q == '.' or q.split('/')[0] == 'config':
        return False
    for t in taken:
        t = _norm(t)
        if t == q or t.startswith(q + '/') or q.startswith(t + '/'):
            return False
    return True


def gen_file_name(r, tag, taken):
    """a file name for one more source: 40 % the plain identifier the first version of this generator used, 20 % a SIBLING of a name
    already taken (same letters in other case, or the name that results from reading the other one as a pattern / writing a
    character of it as a pattern: `s1.csv` next to `s?.csv`, `s*.csv`, `s[1].csv`), else directory × stem × extension from the
    lists above.  Every name is distinct from the others as a literal path, so each source has a file of its own."""
    plain = f'data/{tag}.csv'
    u = r.random()
    d, stem, ext = r.choice(NAME_DIRS), r.choice(NAME_STEMS), r.choice(NAME_EXTS)
    numbered = r.random() < 0.4
    how = r.choice(['case', 'qmark', 'star', 'class', 'ext-case', 'copy'])
    pos = r.random()
    base = r.choice(sorted(taken)) if taken else None
    cands = []
    if u < 0.40:
        cands.append(plain)
    elif u < 0.60 and base is not None:
        head, tail = os.path.split(base)
        i = int(pos * len(tail)) if tail else 0
        if how == 'case':
            sib = tail.swapcase()
        elif how == 'qmark':
            sib = tail[:i] + '?' + tail[i + 1:]
        elif how == 'star':
            sib = tail[:i] + '*' + tail[min(len(tail), i + 1 + int(pos * 3)):]
        elif how == 'class':
            sib = tail[:i] + '[' + tail[i:i + 1] + ']' + tail[i + 1:]
        elif how == 'ext-case':
            root, e = os.path.splitext(tail)
            sib = root + (e.upper() if e != e.upper() else e.lower())
        else:
            root, e = os.path.splitext(tail)
            sib = root + ' (1)' + e
        cands.append(os.path.join(head, sib) if head else sib)
    name = stem + (f' {tag}' if numbered else '') + ext
    cands.append(d + '/' + name if d else name)
    cands.append((d + '/' if d else '') + f'{tag} ' + name)
    cands.append(plain)
    cands.append(f'data/{tag}-{len(taken)}.csv')
    for c in cands:
        if _name_free(c, taken):
            return c
    raise AssertionError('no free file name')


def name_classes(p):
    out = []
    b = os.path.basename(p)
    if GLOB_CHARS & set(p):
        out.append('glob-metacharacter')
    if ' ' in p:
        out.append('space')
    if any(ord(c) > 127 for c in p):
        out.append('non-ascii')
    if set('()#&\'+,%~$;=@!{}":') & set(p):
        out.append('punctuation')
    if b[:1] in '.-':
        out.append('leading-dot-or-dash')
    if _norm(p).count('/') >= 2 or (_norm(p).count('/') == 1 and not _norm(p).startswith('data/')):
        out.append('nested-or-other-directory')
    if _norm(p) != p:
        out.append('unnormalised-path')
    if b != b.lower():
        out.append('upper-case')
    return out or ['plain']


# ---- the `delimiter:` setting, in every spelling the code accepts ---------------------------------------------
# config_loader.resolve_source_format copies the YAML value verbatim into FormatSpec.delimiter; parsers._iter_rows_with_delimiter
# reads: absent / null -> comma, the WORD `tab` -> tab, ANY ONE character -> that character (nothing is trimmed or looked up: a real
# tab from `"\t"`, a blank `" "`, U+001F, NBSP, EM SPACE are delimiters like `;` and `|`), `regex:PATTERN` -> line reader
# (`re.compile(PATTERN).match(line.strip())`, groups = cells).  load_supplemental_sources: absent -> comma, `tab`, any one character.
# (Established on the unchanged code, notes/C05_notes.md round 3 and notes/C11_notes.md round 4.)  Spelling -> separator written.
DELIM_SPELLINGS = [(None, ','), (None, ','), (None, ','), (None, ','), (None, ','), (',', ','), (';', ';'), (';', ';'), ('tab', '\t'), ('tab', '\t'), ('\t', '\t'), ('\t', '\t'),
                   (' ', ' '), (' ', ' '), ('|', '|'), (':', ':'), ('^', '^'), ('~', '~'), ('!', '!'), ('/', '/'), ('=', '='), ('\x1f', '\x1f'),
                   ('\x0c', '\x0c'), ('\xa0', '\xa0'), ('\u2003', '\u2003'), ('regex', None), ('regex', None)]
SUPP_DELIM_SPELLINGS = [d for d in DELIM_SPELLINGS if d[0] != 'regex']
WHITE = ('\t', ' ', '\x1f', '\x0c', '\xa0', '\u2003')


def delimiter_class(d):
    if d is None:
        return 'absent'
    if d == 'tab':
        return 'word-tab'
    if d.startswith('regex:'):
        return 'regex-ending-in-a-blank' if d.endswith(' ') else 'regex'
    return {'\t': 'real-tab', ' ': 'blank', ',': 'comma-written'}.get(d, 'other-white-space-character' if d in WHITE else 'other-single-character')


def regex_delimiter(r, ncols):
    """a `regex:` delimiter for `ncols` cells and the way a line is written for it: (setting, line writer).  Two shapes: cells
    separated by ` | ` (blanks optional in the pattern; the line is stripped before matching), and cells separated by `|` with a
    trailing ` #end` note that the pattern cuts off by ENDING in a significant blank."""
    if r.random() < 0.5:
        return 'regex:^' + '\\s*\\|\\s*'.join(['(.*?)'] * ncols) + '$', lambda cells: ' | '.join(cells)
    return 'regex:^' + '\\|'.join(['(.*?)'] * (ncols - 1) + ['(.*)']) + ' ', lambda cells: '|'.join(cells) + ' #end'


def gen_source(r, i, year):
    eu = r.random() < 0.3
    delim, sep = r.choice(DELIM_SPELLINGS)
    if eu and sep == ',':
        delim, sep = ';', ';'
    header = r.random() < 0.7
    sign = r.choice(['', '', '-', '+'])
    datefmt = r.choice(['%Y-%m-%d', '%m/%d/%Y', '%d.%m.%Y'])
    with_type = r.random() < 0.35
    cols = ['date', 'description', 'amount'] + (['type'] if with_type else [])
    if r.random() < 0.4:
        cols.insert(r.randint(0, len(cols)), '_')
    r.shuffle(cols) if r.random() < 0.3 else None
    if delim == 'regex':
        delim, join = regex_delimiter(r, len(cols))
    else:
        def join(cells):
            return sep.join('"%s"' % c if (sep in c) else c for c in cells)
    fmt_parts = []
    for c in cols:
        if c == 'date':
            fmt_parts.append('{date:%s}' % datefmt)
        elif c == 'amount':
            fmt_parts.append('{%samount}' % sign)
        elif c == 'description':
            fmt_parts.append('{merchant}' if with_type else '{description}')
        else:
            fmt_parts.append('{%s}' % c)
    src = {'name': f'Src{i}', 'file': f'data/s{i}.csv', 'format': ','.join(fmt_parts)}
    if with_type:
        src['columns'] = {'description': '{merchant} ({type})'}
    if delim:
        src['delimiter'] = delim
    if not header or r.random() < 0.3:
        src['has_header'] = header
    if eu:
        src['decimal_separator'] = ','
    rows = []
    expected = []
    for _ in range(r.choice([2, 3, 5, 8])):
        d = datetime.date(year, r.choice([1, 1, 2, 3, 12]), r.randint(1, 28))
        cents = r.choice([1599, 10000, 250, -2050, 50000, -200000, 100, 4200, r.randint(-90000, 90000)])
        row = {'date': d.strftime(datefmt), 'description': r.choice(DESCS), 'amount': fmt_amount(r, cents, eu), 'type': r.choice(['ACH', 'card', '']),
               '_': r.choice(['x', '', '123'])}
        ok = cents != 0
        if r.random() < 0.08:
            row['amount'] = r.choice(['', 'n/a', '0.00'])
            ok = False
        if r.random() < 0.05:
            row['date'] = 'soon'
            ok = False
        if ok:
            final = {'': cents, '-': -cents, '+': abs(cents)}[sign]
            expected.append({'cents': final, 'description': row['description']})
        rows.append([row[c] for c in cols])
    lines = []
    if header:
        lines.append(join([c.upper() for c in cols]))
    for row in rows:
        lines.append(join(row))
    return src, '\n'.join(lines) + '\n', expected


def gen_budget(r, focus=None):
    """`focus='damaged-supplemental'`: the same budget stream, but the supplemental source, the rule that queries it and a file
    damaged in one place are certain (the quick tier would otherwise see the combination in ~3 of 80 budgets)"""
    year = 2025
    n = r.choice([1, 2, 2, 3, 4])
    files, sources = {}, []
    expect = []
    states = []
    taken = []
    for i in range(n):
        src, text, exp = gen_source(r, i, year)
        src['file'] = gen_file_name(r, f's{i}', taken)
        taken.append(src['file'])
        sources.append(src)
        # the file: present (with or without a UTF-8 signature) / missing / there but unreadable or hollow
        state = r.random()
        fk = r.choice(FAULTS)
        entry = fault_entry(r, fk, text, header=src.get('has_header', True))
        # EXCLUSION (finding F11-bom, notes): a UTF-8 signature is only put on files that have a header line
        bom = r.random() < 0.15 and src.get('has_header', True)
        if state < 0.78:
            files[src['file']] = fault_entry(r, 'bom', text) if bom else text
            expect.extend(exp)
            states.append('bom' if bom else 'ok')
        elif state < 0.88:
            states.append('missing')
        else:
            files[src['file']] = entry
            states.append(fk)
    supp = r.random() < 0.4 or focus in ('damaged-supplemental', 'odd-cell-supplemental')
    # the supplemental file is written with the delimiter ITS source declares (any spelling the supplemental loader accepts)
    sdelim, ssep = r.choice(SUPP_DELIM_SPELLINGS)
    ORDERS = 'date,item,amount\n2025-01-05,Book,15.99\n2025-01-06,Pen,100.00\n2025-02-01,Ink,2.50\n'.replace(',', ssep)
    ORDER_CENTS = [1599, 10000, 250]            # the amounts of data rows 1, 2, 3
    supp_state = 'ok'
    touched = None                              # data rows of the orders file whose own bytes are damaged (None: nothing is promised)
    extra_cents = []                            # amounts of rows ADDED to the orders file (they may answer the query as well)
    ofile = gen_file_name(r, 'orders', taken)
    if r.random() < 0.5:
        ofile = 'data/orders.csv'
    fk = r.choice(FAULTS + ['missing', 'bom'])
    entry = fault_entry(r, fk, ORDERS)
    pk = r.choice(PARTIAL)
    pentry, ptouched = damage_entry(r, ORDERS, pk, ssep)
    ok_ = r.choice(ODD)
    oentry, opromised, oextra = odd_entry(r, ORDERS, ok_, ssep)
    u = r.random()
    if supp:
        taken.append(ofile)
        osrc = {'name': 'orders', 'file': ofile, 'format': '{date:%Y-%m-%d},{item},{amount}', 'columns': {'description': '{item}'}, 'supplemental': True}
        if sdelim is not None:
            osrc['delimiter'] = sdelim
        sources.insert(r.randint(0, len(sources)), osrc)
        files[ofile] = ORDERS
        touched = []
        if focus == 'odd-cell-supplemental' or (u < 0.2 and focus is None):
            supp_state, touched, extra_cents = ok_, [k for k in (1, 2, 3) if k not in opromised], oextra
            files[ofile] = oentry
        elif u < 0.4 or focus == 'damaged-supplemental':
            supp_state, touched = pk, ptouched
            files[ofile] = pentry
        elif u < 0.6:
            supp_state, touched = fk, None
            if fk == 'missing':
                del files[ofile]
            else:
                files[ofile] = entry
            if fk == 'bom':
                touched = []
    states.append('supplemental:' + supp_state if supp else 'no-supplemental')
    # pre-drawn extra source for the neutrality oracle: an ordinary source whose file contributes nothing, or a supplemental source
    # that no rule queries (any content): adding it must not move a single figure
    gsupp = r.random() < 0.5
    gkind = r.choice(FAULTS + (['bom', 'valid'] if gsupp else []))
    ghost = {'supplemental': gsupp, 'kind': gkind, 'pos': r.randint(0, len(sources)),
             'entry': fault_entry(r, gkind, 'Date,What,Amount\n2025-01-09,GHOST CAFE,12.00\n2025-02-10,GHOST RENT,900.00\n')}
    # their file names: as for every source (a MISSING file whose name reads as a pattern must stay missing)
    ghost['file'] = gen_file_name(r, 'ledger', taken)
    ghost['missing_file'] = gen_file_name(r, 'ghost', taken + [ghost['file']])
    txn = GR.gen_txn(r)
    txn['description'] = r.choice(DESCS)
    kind = r.choice(['rules', 'rules', 'rules', 'none', 'csv'])
    if focus is not None:
        kind = 'rules'
    settings = {'year': year, 'data_sources': sources}
    probe = None
    if kind == 'rules':
        f = GR.gen_rules_file(r, txn)
        if supp and (r.random() < 0.7 or focus is not None):
            f['rules'].insert(0, {'name': 'Ordered', 'match': 'any(r.amount == amount for r in orders)', 'category': 'Orders',
                                  'tags': ['{next((r.item for r in orders if r.amount == amount), "")}']})
            f['transforms'] = []
            # with the orders file unreadable AS A WHOLE the rule may or may not see rows (the loader may skip the file or decode it
            # leniently): only the ordinary sources' transactions and amounts are required then.  With the file damaged in ONE place
            # every row whose own bytes are intact must still be there for the rule: at least the transactions that equal an intact
            # row's amount are `Ordered`, at most those that equal any row's amount (a damaged row may be kept or dropped).
            # The same holds for a file with ONE ODD CELL or ONE ODD ROW (empty / blank / textual date, amount that is no number, a row
            # with fewer or more cells): the rule still answers for every OTHER row.
            if touched is not None:
                intact = [c for k, c in enumerate(ORDER_CENTS, 1) if k not in touched]
                probe = ('Ordered', sum(1 for e in expect if e['cents'] in intact), sum(1 for e in expect if e['cents'] in ORDER_CENTS + extra_cents))
        elif r.random() < 0.4:
            f['transforms'] = [('field.description', 'regex_replace(field.description, "^UBER\\\\s+", "")')]
            f['rules'].insert(0, {'name': 'Probe', 'match': 'startswith("EATS")', 'category': 'Probe'})
            want = sum(1 for e in expect if e['description'] == 'UBER EATS 123')
            probe = ('Probe', want, want)
        files['config/merchants.rules'] = GR.render_rules(f)
        settings['merchants_file'] = 'config/merchants.rules'
    elif kind == 'csv':
        files['config/merchant_categories.csv'] = GR.render_csv_rules(GR.gen_csv_rules(r, txn))
    mode = r.choice(['first_match', 'first_match', 'most_specific'])
    if focus is not None:
        mode = 'first_match'
    if mode != 'first_match' or r.random() < 0.2:
        settings['rule_mode'] = mode
    if r.random() < 0.3:
        files['config/views.rules'] = '[Big]\nfilter: total > 100\n\n[Recurring]\nfilter: months >= 2\n'
        settings['views_file'] = 'config/views.rules'
    import yaml
    files['config/settings.yaml'] = yaml.safe_dump(settings, sort_keys=False)
    assert yaml.safe_load(files['config/settings.yaml']) == settings, 'harness: the settings file does not load back as written'
    return {'files': files, 'kind': kind, 'states': states, 'ghost': ghost, 'expect': {'count': len(expect), 'sum_cents': sum(e['cents'] for e in expect),
                                                       'probe': probe if mode == 'first_match' else None, 'rows': expect}}


# ---- legacy stream: budgets whose rules are a merchant_categories.csv written to meet the statement lines the sources carry -----------
LEGACY_PLAIN = ['UBER', 'uber', 'Trader Joes', 'NETFLIX\\.COM', '^AMAZON', 'COSTCO WHSE #\\d+', 'STARBUCKS.*SEATTLE', 'LYFT(?!.*ZZZ)', 'TARGET \\d\\d$',
                'SHELL|ACME', 'TRANSFER', 'S', '', '(?-i:uber)', '(?-i:UBER)', '(?-i:Target)']
LEGACY_MODS = ['[amount>15.99]', '[amount>=15.99]', '[amount=15.99]', '[amount=100]', '[amount:2.5-100]', '[amount<0]', '[amount<=-20.5]',
               '[amount>100]', '[amount>42]', '[month=1]', '[month=12]', '[date:2025-01-01..2025-01-31]', '[date=2025-01-15]', '[date:last30days]',
               '[date:last9999days]', '[amount>1][month=1]', '[amount:0-500][date:2025-01-01..2025-06-30]', '[amount>abc]', '[month=13]']
LEGACY_EXPR = ['amount > 100', 'amount<0', 'month == 12', 'contains("UBER") and amount > 10', 'startswith("NETFLIX")', 'source == "Src0"',
               'field.type == "ACH"', 'description == "SHELL OIL"', '(amount > 400)', 'regex("UBER|LYFT")', 'day>14', 'year==2025',
               'contains("JOES") or contains("LYFT")', 'exists(field.type) and amount > 0', 'amount > "x"', 'contains(']
LEGACY_FALLBACK = ['(UBER|LYFT)', 'TRADER and JOES', 'LYFT or UBER', '(SHELL)', 'TRANSFER and SAVINGS', '(COSTCO)[amount>20]', 'field.UBER', 'amount>.*']
LEGACY_BAD = ['UBER(', '[A-', '*COSTCO', 'NETFLIX(?P<x']
LEGACY_SUPP = ['(any(r.amount == amount for r in orders))', 'any(r.item == "Book" for r in orders) and amount > 50', '(len(orders) == 3)']
LEGACY_TAGS = ['', '', 'business', 'business|Travel', 'Business|business', '{field.type}', '{source}', '{description}', '{amount > 100}', '{month}',
               ' spaced | x ', '{}', '{orders}', '{""}', '{ field.type }|fixed', '{extract(description, "(\\d+)")}', 'income', 'transfer', '{1/0}',
               '{len(orders)}', '{next((r.item for r in orders if r.amount == amount), "none")}', '{" Padded "}', '{"  "}', '{0}', '{0.0}']


def gen_legacy_budget(r):
    """a budget of the ordinary stream whose rules are replaced by a legacy CSV file: plain regular expressions (case, anchors,
    look-ahead, alternation, the empty pattern), every modifier form with thresholds / dates ON the values the sources carry,
    patterns that are expressions (evaluated, some over the supplemental rows), patterns that only look like expressions (regex
    after all), patterns `re` rejects, static / dynamic / blank / duplicate tags, tag-only rows, repeated Pattern cells"""
    import yaml
    b = gen_budget(r)
    st = yaml.safe_load(b['files']['config/settings.yaml'])
    st.pop('merchants_file', None)
    b['files'].pop('config/merchants.rules', None)
    supp = any(s.get('supplemental') for s in st['data_sources'])
    rows = []
    for i in range(r.choice([2, 3, 4, 5, 7])):
        k = r.random()
        if k < 0.45:
            pat = r.choice(LEGACY_PLAIN) + (r.choice(LEGACY_MODS) if r.random() < 0.6 else '')
        elif k < 0.7:
            pat = r.choice(LEGACY_EXPR)
        elif k < 0.85:
            pat = r.choice(LEGACY_FALLBACK)
        elif k < 0.92:
            pat = r.choice(LEGACY_BAD)
        else:
            pat = r.choice(LEGACY_SUPP if supp else LEGACY_EXPR)
        if rows and r.random() < 0.1:
            pat = r.choice(rows)[0]
        tags = r.choice(LEGACY_TAGS)
        tag_only = r.random() < 0.2
        if tag_only and not tags:
            tags = 'misc'
        cat = r.choice(GR.CATS)
        rows.append((pat, f'L{i}', '' if tag_only else cat[0], '' if tag_only else cat[1], tags))
    b['files']['config/merchant_categories.csv'] = GR.render_csv_rules(rows)
    b['files']['config/settings.yaml'] = yaml.safe_dump(st, sort_keys=False)
    b['kind'] = 'csv'
    b['stream'] = 'legacy'
    b['expect'] = dict(b['expect'], probe=None)
    return b


# ---- tagged stream: which rule rows match which statement lines, and which tags they carry, is GENERATOR TRUTH -------------------
# The rules (a legacy merchant_categories.csv or a merchants.rules, drawn alike) are rows `keyword [amount > 100] → merchant, category,
# tags`: a row matches a statement line iff the keyword occurs in its description (letters compared without case) and, when the row has
# the amount condition, the amount exceeds 100.  Tags are what the rule file exists for beyond the category: a transaction carries
# the (lower-cased) tags of EVERY row that matches it; `income` / `investment` / `transfer` decide which figure of the report its amount
# lands in; a view whose filter is `"t" in tags` selects the merchants that carry t.  None of this is computed with tally's code.
TAG_KEYWORDS = ['UBER', 'EATS', 'NETFLIX', 'AMAZON', 'COSTCO', 'STARBUCKS', 'ACME PAYROLL', 'TRANSFER', 'SAVINGS', 'SHELL', 'TRADER',
                'LYFT', 'TARGET', 'TRIP', 'OIL', 'Uber', 'netflix', 'Payroll']
TAG_SPECIAL = ['income', 'transfer', 'investment', 'Income', 'TRANSFER', 'Investment']
TAG_PLAIN = ['food', 'Business', 'essentials', 'recurring', 'x y', 'Travel', 'tax-2025']
SPECIAL = ('income', 'investment', 'transfer')


def tag_truth(rows, lines, per_merchant=True):
    """generator truth for a tagged budget: `rows` = the rule rows in file order, `lines` = the well-formed statement lines
    ({'description', 'cents'}).  Returns the figures of the report that tags govern (in cents) and, per rule merchant, count /
    tags / category / total; plus, per tag, the merchants named by a rule that carry it and those that carry it and no special tag."""
    fig = {k: 0 for k in ('income', 'investment', 'transfers_in', 'transfers_out', 'spending', 'credits')}
    merchants, unnamed_tagged = {}, 0
    for ln in lines:
        hit = [w for w in rows if w['keyword'].upper() in ln['description'].upper() and (not w['over_100'] or ln['cents'] > 10000)]
        tags = sorted({t.lower() for w in hit for t in w['tags']})
        c = ln['cents']
        if 'income' in tags:
            fig['income'] += abs(c)
        elif 'investment' in tags:
            fig['investment'] += abs(c)
        elif 'transfer' in tags:
            fig['transfers_in' if c > 0 else 'transfers_out'] += abs(c)
        else:
            fig['spending' if c > 0 else 'credits'] += abs(c)
        first = next((w for w in hit if w['category']), None)
        if first is None:
            unnamed_tagged += bool(tags)
            continue
        m = merchants.setdefault(first['merchant'], {'category': first['category'], 'subcategory': first['subcategory'], 'count': 0,
                                                     'tags': set(), 'cents': 0})
        m['count'] += 1
        m['tags'].update(tags)
        m['cents'] += abs(c) if ('income' in tags or 'investment' in tags) else c
    for m in merchants.values():
        m['tags'] = sorted(m['tags'])
    return {'figures_cents': fig, 'merchants': merchants, 'lines_tagged_but_uncategorised': unnamed_tagged}


def gen_tagged_budget(r, kind=None):
    """a budget of the ordinary stream (sources, settings, file names and file states as there) whose rules are 3–7 keyword rows with
    tags, written EITHER as a legacy merchant_categories.csv (Tags column, `|`-separated, `[amount>100]` modifier) OR as a
    merchants.rules (`tags:` line, `contains("…") and amount > 100`), and a views file with one `"t" in tags` view per plain tag.
    At least one row with a special tag and one with a plain tag hit a statement line the sources carry."""
    import yaml
    for _ in range(40):
        b = gen_budget(r)
        lines = b['expect']['rows']
        if len(lines) >= 2:
            break
    st = yaml.safe_load(b['files']['config/settings.yaml'])
    for k in ('config/merchants.rules', 'config/merchant_categories.csv'):
        b['files'].pop(k, None)
    st.pop('merchants_file', None)
    kind = kind or r.choice(['csv', 'rules'])
    present = [k for k in TAG_KEYWORDS if any(k.upper() in ln['description'].upper() for ln in lines)] or TAG_KEYWORDS
    rows = []
    n = r.choice([3, 4, 5, 7])
    for i in range(n):
        kw = r.choice(present) if (i < 2 or r.random() < 0.7) else r.choice(TAG_KEYWORDS)
        tag_only = i >= 2 and r.random() < 0.25
        cat = r.choice(GR.CATS)
        if i == 0:
            tags = [r.choice(TAG_SPECIAL)] + r.sample(TAG_PLAIN, r.choice([0, 0, 1]))
        elif i == 1:
            tags = r.sample(TAG_PLAIN, r.choice([1, 2]))
        else:
            tags = r.sample(TAG_PLAIN, r.choice([0, 1, 2])) + ([r.choice(TAG_SPECIAL)] if r.random() < 0.3 else [])
        if tag_only and not tags:
            tags = [r.choice(TAG_PLAIN)]
        r.shuffle(tags)
        rows.append({'keyword': kw, 'over_100': i >= 2 and r.random() < 0.25, 'merchant': f'M{i} {kw.title()}',
                     'category': '' if tag_only else cat[0], 'subcategory': '' if tag_only else cat[1], 'tags': tags})
    r.shuffle(rows)
    if kind == 'csv':
        b['files']['config/merchant_categories.csv'] = GR.render_csv_rules(
            [(w['keyword'] + ('[amount>100]' if w['over_100'] else ''), w['merchant'], w['category'], w['subcategory'], '|'.join(w['tags'])) for w in rows])
    else:
        b['files']['config/merchants.rules'] = GR.render_rules({'variables': {}, 'transforms': [], 'rules': [
            dict({'name': w['merchant'], 'match': 'contains("%s")' % w['keyword'] + (' and amount > 100' if w['over_100'] else '')},
                 **({'category': w['category'], 'subcategory': w['subcategory']} if w['category'] else {}),
                 **({'tags': w['tags']} if w['tags'] else {})) for w in rows]})
        st['merchants_file'] = 'config/merchants.rules'
    # rule_mode: the legacy file has no modes; for a .rules file the per-merchant truth below is the first-match reading
    mode = r.choice(['first_match', 'first_match', 'first_match', 'most_specific'])
    st.pop('rule_mode', None)
    if mode != 'first_match' or r.random() < 0.2:
        st['rule_mode'] = mode
    plain = sorted({t.lower() for w in rows for t in w['tags']} - set(SPECIAL))
    views = plain[:] if plain else []
    if views:
        b['files']['config/views.rules'] = ''.join('[Tagged %s]\nfilter: "%s" in tags\n\n' % (t, t if r.random() < 0.7 else t.upper()) for t in views)
        st['views_file'] = 'config/views.rules'
    else:
        b['files'].pop('config/views.rules', None)
        st.pop('views_file', None)
    b['files']['config/settings.yaml'] = yaml.safe_dump(st, sort_keys=False)
    truth = tag_truth(rows, lines)
    b['kind'] = kind
    b['stream'] = 'tagged'
    b['expect'] = dict(b['expect'], probe=None)
    b['tagged'] = {'rows': rows, 'views': views, 'per_merchant': kind == 'csv' or mode == 'first_match', 'truth': truth}
    return b


def gen_transform_budget(r):
    """a `.rules` budget WITH a supplemental source whose field transform names that source: `apply_transforms` evaluates transforms
    on the transaction alone (no supplemental rows), so the transform raises, is skipped, and the description stays what it was"""
    import yaml
    b = gen_budget(r)
    st = yaml.safe_load(b['files']['config/settings.yaml'])
    b['files'].pop('config/merchant_categories.csv', None)
    if not any(s_.get('supplemental') for s_ in st['data_sources']):
        st['data_sources'].insert(r.randint(0, len(st['data_sources'])),
                                  {'name': 'orders', 'file': 'data/orders.csv', 'format': '{date:%Y-%m-%d},{item},{amount}',
                                   'columns': {'description': '{item}'}, 'supplemental': True})
        b['files']['data/orders.csv'] = 'date,item,amount\n2025-01-05,Book,15.99\n2025-01-06,Pen,100.00\n2025-02-01,Ink,2.50\n'
    tr = r.choice(['len(orders)', 'regex_replace(field.description, "^UBER", next((r.item for r in orders), "none"))',
                   'next((r.item for r in orders if r.amount == amount), field.description)'])
    rules = [{'name': 'SeesOrders', 'match': r.choice(['startswith("3")', 'contains("Book") or contains("Pen") or startswith("3")']), 'category': 'Leak'},
             {'name': 'Uber', 'match': 'startswith("UBER")', 'category': 'Transport', 'tags': ['{len(orders)}']},
             {'name': 'Ordered', 'match': 'any(r.amount == amount for r in orders)', 'category': 'Orders'}]
    r.shuffle(rules)
    b['files']['config/merchants.rules'] = GR.render_rules({'variables': {}, 'transforms': [('field.description', tr)], 'rules': rules})
    st['merchants_file'] = 'config/merchants.rules'
    b['files']['config/settings.yaml'] = yaml.safe_dump(st, sort_keys=False)
    b['kind'] = 'rules'
    b['stream'] = 'transform-names-supplemental'
    b['expect'] = dict(b['expect'], probe=None)
    return b


def shape_patterns(r, quick):
    """Pattern cells for `_is_expression_pattern`: every keyword of its two regular expressions and near misses × what may stand
    between the keyword and the next character (nothing, ASCII / Unicode white space, things that are not white space) × next
    characters; the substring and prefix clauses; the cells of the legacy stream"""
    words = ['contains', 'normalized', 'anyof', 'startswith', 'fuzzy', 'regex', 'extract', 'split', 'substring', 'trim', 'exists',
             'amount', 'month', 'year', 'day', 'source', 'description',
             'contain', 'containsx', 'Contains', 'amounts', 'AMOUNT', 'days', 'date', 'field', 'weekday', 'sub', 'trimmed', '']
    gaps = ['', ' ', '  ', '\t', '\n', '\r\n', '\x0b', '\x1c', '\x1f', '\x85', '\xa0', '\u1680', '\u2003', '\u2028', '\u202f', '\u3000',
            '\u200b', '\ufeff', '\x00', '_', '.']
    nexts = ['(', '<', '>', '=', '!', '<=', '!=', '', 'a', '[', ')', '~', ' (']
    out = [w + g + n + tail for w in words for g in gaps for n in nexts for tail in ('', 'x")')]
    out += [lead + w + '(' for w in words[:17] for lead in (' ', '\n', '^', 'x')]
    out += ['field.', 'field.x', 'field', 'fields.x', ' field.x', 'Field.x', 'a and b', 'a  and b', 'aand b', 'a and', ' and ', 'and', 'a\tand\tb',
            'a or b', ' or ', 'or', 'a or', 'a\nor b', 'A AND B', 'A OR B', '(', '(x', ' (x', 'x(', ')', '',
            # a parenthesised literal or name is a regex group, anything more is an expression (D1b)
            '(123)', '(1)', '(source)', '("x")', "('x')", '(true)', '(None)', '(-1)', '(1.5)', '( 1 )', '(x)', '(UBER)', '(amount)', '((1))',
            '(1)x', '(a.b)', '(1,)', '(1j)', '(...)', '(b"x")', '(f"x")', '(1)(2)', '(UBER|LYFT)', '(amount > 5)', '(not x)', '(x)\n', '(x) ',
            '(123)\t', '(1 )', '(0x1f)', '(1_000)', '(١)', '(é)', '(x y)', '(x)y', '()', '(())', '(x:=1)', '(yield)', '(await x)', '(*x)']
    out += LEGACY_PLAIN + LEGACY_EXPR + LEGACY_FALLBACK + LEGACY_BAD + LEGACY_SUPP
    alphabet = ['contains', 'amount', 'day', 'field.', ' and ', ' or ', '(', ' ', '\t', '\xa0', '<', '=', '!', 'x', 'and', 'or', '\n']
    for _ in range(300 if quick else 20000):
        out.append(''.join(r.choice(alphabet) for _ in range(r.randint(1, 5))))
    return out


def write_budget(d, budget):
    for rel, text in budget['files'].items():
        p = os.path.join(d, rel)
        os.makedirs(os.path.dirname(p), exist_ok=True)
        if isinstance(text, dict):
            if text.get('dir'):
                os.makedirs(p, exist_ok=True)
                continue
            if 'hex' in text:
                with open(p, 'wb') as f:
                    f.write(bytes.fromhex(text['hex']))
                continue
            mode, text = text.get('mode'), text.get('text', '')
        else:
            mode = None
        with open(p, 'w', encoding='utf-8', newline='') as f:
            f.write(text)
        if mode is not None:
            os.chmod(p, mode)
    os.makedirs(os.path.join(d, 'data'), exist_ok=True)


def run_up(budget, extra=()):
    d = tempfile.mkdtemp(prefix='tvup_')
    try:
        write_budget(d, budget)
        env = dict(os.environ, PYTHONPATH=os.path.join(common.REPO, 'src'), NO_COLOR='1', PYTHONDONTWRITEBYTECODE='1')
        p = subprocess.run([sys.executable, '-m', 'tally', 'up', 'config', '--format', 'json', '-v', '-q'] + list(extra), cwd=d, env=env,
                           stdin=subprocess.DEVNULL, stdout=subprocess.PIPE, stderr=subprocess.PIPE, text=True, timeout=120)
        out = p.stdout
        if p.returncode != 0:
            return {'exit': p.returncode, 'stderr': p.stderr[-300:]}
        try:
            return {'json': json.loads(out[out.index('{'):])}
        except Exception:
            return {'exit': 0, 'unparsed': out[:300]}
    finally:
        shutil.rmtree(d, ignore_errors=True)


def impl_view(res):
    if 'json' not in res:
        return {'no_report': True}
    j = res['json']
    ms = {m['name']: {'category': m['category'], 'subcategory': m['subcategory'], 'tags': sorted(m['tags']), 'total': m['total'],
                      'count': m['count']} for m in j['merchants']}
    s = j['summary']
    return {'merchants': ms, 'income': s['income_total'], 'spending': s['spending_total'], 'credits': s['credits_total'],
            'transfers_in': s['transfers_in'], 'transfers_out': s['transfers_out'],
            'by_month': {k: v['total'] for k, v in j['by_month'].items()}}


def model_input(budget, with_settings=False):
    """Build the `pipeline` op from the budget using the implementation's own config loader and tokeniser
    (rows after tokenisation, as in C05); float()/strptime answers are filled by CPython on demand."""
    from tally import config_loader, parsers, merchant_engine as ME
    d = tempfile.mkdtemp(prefix='tvupm_')
    try:
        write_budget(d, budget)
        cfgdir = os.path.join(d, 'config')
        config = config_loader.load_config(cfgdir)
        supp = config_loader.load_supplemental_sources(config, cfgdir)
        sources = []
        for s in config['data_sources']:
            if s.get('_supplemental'):
                sources.append({'supplemental': True})
                continue
            fp = os.path.normpath(os.path.join(cfgdir, '..', s['file']))
            if not os.path.exists(fp):
                continue
            spec = s['_format_spec']
            try:
                # tokenised with the delimiter / header flag AS WRITTEN in the settings (not the fields of the FormatSpec the loader
                # made of them), so the hand-over resolve_source_format -> reader is on the implementation's side of the comparison
                rows = [list(x) for x in parsers._iter_rows_with_delimiter(fp, s.get('delimiter'), bool(s.get('has_header', True)))]
            except (OSError, UnicodeError):
                continue           # cmd_run: "Error parsing" → the source yields no transaction (Props.C11.unreadable_source_neutral)

            def pairs(dct):
                return None if dct is None else [[k, v] for k, v in dct.items()]
            js = {'date_col': spec.date_column, 'date_format': spec.date_format, 'amount_col': spec.amount_column,
                  'desc_col': spec.description_column, 'custom': pairs(spec.custom_captures), 'template': spec.description_template,
                  'extra': pairs(spec.extra_fields), 'loc_col': spec.location_column, 'source_name': spec.source_name,
                  'negate': bool(spec.negate_amount), 'abs': bool(spec.abs_amount)}
            src = {'supplemental': False, 'spec': js, 'cfg': {'eu': s.get('decimal_separator', '.') == ',', 'source': s.get('name', 'CSV'), 'fixed': True},
                   'rows': rows, 'floats': [], 'dates': [], '_fmt': spec.date_format}
            # the date cells are read by the MODEL of strptime (Model/Strptime, proved and tied in C05): no date oracle on the end-to-end path
            # either; `tables` = CPython's character tables for the non-ASCII characters of the date cells
            from . import strptime_corr
            if strptime_corr.supported_format(spec.date_format):
                src['strptime_model'] = True
                tb = strptime_corr.tables_for(spec.date_format, ''.join(r_[spec.date_column] for r_ in rows if len(r_) > spec.date_column))
                if tb:
                    src['tables'] = tb
            sources.append(src)
        mf = config.get('_merchants_file')
        rb = {'mode': config.get('rule_mode', 'first_match'), 'has_engine': False, 'variables': [], 'transforms': [], 'rules': []}
        if mf and mf.endswith('.rules'):
            eng = ME.load_merchants_file(__import__('pathlib').Path(mf), match_mode=rb['mode'])
            ec = exprs.engine_case(eng, {'description': '', 'amount': 0.0}, rb['mode'])
            rb.update(has_engine=True, variables=ec['variables'], rules=ec['rules'],
                      transforms=[[fp[6:], exprs.parse_or_none(e)] for fp, e in eng.transforms])
        elif mf:
            rb['legacy'] = legacy_book(mf, rb['mode'])     # merchant_categories.csv: the tuple loop (Pipeline.classifyLegacy)
            if rb['legacy'] is None:
                return None
        out = {'sources': sources, 'rulebook': rb, 'supp': [[k, exprs.val_json(v, True)] for k, v in supp.items()]}
        if with_settings:
            try:
                out['_from_settings'] = settings_case(cfgdir, config, rb, out['supp'])
            except CC.Unmodelled:
                out['_from_settings'] = None
        return out
    finally:
        shutil.rmtree(d, ignore_errors=True)


def settings_case(cfgdir, config, rb, supp_json):
    """The `pipeline` op STARTING AT THE SETTINGS OBJECT (PipelineCfg.upFromSettings): the object `load_settings` returns (yaml.safe_load is the
    trusted parser), what exists on disk at the paths the model may ask about, the TEXT of the statement files as `open(p, 'r',
    encoding='utf-8')` yields it (None: it raises) and, for `regex:` delimiters, what `pattern.match` returns line by line.  Which sources are
    parsed, with which format / delimiter / header / decimal / sign settings, under which rule mode and with which rules file is decided by the
    MODEL (Config.resolveConfig / planSources / readArgs); the rulebook shipped is the one the implementation's loader selected, and the model
    must select the same file."""
    import re
    from tally import config_loader
    loaded = config_loader.load_settings(cfgdir)
    budget_dir = os.path.dirname(cfgdir)
    cands, files, regex = set(), [], []
    cands.add(os.path.join(cfgdir, 'merchant_categories.csv'))
    srcs = loaded.get('data_sources') if isinstance(loaded, dict) else None
    for k in ('merchants_file', 'views_file'):
        if isinstance(loaded, dict) and isinstance(loaded.get(k), str):
            cands.add(os.path.join(budget_dir, loaded[k]))
    texts = {}
    for sdef in (srcs if isinstance(srcs, list) else []):
        if not (isinstance(sdef, dict) and isinstance(sdef.get('file'), str)):
            continue
        for p in (os.path.normpath(os.path.join(cfgdir, '..', sdef['file'])), os.path.join(budget_dir, sdef['file'])):
            cands.add(p)
            if p not in texts and os.path.exists(p):
                try:
                    with open(p, 'r', encoding='utf-8') as f:
                        texts[p] = f.read()
                except (OSError, UnicodeError):
                    texts[p] = None
            dl = sdef.get('delimiter')
            if isinstance(dl, str) and dl.startswith('regex:') and texts.get(p) is not None:
                entry = next((x for x in regex if x[0] == dl), None)
                if entry is None:
                    try:
                        re.compile(dl[6:])
                        entry = [dl, []]
                    except re.error:
                        entry = [dl, None]
                    regex.append(entry)
                if entry[1] is None:
                    continue
                pat = re.compile(dl[6:])
                for line in texts[p].split('\n'):          # (the same pattern may serve several files: one table per pattern, every line of every file)
                    st = line.strip()
                    if st and not any(x[0] == st for x in entry[1]):
                        m = pat.match(st)
                        entry[1].append([st, None if m is None else ['' if g is None else g for g in m.groups()]])
    vf = [os.path.join(budget_dir, loaded['views_file'])] if isinstance(loaded, dict) and isinstance(loaded.get('views_file'), str) else []
    return {'settings': CC.y_json(loaded), 'cfgdir': cfgdir, 'ext': CC.ext_of(loaded), 'quiet': True,
            'exists': [[p, os.path.exists(p)] for p in sorted(cands)], 'views_ok': [[p, CC.views_outcome(p)] for p in vf if os.path.exists(p)],
            'files': [[p, t] for p, t in sorted(texts.items())], 'regex': regex, 'floats': [], 'dates': [],
            'rulebook': rb, 'supp': supp_json, 'rulebook_from': {'path': config.get('_merchants_file'), 'format': config.get('_merchants_format')}}


def fill_settings_oracles(cases):
    """demand-driven float() / strptime tables for the settings-driven cases, via the `misses` of the `pipeline` op"""
    drv = common.Driver()
    for _ in range(8):
        todo = [c for c in cases if c is not None]
        if not todo:
            return
        outs = drv.batch([dict(c, op='pipeline', oracle=[]) for c in todo])
        progress = False
        for c, o in zip(todo, outs):
            for m in o.get('misses', []):
                if m[0] == 'float':
                    progress = True
                    try:
                        c['floats'].append([m[1], common.float_bits(float(m[1]))])
                    except ValueError:
                        c['floats'].append([m[1], None])
                elif m[0] == 'strptime':
                    progress = True
                    try:
                        c['dates'].append([m[1], m[2], datetime.datetime.strptime(m[2], m[1]).isoformat()])
                    except ValueError:
                        c['dates'].append([m[1], m[2], None])
                # 'file' / 'regex' / 'regexline': a question the harness did not foresee - left open, the case then disagrees (reported)
        if not progress:
            return


def legacy_book(path, mode):
    """The tuples `cmd_run` gets for a legacy CSV rule file (`get_all_rules`, the implementation's own loader and modifier
    parser), as the `legacy` part of the model's rulebook: pattern text + its reading by `parse_expression` (None: it raises
    ExpressionError), modifier thresholds as IEEE bit patterns (the model takes their exact value), tags as `_resolve_dynamic_tags`
    reads them, and `date.today() - n days` for the relative-date modifiers present.  None: a tuple the model does not cover
    (short CSV row → a None cell; a threshold that is not finite)."""
    import math
    from tally import merchant_utils as MU
    rules = MU.get_all_rules(path, match_mode=mode)
    MU.clear_engine_cache()
    out, cutoffs = [], []
    today = datetime.date.today()
    for i, (pattern, merchant, category, subcategory, parsed, source, tags) in enumerate(rules):
        if any(x is None for x in (pattern, merchant, category, subcategory)):
            return None
        am, dt = [], []
        for c in parsed.amount_conditions:
            vals = [x for x in (c.value, c.min_value, c.max_value) if x is not None]
            if not all(math.isfinite(x) for x in vals):
                return None
            if c.operator == ':':
                am.append({'op': ':', 'lo': common.float_bits(c.min_value), 'hi': common.float_bits(c.max_value)})
            else:
                am.append({'op': c.operator, 'v': common.float_bits(c.value)})
        for c in parsed.date_conditions:
            if c.operator == '=':
                dt.append({'op': '=', 'd': [c.value.year, c.value.month, c.value.day]})
            elif c.operator == ':':
                dt.append({'op': ':', 'a': [c.start_date.year, c.start_date.month, c.start_date.day],
                           'b': [c.end_date.year, c.end_date.month, c.end_date.day]})
            elif c.operator == 'month':
                dt.append({'op': 'month', 'm': c.month})
            else:
                dt.append({'op': 'relative', 'n': c.relative_days})
                try:
                    co = today - datetime.timedelta(days=c.relative_days)
                    cutoffs.append([c.relative_days, [co.year, co.month, co.day]])
                except OverflowError:
                    pass              # no cutoff shipped: the model declines (`unmodelled`)
        out.append({'idx': i, 'pattern': pattern, 'merchant': merchant, 'category': category, 'subcategory': subcategory,
                    'source': source, 'pattern_ast': exprs.parse_or_none(pattern), 'amount': am, 'date': dt,
                    'tag_specs': [exprs.tag_spec(t) for t in tags]})
    return {'rules': out, 'cutoffs': cutoffs}


DATE_ORACLE_ASKED = [0]      # strptime questions the pipeline model had to ask CPython (0 when every date format is one the strptime model implements)


def fill_csv_oracles(cases):
    """demand-driven float()/strptime tables for every source, via the `csv` op's `misses`"""
    drv = common.Driver()
    for _ in range(6):
        batch, where = [], []
        for ci, c in enumerate(cases):
            for si, s in enumerate(c['sources']):
                if not s.get('supplemental'):
                    batch.append({'op': 'csv', 'spec': s['spec'], 'cfg': s['cfg'], 'rows': s['rows'], 'floats': s['floats'], 'dates': s['dates'],
                                  **{k: s[k] for k in ('strptime_model', 'tables') if k in s}})
                    where.append((ci, si))
        outs = drv.batch(batch)
        progress = False
        for (ci, si), o in zip(where, outs):
            s = cases[ci]['sources'][si]
            for kind, arg in o.get('misses', []):
                progress = True
                if kind == 'float':
                    try:
                        s['floats'].append([arg, common.float_bits(float(arg))])
                    except ValueError:
                        s['floats'].append([arg, None])
                else:
                    DATE_ORACLE_ASKED[0] += 1
                    try:
                        s['dates'].append([arg, datetime.datetime.strptime(arg, s['_fmt']).isoformat()])
                    except ValueError:
                        s['dates'].append([arg, None])
        if not progress:
            break


def model_view(out):
    if 'txns' not in out:
        return {'model_error': out}
    if not out['txns']:
        return {'no_report': True}
    ms = {}
    for t in out['txns']:
        m = ms.setdefault(t['merchant'], {'category': '', 'subcategory': '', 'tags': set()})
        m['category'], m['subcategory'] = t['category'], t['subcategory']
        m['tags'].update(t['tags'])
    for name, cnt, tot in out['by_merchant']:
        ms[name].update(count=cnt, total=round(bits_float(tot), 2))
    for m in ms.values():
        m['tags'] = sorted(m['tags'])
    r2 = lambda k: round(bits_float(out[k]), 2)
    return {'merchants': ms, 'income': r2('income'), 'spending': r2('spending'), 'credits': r2('credits'),
            'transfers_in': r2('transfers_in'), 'transfers_out': r2('transfers_out'),
            'by_month': {k: round(bits_float(v), 2) for k, v in sorted(out['by_month'])}}


def close(a, b):
    if isinstance(a, dict) and isinstance(b, dict):
        return a.keys() == b.keys() and all(close(a[k], b[k]) for k in a)
    if isinstance(a, (int, float)) and isinstance(b, (int, float)) and not isinstance(a, bool):
        return abs(a - b) <= 0.011
    return a == b


def single_source_budgets(budget):
    import yaml
    st = yaml.safe_load(budget['files']['config/settings.yaml'])
    outs = []
    real = [s for s in st['data_sources'] if not s.get('supplemental')]
    for keep in real:
        st2 = dict(st, data_sources=[s for s in st['data_sources'] if s.get('supplemental') or s is keep])
        files = dict(budget['files'])
        files['config/settings.yaml'] = yaml.safe_dump(st2, sort_keys=False)
        outs.append(dict(budget, files=files))
    return outs


def locality_oracle(budget, whole):
    """report(all sources) = Σ report(each source alone): counts and money figures, merchant by merchant"""
    if 'json' not in whole:
        return []
    parts = [run_up(b) for b in single_source_budgets(budget)]
    tot = {}
    cnt = {}
    flows = {k: 0.0 for k in ('income_total', 'spending_total', 'credits_total', 'transfers_in', 'transfers_out')}
    for p in parts:
        if 'json' not in p:
            continue            # a source with no transaction at all: "No transactions found"
        for m in p['json']['merchants']:
            tot[m['name']] = tot.get(m['name'], 0) + m['total']
            cnt[m['name']] = cnt.get(m['name'], 0) + m['count']
        for k in flows:
            flows[k] += p['json']['summary'][k]
    w = whole['json']
    fails = []
    wcnt = {m['name']: m['count'] for m in w['merchants']}
    wtot = {m['name']: m['total'] for m in w['merchants']}
    nsrc = max(len(parts), 1)
    if wcnt != cnt:
        fails.append({'class': 'source-not-local:counts', 'whole': wcnt, 'sum_of_single_sources': cnt})
    elif any(abs(wtot[k] - tot[k]) > 0.006 * nsrc + 0.005 for k in wtot):
        fails.append({'class': 'source-not-local:totals', 'whole': wtot, 'sum_of_single_sources': tot})
    elif any(abs(w['summary'][k] - flows[k]) > 0.006 * nsrc + 0.005 for k in flows):
        fails.append({'class': 'source-not-local:flows', 'whole': {k: w['summary'][k] for k in flows}, 'sum_of_single_sources': flows})
    for f in fails:
        f['budget'] = budget
    return fails


def spec_oracle(budget, whole):
    """the generator knows which rows are well-formed and what they say: count, Σ amount and the probes
    (a rule that needs the supplemental rows; a rule that only matches after the field transform)"""
    exp = budget.get('expect')
    if not exp:
        return []
    fails = []
    if 'json' not in whole:
        if exp['count'] > 0:
            fails.append({'class': 'report-missing', 'budget': budget, 'expected_transactions': exp['count'], 'observed': whole})
        return fails
    j = whole['json']
    cnt = sum(m['count'] for m in j['merchants'])
    if cnt != exp['count']:
        fails.append({'class': 'wrong-transaction-count', 'budget': budget, 'observed': cnt, 'required': exp['count']})
    elif abs(j['summary']['total_spending'] - exp['sum_cents'] / 100) > 0.006:
        fails.append({'class': 'amounts-not-read-with-the-source-settings', 'budget': budget, 'observed_sum': j['summary']['total_spending'],
                      'required_sum': exp['sum_cents'] / 100})
    elif exp.get('probe'):
        name, lo = exp['probe'][0], exp['probe'][1]
        hi = exp['probe'][2] if len(exp['probe']) > 2 else lo
        got = sum(m['count'] for m in j['merchants'] if m['name'] == name)
        if not lo <= got <= hi:
            damaged = [x for x in budget.get('states', []) if x.startswith('supplemental:bad-') or x.startswith('supplemental:odd-')]
            fails.append({'class': ('rows-of-a-supplemental-file-lost-to-one-odd-cell:' if damaged and got < lo and damaged[0].startswith('supplemental:odd-') else
                                    'readable-rows-of-a-damaged-supplemental-file-lost:' if damaged and got < lo else 'rule-setting-not-honoured:') + name,
                          'budget': budget, 'observed': got, 'required': lo if lo == hi else {'at_least': lo, 'at_most': hi},
                          'supplemental_file': damaged[0][13:] if damaged else 'as configured'})
    return fails


def run_up_html(budget):
    """the default (HTML) report of the budget, fresh process; returns the `window.spendingData` object embedded in it"""
    d = tempfile.mkdtemp(prefix='tvuph_')
    try:
        write_budget(d, budget)
        env = dict(os.environ, PYTHONPATH=os.path.join(common.REPO, 'src'), NO_COLOR='1', PYTHONDONTWRITEBYTECODE='1')
        out = os.path.join(d, 'tv_report.html')
        p = subprocess.run([sys.executable, '-m', 'tally', 'up', 'config', '-q', '-o', out], cwd=d, env=env,
                           stdin=subprocess.DEVNULL, stdout=subprocess.PIPE, stderr=subprocess.PIPE, text=True, timeout=120)
        if p.returncode != 0 or not os.path.exists(out):
            return {'exit': p.returncode, 'stderr': p.stderr[-300:]}
        html = open(out, encoding='utf-8').read()
        mark = 'window.spendingData = '
        at = html.find(mark)
        if at < 0:
            return {'exit': 0, 'unparsed': 'no spendingData in the HTML report'}
        try:
            return {'data': json.JSONDecoder().raw_decode(html, at + len(mark))[0]}
        except Exception as e:
            return {'exit': 0, 'unparsed': str(e)[:200]}
    finally:
        shutil.rmtree(d, ignore_errors=True)


def tag_oracle(budget, whole):
    """generator truth for TAGS and for what tags govern (tagged stream): the tags of every merchant named by a rule row are the
    lower-cased tags of all rows that match its statement lines; amounts land in income / investment / transfers in / out /
    spending / credits by those tags (JSON summary and the HTML report's cards); a `"t" in tags` view selects the merchants that
    carry t (all those without a special tag at least; none that does not carry t)"""
    tg = budget.get('tagged')
    if not tg or 'json' not in whole:
        return []
    truth = tg['truth']
    j = whole['json']
    fails = []
    what = 'legacy-csv' if budget.get('kind') == 'csv' else 'rules-file'

    def fail(cls, **kw):
        fails.append(dict({'class': cls + ':' + what, 'budget': budget, 'rule_rows': tg['rows']}, **kw))

    got = {m['name']: m for m in j['merchants']}
    if tg['per_merchant']:
        for name, want in truth['merchants'].items():
            g = got.get(name)
            if g is None or g['count'] != want['count'] or (g['category'], g['subcategory']) != (want['category'], want['subcategory']):
                fail('merchant-of-a-matching-rule-wrong', merchant=name, required=want,
                     observed=None if g is None else {k: g[k] for k in ('count', 'category', 'subcategory', 'tags', 'total')})
            elif sorted(g['tags']) != want['tags']:
                fail('tags-of-the-matching-rules-not-on-the-merchant', merchant=name, required_tags=want['tags'], observed_tags=sorted(g['tags']))
            elif abs(g['total'] - want['cents'] / 100) > 0.006:
                fail('merchant-total-not-by-its-tags', merchant=name, required_total=want['cents'] / 100, observed_total=g['total'], tags=want['tags'])
    f = truth['figures_cents']
    s = j['summary']
    obs = {'income': s['income_total'], 'transfers_in': s['transfers_in'], 'transfers_out': s['transfers_out'], 'spending': s['spending_total'],
           'credits': s['credits_total']}
    bad = {k: {'observed': v, 'required': f[k] / 100} for k, v in obs.items() if abs(v - f[k] / 100) > 0.006}
    if bad:
        fail('amounts-not-in-the-figure-their-tags-say', figures=bad)
    html = run_up_html(budget)
    if 'data' not in html:
        fail('html-report-missing', observed=html)
        return fails
    d = html['data']
    obs = {'income': d.get('incomeTotal'), 'investment': d.get('investmentTotal'), 'transfers_in': d.get('transfersIn'),
           'transfers_out': d.get('transfersOut'), 'spending': d.get('spendingTotal'), 'credits': d.get('creditsTotal')}
    bad = {k: {'observed': v, 'required': f[k] / 100} for k, v in obs.items() if not isinstance(v, (int, float)) or abs(v - f[k] / 100) > 0.006}
    if bad:
        fail('amounts-not-in-the-figure-their-tags-say:html', figures=bad)
    if tg['per_merchant']:
        secs = {v.get('title'): sorted(m.get('displayName') for m in v.get('merchants', {}).values()) for v in d.get('sections', {}).values()}
        named = truth['merchants']
        for t in tg['views']:
            sel = secs.get('Tagged ' + t, [])
            carry = sorted(n for n, m in named.items() if t in m['tags'])
            must = sorted(n for n, m in named.items() if t in m['tags'] and not set(SPECIAL) & set(m['tags']))
            if [n for n in must if n not in sel] or [n for n in sel if n in named and n not in carry]:
                fail('tag-view-selects-the-wrong-merchants', view='"%s" in tags' % t, selected=sel, required_at_least=must,
                     required_at_most_among_rule_merchants=carry)
    return fails


def neutral_oracle(r, budget, whole):
    """adding a source whose file is missing, a source whose file is there but unreadable / hollow, or a supplemental source nobody
    queries (readable or not) changes nothing: the run completes and every figure of the other sources stays"""
    import yaml
    if 'json' not in whole:
        return []
    st = yaml.safe_load(budget['files']['config/settings.yaml'])
    fails = []

    def variant(src, entry, pos):
        ds = list(st['data_sources'])
        ds.insert(min(pos, len(ds)), src)
        files = dict(budget['files'])
        files['config/settings.yaml'] = yaml.safe_dump(dict(st, data_sources=ds), sort_keys=False)
        if entry is not None:
            files[src['file']] = entry
        return dict(budget, files=files, expect=None, ghost=None)

    fmt = '{date:%Y-%m-%d},{description},{amount}'
    g = budget.get('ghost') or {}
    b2 = variant({'name': 'Ghost', 'file': g.get('missing_file', 'data/ghost.csv'), 'format': fmt}, None, len(st['data_sources']))
    other = run_up(b2)
    if impl_view(other) != impl_view(whole):
        fails.append({'class': 'missing-source-not-neutral', 'budget': budget, 'missing_file': g.get('missing_file', 'data/ghost.csv'),
                      'with_missing_source': other if 'json' not in other else impl_view(other), 'without': impl_view(whole)})
    if g:
        src = {'name': 'Ledger', 'file': g.get('file', 'data/ledger.csv'), 'format': fmt}
        if g['supplemental']:
            src['supplemental'] = True
        b3 = variant(src, g['entry'], g['pos'])
        other = run_up(b3)
        if impl_view(other) != impl_view(whole):
            what = ('supplemental-source-nobody-queries' if g['kind'] in ('valid', 'bom') else
                    ('unreadable-' if g['kind'] in UNREADABLE else 'hollow-') + ('supplemental-' if g['supplemental'] else '') + 'source')
            fails.append({'class': what + '-not-neutral', 'file_is': g['kind'], 'budget': budget,
                          'settings_with_the_extra_source': b3['files']['config/settings.yaml'], 'extra_file': g['entry'],
                          'with_the_extra_source': other if 'json' not in other else impl_view(other), 'without': impl_view(whole)})
    return fails


def run(ctx):
    DATE_ORACLE_ASKED[0] = 0
    def regen_fn(st):
        regen.regen_fmt_tables(st)          # Model/Config reuses C18's parse_format_string model, written over Gen/FmtTables
        regen.regen_config_tables(st)       # the constants of load_config / resolve_source_format / cmd_run (Gen/ConfigTables)
    lo = common.lean_phase(ctx, 'TallyVerif.Props.C11', regen_fn)
    r = ctx.rng
    n = 80 if ctx.quick else 2500
    if ctx.replay:
        ce = json.loads(common.read(ctx.replay)).get('counterexample', {})
        budgets = [ce['budget']] if 'budget' in ce else []
    else:
        budgets = [gen_budget(r, focus='damaged-supplemental' if i % 10 == 7 else 'odd-cell-supplemental' if i % 10 in (2, 5) else None) for i in range(n)]
        budgets += [gen_legacy_budget(r) for _ in range(30 if ctx.quick else 800)]     # drawn AFTER the ordinary stream: that one is unchanged
        budgets += [gen_transform_budget(r) for _ in range(6 if ctx.quick else 100)]
        budgets += [gen_tagged_budget(r, kind=('csv', 'rules')[i % 2]) for i in range(16 if ctx.quick else 400)]    # drawn last, as above
    with ThreadPoolExecutor(max_workers=16) as ex:
        impls = list(ex.map(run_up, budgets))
    prop_fail, corr_fail = [], []
    mcases, midx = [], []
    for i, b in enumerate(budgets):
        try:
            mi = model_input(b, with_settings=True)
        except Exception as e:
            mi = None
            ctx.notes.setdefault('model_input_errors', []).append(f'{type(e).__name__}: {e}'[:120])
        if mi is not None:
            mcases.append(mi); midx.append(i)
    unmodelled = 0
    modelled_kinds = {}
    scases = [m.pop('_from_settings', None) for m in mcases]
    corr_fail_settings, settings_stat = [], {'budgets': 0, 'model_declines': 0, 'stops_before_the_loop': 0, 'planned_calls': 0, 'by_delimiter_reading': {},
                                             'header_skipped': 0, 'eu_decimals': 0, 'negated': 0, 'rule_mode_most_specific': 0, 'agree_with_generator_truth_path': 0}
    if mcases:
        fill_csv_oracles(mcases)
        for c in mcases:
            for s in c['sources']:
                s.pop('_fmt', None)
        outs = exprs.model_eval(mcases, op='pipeline')
        # the SAME budgets through the model FROM THE SETTINGS OBJECT (Config.resolveConfig -> planSources -> readArgs -> C05 tokeniser and row
        # parser -> classification -> totals); the per-source parameters above (taken from the generated settings by the harness) stay as cross-check
        fill_settings_oracles(scases)
        sidx = [k for k, c in enumerate(scases) if c is not None]
        souts = dict(zip(sidx, exprs.model_eval([scases[k] for k in sidx], op='pipeline'))) if sidx else {}
        for k, (i, o_old) in enumerate(zip(midx, outs)):
            so = souts.get(k)
            if so is None:
                continue
            if so.get('err') == 'unmodelled':
                settings_stat['model_declines'] += 1
                continue
            settings_stat['budgets'] += 1
            for pc in so.get('plan', []):
                settings_stat['planned_calls'] += 1
                rd = pc.get('read', {})
                dk = 'error' if 'err' in rd else 'regex' if rd.get('delim') == 'regex' else 'comma' if rd.get('delim') == ',' else 'other character'
                settings_stat['by_delimiter_reading'][dk] = settings_stat['by_delimiter_reading'].get(dk, 0) + 1
                settings_stat['header_skipped'] += bool(rd.get('has_header'))
                settings_stat['eu_decimals'] += bool(rd.get('eu'))
                settings_stat['negated'] += bool(rd.get('negate'))
            settings_stat['rule_mode_most_specific'] += so.get('mode') == 'most_specific'
            settings_stat['stops_before_the_loop'] += 'stop' in so
            mv = {'no_report': True} if 'stop' in so else model_view(so)
            iv = impl_view(impls[i])
            if close(mv, iv):
                settings_stat['agree_with_generator_truth_path'] += close(mv, {'no_report': True} if o_old.get('err') else model_view(o_old)) or o_old.get('err') == 'unmodelled'
            else:
                diff = [kk for kk in set(mv) | set(iv) if not close(mv.get(kk), iv.get(kk))]
                corr_fail_settings.append({'differs_in': diff, 'model_from_settings': {kk: mv.get(kk) for kk in diff}, 'implementation': {kk: iv.get(kk) for kk in diff},
                                           'model_answer': {kk: so.get(kk) for kk in ('stop', 'cls', 'err', 'why', 'misses', 'model_selects', 'rulebook_from', 'plan')},
                                           'budget': budgets[i]})
        for i, o in zip(midx, outs):
            if o.get('err') == 'unmodelled':
                unmodelled += 1
                continue
            k = budgets[i].get('kind', '?')
            mk = modelled_kinds.setdefault(k, {'budgets': 0, 'transactions': 0, 'categorised': 0, 'tagged': 0})
            mk['budgets'] += 1
            for t in o.get('txns', []):
                mk['transactions'] += 1
                mk['categorised'] += t['category'] != 'Unknown'
                mk['tagged'] += bool(t['tags'])
            mv, iv = model_view(o), impl_view(impls[i])
            if not close(mv, iv):
                diff = [k for k in set(mv) | set(iv) if not close(mv.get(k), iv.get(k))]
                corr_fail.append({'differs_in': diff, 'model': {k: mv.get(k) for k in diff}, 'implementation': {k: iv.get(k) for k in diff},
                                  'budget': budgets[i]})
    # `_is_expression_pattern` (which arm of the tuple test a Pattern cell takes) vs Pipeline.isExpressionPattern, densely
    from tally import merchant_utils as MU
    pats = [] if ctx.replay else shape_patterns(r, ctx.quick)
    shape_fail = []
    if pats:
        got = common.Driver().batch([{'op': 'legacyshape', 'patterns': [{'p': p, 'ast': exprs.parse_or_none(p)} for p in pats]}])[0].get('is_expr', [])
        want = [bool(MU._is_expression_pattern(p)) for p in pats]
        shape_fail = [{'pattern': p, 'model': g, 'implementation': w} for p, g, w in zip(pats, got, want) if g != w]
        if len(got) != len(want):
            shape_fail.append({'model_answers': len(got), 'patterns': len(want)})
    ctx.obligation('correspondence:_is_expression_pattern vs Pipeline.isExpressionPattern', 'correspondence', not shape_fail,
                   cases=len(pats), error=json.dumps(shape_fail[0])[:600] if shape_fail else None)
    ctx.obligation('correspondence:python -m tally up (fresh process) vs the composed Lean pipeline', 'correspondence', not corr_fail,
                   cases=len(mcases) - unmodelled, error=json.dumps(corr_fail[0], default=str)[:2500] if corr_fail else None)
    ctx.obligation('correspondence:python -m tally up (fresh process) vs PipelineCfg.upFromSettings (the model starts at the loaded settings object)',
                   'correspondence', not corr_fail_settings, cases=settings_stat['budgets'],
                   error=json.dumps(corr_fail_settings[0], default=str)[:3000] if corr_fail_settings else None)
    ctx.notes['pipeline_from_settings'] = settings_stat
    # settings resolution on its own: load_config / cmd_run's plan / the reader's view of the arguments / posixpath vs Model/Config
    cres, cstats, cprop, cfinding = CC.run_streams(ctx)
    for name, label in (('load', 'config_loader.load_config-vs-Config.resolveConfig'), ('plan', 'commands.run.cmd_run (parser calls observed)-vs-Config.planSources'),
                        ('read', 'parsers._iter_rows_with_delimiter + parse_amount (argument values)-vs-Config.readArgs'),
                        ('paths', 'posixpath.join / dirname / normpath-vs-Config.pjoin2 / dirname / normpath'), ('truthy', 'bool()-vs-Config.Y.truthy')):
        fl, ncases = cres[name]
        ctx.obligation('correspondence:' + label, 'correspondence', not fl, cases=ncases, error=json.dumps(fl[0], default=str)[:2500] if fl else None)
    ctx.notes['settings_resolution'] = cstats
    ctx.cov['evaluations_settings_resolution'] = cstats.get('cases', 0)
    prop_fail.extend(cprop)
    # finding F11-name (a source without `name:` kills a run without --quiet): PROPOSED, not listed.  Its witnesses are handed to the verdict only once
    # known_findings.json lists it (then: KNOWN-FINDING while the defect is there, silence once it is repaired); until then the input class "verbose run,
    # ordinary source without a name key" is EXCLUDED from the property oracle and only counted (coverage.settings_resolution.F11_name_*)
    if any(f.get('id') == 'F11-name' for f in ctx.findings_for()):
        prop_fail.extend(cfinding)
    ctx.notes['F11_name_witnesses_excluded_from_the_verdict'] = 0 if any(f.get('id') == 'F11-name' for f in ctx.findings_for()) else len(cfinding)
    nor = 0
    with ThreadPoolExecutor(max_workers=8) as ex:
        sel = [i for i in range(len(budgets)) if (ctx.replay or i % (2 if ctx.quick else 3) == 0)]
        for i in range(len(budgets)):
            prop_fail.extend(spec_oracle(budgets[i], impls[i]))
        for fl in ex.map(lambda i: locality_oracle(budgets[i], impls[i]) + neutral_oracle(r, budgets[i], impls[i]), sel):
            prop_fail.extend(fl)
            nor += 1
        for fl in ex.map(lambda i: tag_oracle(budgets[i], impls[i]), [i for i in range(len(budgets)) if budgets[i].get('tagged')]):
            prop_fail.extend(fl)
    ctx.cov['evaluations'] = len(budgets) + nor * 4
    ctx.cov['traces_validated_against_impl'] = len(mcases) - unmodelled
    ctx.cov['distinct_nontrivial'] = sum(1 for b, im in zip(budgets, impls) if 'json' in im and len(im['json']['merchants']) >= 2
                                         and (sum(1 for x in b['states'] if x in ('ok', 'bom')) if 'states' in b else
                                              sum(1 for k in b['files'] if k.startswith('data/s'))) >= 2)
    ctx.cov['rule'] = ('generated budget directories: 1–4 sources with independent format strings (column order, skip columns, custom capture + '
                       'description template), delimiter (25 spellings: absent / , / ; / the word tab / a real tab / a blank / | : ^ ~ ! / = / the white-space '
                       'characters U+001F, form feed, NBSP, EM SPACE / two regex: line patterns, one ending in a significant blank - per source, ordinary and '
                       'supplemental alike, the file written with that separator; counts in coverage.delimiter_spellings), header flag, decimal convention, '
                       'sign mode, malformed rows, missing files, an '
                       'optional supplemental source queried by a rule, .rules / legacy CSV / no rules, both rule modes, optional views; each run '
                       'through `python -m tally up --format json -v -q` in a fresh process and through the composed Lean model (all three rule kinds). '
                       'Legacy stream (drawn after the ordinary one): the rules are a merchant_categories.csv of 2–7 tuples written against the statement '
                       'lines — plain / anchored / look-ahead / case-sensitive-group / empty regular expressions, every [amount…] / [date…] / [month…] form with '
                       'thresholds and dates ON the values the sources carry (incl. relative dates and modifiers that do not parse), Pattern cells that ARE '
                       'expressions (over amount, date parts, source, captured columns, the supplemental rows), cells that only look like expressions, cells `re` '
                       'rejects, static / dynamic / blank / duplicate / falsy / padded tags, tag-only tuples, repeated cells. Transform stream: a .rules '
                       'budget whose field transform names the supplemental source (must be skipped). '
                       'Tagged stream (drawn last; half legacy CSV, half .rules): 3–7 keyword rows with tags ([amount>100] / `and amount > 100` on some, tag-only '
                       'rows, special tags income / investment / transfer in several spellings, plain tags) and one `"t" in tags` view per plain tag; which '
                       'row matches which statement line and what tags it carries is generator truth: required are the tags, count, category and total of '
                       'every merchant a row names, the income / investment / transfers in / out / spending / credits figures (JSON summary and the cards of the '
                       'HTML report, second run), and the merchants each tag view selects (counts in coverage.tagged_stream). '
                       'Unreadable-file stream: an ordinary source file (12 %) or the queried supplemental file (30 %) is replaced by what a user '
                       'ends up with — Latin-1 / Windows-1252 / UTF-16 bytes, binary junk (zip / pdf magic + NULs + invalid UTF-8), a directory, a '
                       'mode-000 file (only when not root; a directory otherwise), a 0-byte or header-only file — or carries a UTF-8 BOM (15 % of '
                       'the files with a header line); such a source must contribute nothing and the run must complete with every other source\'s '
                       'transactions and amounts (generator truth + locality); for every second budget one more run adds a pre-drawn extra source '
                       '(ordinary with an unreadable / hollow file, or supplemental and unqueried with any of those or a readable file) at a random '
                       'position and requires an identical report. Damaged-in-one-place stream: the supplemental file queried by a rule '
                       '(25 % of the supplemental files, and every 10th budget has supplemental source + querying rule + damage for certain) has '
                       'bytes that are not UTF-8 (Latin-1 / cp1252 letters, torn or overlong sequences, surrogates, 0xFF) in the header, in one '
                       'item cell, in one amount cell, in one added row or in a torn last line; required: the transactions equal to the amount of a '
                       'row whose own bytes are intact are classified by the querying rule (lower bound), at most those equal to any row (counts in '
                       'coverage.damaged_supplemental_file_queried_by_a_rule). Odd-cell stream (20 % of the supplemental files, and 2 of every 10 budgets '
                       'have supplemental source + querying rule + odd cell for certain): the supplemental file is valid UTF-8 but ONE cell / row is odd - '
                       'the date cell of a row empty, blank, text (pending, n/a, TBD), impossible (2025-02-30), in another shape, with weekday / time appended; '
                       'an amount cell that is no number; an empty item; an added pending order without date; an added subtotal / gift line with fewer cells '
                       '(then the rows BEFORE it are required); an added row with surplus cells; a row of blank cells; every row without a usable date - '
                       'required: the same lower / upper bound (counts in coverage.odd_cell_supplemental_file_queried_by_a_rule). File names: 60 % of all source files (ordinary, supplemental, the '
                       'extra and the missing source of the neutrality runs) are not plain identifiers: directory × stem × extension from what '
                       'exports carry (spaces, [ ] ( ) # & \' + , % ~ $ { } ; = @ ! : ", non-ASCII NFC / NFD, leading dot / dash, * ? [..], '
                       'case, nested / other / unnormalised directories, YAML-looking names) or a sibling of a name already used (other case; one '
                       'character as ?, a span as *, a character as [c]; " (1)" copy), all distinct as literal paths with different contents '
                       '(counts by class in coverage.source_file_names). Non-trivial = ≥ 2 readable data files and ≥ 2 merchants in the report. '
                       'Every budget also runs through the model FROM THE LOADED SETTINGS OBJECT (coverage.pipeline_from_settings). '
                       'Settings-resolution streams (coverage.settings_resolution; drawn after everything else): 10 hand-written settings files in user spellings '
                       '(yes/no, "false", "\\t", flow style, anchors + merge keys, an empty file), structured mostly-valid settings objects (1-4 sources: format / '
                       'type amex|boa in any letter case / both / neither, Mode-2 formats with columns.description, every reader setting absent / of the documented '
                       'type / of another type, supplemental, unknown and misspelt keys, keys in any order, file names relative / ./ // .. / through a symbolic link / '
                       'absolute / outside the budget / missing, rule_mode, merchants_file and views_file configured & there / configured & missing / falsy / of '
                       'another type, with or without the legacy CSV, removed settings) and a hostile stream (null values, wrong types everywhere, data_sources '
                       'null / [] / {} / a mapping / a string / a number / true, entries that are not mappings, the same source twice, removed keys, '
                       'description_cleaning of every type, settings that are a list / a scalar / empty); each through load_config and through cmd_run in-process '
                       'with and without --quiet (parser entry points wrapped by the harness). Non-trivial there (coverage.settings_resolution.nontrivial) = ≥ 2 '
                       'sources resolved, ≥ 1 parser call, and a source skipped or read with a non-default setting')
    fs = {}
    for b in budgets:
        for x in b.get('states', []):
            fs[x] = fs.get(x, 0) + 1
    ctx.notes['source_file_states'] = dict(sorted(fs.items()))
    ctx.notes['strptime_questions_the_pipeline_model_asked_cpython (dates are read by Model/Strptime)'] = DATE_ORACLE_ASKED[0]
    import yaml
    nc, nfiles, dprobe = {}, 0, {'budgets': 0, 'transactions_required_to_match_an_intact_row': 0}
    oprobe = {'budgets': 0, 'transactions_required_to_match_another_row': 0, 'by_kind': {}}
    dl = {}
    for b in budgets:
        try:
            srcs = yaml.safe_load(b['files']['config/settings.yaml'])['data_sources']
        except Exception:
            continue
        for sdef in srcs:
            nfiles += 1
            dk = ('supplemental:' if sdef.get('supplemental') else 'ordinary:') + delimiter_class(sdef.get('delimiter'))
            dl[dk] = dl.get(dk, 0) + 1
            for c in name_classes(sdef['file']):
                nc[c] = nc.get(c, 0) + 1
        pr = (b.get('expect') or {}).get('probe')
        if pr and pr[0] == 'Ordered' and any(x.startswith('supplemental:bad-') for x in b.get('states', [])):
            dprobe['budgets'] += 1
            dprobe['transactions_required_to_match_an_intact_row'] += pr[1]
        odd = [x[13:] for x in b.get('states', []) if x.startswith('supplemental:odd-')]
        if pr and pr[0] == 'Ordered' and odd:
            oprobe['budgets'] += 1
            oprobe['transactions_required_to_match_another_row'] += pr[1]
            oprobe['by_kind'][odd[0]] = oprobe['by_kind'].get(odd[0], 0) + 1
    ctx.notes['source_file_names'] = dict(sorted(nc.items()), files=nfiles)
    ctx.notes['damaged_supplemental_file_queried_by_a_rule'] = dprobe
    oprobe['by_kind'] = dict(sorted(oprobe['by_kind'].items()))
    ctx.notes['odd_cell_supplemental_file_queried_by_a_rule'] = oprobe
    ctx.notes['delimiter_spellings'] = dict(sorted(dl.items()))
    gs = {}
    for i in sel:
        g = budgets[i].get('ghost')
        if g and 'json' in impls[i]:
            k = ('supplemental:' if g['supplemental'] else 'ordinary:') + g['kind']
            gs[k] = gs.get(k, 0) + 1
    ctx.notes['extra_source_neutrality_runs'] = dict(sorted(gs.items()))
    ctx.notes['permission_denied_testable'] = os.geteuid() != 0
    ctx.notes['budgets_by_rules_kind'] = {k: sum(1 for b in budgets if b.get('kind') == k) for k in ('rules', 'csv', 'none')}
    ctx.notes['budgets_by_stream'] = {k: sum(1 for b in budgets if b.get('stream', 'ordinary') == k) for k in ('ordinary', 'legacy', 'transform-names-supplemental', 'tagged')}
    ctx.notes['modelled_by_rules_kind'] = modelled_kinds
    tstat = {}
    for b, im in zip(budgets, impls):
        tg = b.get('tagged')
        if not tg:
            continue
        t = tstat.setdefault('legacy-csv' if b['kind'] == 'csv' else 'rules-file',
                             {'budgets': 0, 'reports': 0, 'rule_rows': 0, 'statement_lines': 0, 'merchants_named_by_a_row': 0, 'merchants_with_tags': 0,
                              'merchants_with_a_special_tag': 0, 'tag_views': 0, 'per_merchant_truth_checked': 0, 'cents_outside_spending_and_credits': 0})
        t['budgets'] += 1
        t['reports'] += 'json' in im
        t['rule_rows'] += len(tg['rows'])
        t['statement_lines'] += b['expect']['count']
        ms = tg['truth']['merchants'].values()
        t['merchants_named_by_a_row'] += len(ms)
        t['merchants_with_tags'] += sum(1 for m in ms if m['tags'])
        t['merchants_with_a_special_tag'] += sum(1 for m in ms if set(SPECIAL) & set(m['tags']))
        t['tag_views'] += len(tg['views'])
        t['per_merchant_truth_checked'] += bool(tg['per_merchant'])
        t['cents_outside_spending_and_credits'] += sum(tg['truth']['figures_cents'][k] for k in ('income', 'investment', 'transfers_in', 'transfers_out'))
    ctx.notes['tagged_stream'] = tstat
    ctx.notes['unmodelled_skipped'] = unmodelled
    ctx.notes['reports_produced'] = sum(1 for im in impls if 'json' in im)
    for b in budgets[:2]:
        ctx.sample({'settings': b['files']['config/settings.yaml'], 'files': sorted(b['files']), 'file_states': b.get('states')})

    def search():
        out = CC.search(ctx)            # settings resolution: fresh settings objects through load_config / cmd_run, implementation-only oracles
        if out:
            return out
        for i in range(150):
            b = (gen_tagged_budget(r) if i % 3 == 1 else gen_legacy_budget(r) if i % 3 == 2 else
                 gen_budget(r, focus='damaged-supplemental' if i % 6 == 3 else 'odd-cell-supplemental' if i % 6 == 0 else None))
            w = run_up(b)
            out.extend(spec_oracle(b, w) + locality_oracle(b, w) + neutral_oracle(r, b, w) + tag_oracle(b, w))
            if out:
                break
        return out

    def classify(pf):
        return 'F11-name' if pf.get('class') == 'nameless-source-stops-the-run-without-quiet' else None

    common.conclude(ctx, prop_fail, classify=classify, search=search,
                    required='the report contains exactly the transactions of all non-supplemental sources, each read with its own settings and '
                             'classified by the configured rules; changing one source or setting changes only its share; a missing or unreadable source '
                             '(ordinary or supplemental) leaves the others intact and does not stop the run; `file:` names exactly one file, '
                             'literally; every source is read with the delimiter it declares, in any accepted spelling (a white-space character is a '
                             'delimiter like any other); the readable rows of a supplemental file are available to the rules whatever another row or '
                             'cell contains; '
                             'a transaction carries the tags of every rule row that matches it (legacy CSV or .rules), its amount lands in the figure those '
                             'tags say, and a tag view selects the merchants that carry the tag; '
                             'settings: every parsed source is handed ITS OWN delimiter / has_header / decimal_separator / negate_amount / name as written, exactly '
                             'the ordinary sources whose file is there are parsed, in order, only `most_specific` selects that mode, a configured-but-missing '
                             'merchants_file is not replaced by the legacy CSV, and editing one source or one top-level key leaves the parser calls of all other '
                             'sources unchanged')
    return ctx.finish(extra_trusted=[
        'PARTIAL: argparse and JSON printing are exercised end to end but not modelled; yaml.safe_load is a trusted parser (the loaded settings object is the '
        "model's input); settings resolution (load_config, resolve_source_format, cmd_run's choice of parser calls and their arguments, path resolution) IS "
        'modelled (Model/Config.lean) and tied by the load / plan / read / paths streams and by the end-to-end stream that starts at the settings object',
        'Gen/ConfigTables.lean (removed keys, rule modes, defaults, legacy CSV name, special parser types, the keys read) is regenerated from config_loader.py / '
        'format_parser.py / commands/run.py / parsers.py on every run (translator harness/translate/config_tables.py)',
        'parameters of the settings model: os.path.exists, the outcome of section_engine.load_sections on the views file (modelled in C10/C17), the rows of '
        'the deprecated parse_amex / parse_boa, the loading of the selected rules file and of the supplemental tables (implementation), CPython non-ASCII text primitives (Ext)',
        'tokenisation (csv.reader / regex) is taken from the implementation, as in C05',
        'legacy-CSV rule budgets: the file is loaded by the implementation (csv.DictReader + parse_pattern_with_modifiers, as C14), the tuples are '
        'classified by the model (Pipeline.classifyLegacy); float rounding of `amount - v` in [amount=v] is modelled away (as C14); money figures to the cent',
        'the component models (Csv, Expr, Engine, Rules, Totals) and their own ties (C05, C04/C08, C01/C02/C09, C06)'])
