"""C15 — an interrupted or failing migration never loses rules or strands the budget.

Proof side: lean/TallyVerif/Props/C15.lean (`Safe` for every crash prefix × in-flight state × budget shape and
for every single-event OSError, for the repaired statement order; counterexamples D15a–e on the order the
code has today).  Tie #1: harness/translate/fs_steps.py regenerates Gen/FsSteps.lean (call order of the
migration functions) — `extracted_order_is_modelled`.  Tie #2 (this file): for EVERY event k × budget shape ×
in-flight state × {crash, fault} the real functions run under the injector of harness/fsmon.py (forked
child of a `/venv/bin/python` server, temp budget) and are compared with the executable model (`tvdrv`
op `fs`, variant read off Gen/FsSteps): event trace, resulting tree in chunk notation, load_config's
effective rules/data directly and after re-running the command, and the model's `Safe` verdict against the
oracle below.

Oracle (the property itself, on the real tree only — no model involved):
  lost      some original file's bytes are nowhere in the tree (settings.yaml may only have grown);
  and, if `tally up` classified with user rules before the command:
  moved     `tally up` classifies differently from before AND still does after re-running the command;
  stranded  load_config yields no rules / zero rules although a file with the user's rules is on disk;
  run       (fault inside `up --migrate`) the run itself went on with rules other than the user's.
PARTIAL: OS durability (fsync, power-loss reordering) and tears inside one write() of the settings append
are not exercised.
"""
import json
import os

from .. import common, fsmon, regen

PROGS = ('upMigrate', 'init', 'layout')
REQUIRED = ('after any prefix of the migration\'s file-system events (in-flight file empty/half/full) and after an OSError at any '
            'single event: no original file content lost; `tally up` classifies as before, at once or after re-running the same '
            'command; never "no rules" while the user\'s rules are on disk')


# ------------------------------------------------------------------ shapes

def all_shapes():
    out = []
    for s in ('absent', 'plain', 'commentMF', 'keyRules', 'keyOther'):
        for c in ('absent', 'headerOnly', 'withRules'):
            for r in (False, True):
                for b in (False, True):
                    for vw in (False, True):
                        for mv in (False, True):
                            for d in (False, True):
                                out.append({'settings': s, 'csv': c, 'rules': r, 'csvBak': b, 'views': vw, 'mentionsVF': mv, 'dirs': d})
    return out


def all_lshapes():
    out = []
    for a in (False, True):
        for b in (False, True):
            for c in (False, True):
                for d in (False, True):
                    for e in (False, True):
                        out.append({'data': a, 'output': b, 'tallyDir': c, 'schema': d, 'csvRules': e})
    return out


def migrates(prog, s):
    if prog == 'upMigrate':
        return s['settings'] in ('plain', 'commentMF') and s['csv'] != 'absent'
    return s['csv'] == 'withRules' and not s['rules']


def pick_shapes(prog, rng, quick):
    """(shape-key, shape) list.  upMigrate ignores views/mentionsVF; dirs=False has no statements to classify."""
    if prog == 'layout':
        return [('lshape', s) for s in all_lshapes()]
    shapes = all_shapes()
    if prog == 'upMigrate':
        shapes = [s for s in shapes if not s['views'] and not s['mentionsVF'] and s['dirs']]
        act = [s for s in shapes if migrates(prog, s)]
        rest = [s for s in shapes if not migrates(prog, s)]
        return [('shape', s) for s in act + (rng.sample(rest, 6) if quick else rest)]
    act = [s for s in shapes if migrates(prog, s)]
    rest = [s for s in shapes if not migrates(prog, s)]
    if quick:
        core = [s for s in act if s['dirs'] and not s['views'] and not s['mentionsVF']]
        return [('shape', s) for s in core + rng.sample([s for s in act if s not in core], 14) + rng.sample(rest, 10)]
    return [('shape', s) for s in act + rest]


# ------------------------------------------------------------------ cases

def enumerate_cases(drv, progs, rng, quick):
    base = []
    for prog in progs:
        for key, s in pick_shapes(prog, rng, quick):
            base.append({'op': 'fs', 'program': prog, 'variant': 'auto', 'mode': 'complete', key: s})
    info = drv.batch(base)
    cases = []
    for b, m in zip(base, info):
        evs = m['events']
        n = m['numEvents']
        key = 'lshape' if 'lshape' in b else 'shape'
        open_ = False
        inflight = [False]
        for t in evs:
            if t.startswith('open'):
                open_ = True
            elif t == 'close':
                open_ = False
            inflight.append(open_)
        for k in range(n + 1):
            for part in (('empty', 'half', 'full') if inflight[k] else ('full',)):
                cases.append({'program': b['program'], key: b[key], 'inject': {'mode': 'crash', 'k': k, 'partial': part}})
        for k in range(n):
            if evs[k] != 'close':
                cases.append({'program': b['program'], key: b[key], 'inject': {'mode': 'fault', 'k': k}})
        if n == 0:
            pass
    return cases, info[0]['variant'] if info else {}


def model_case(c):
    d = {'op': 'fs', 'program': c['program'], 'variant': 'auto', 'mode': c['inject']['mode'], 'k': c['inject']['k'],
         'partial': c['inject'].get('partial', 'full')}
    d['lshape' if 'lshape' in c else 'shape'] = c.get('lshape') or c.get('shape')
    return d


# ------------------------------------------------------------------ oracle on the real tree

def usable(eff):
    """the budget classifies with user rules: load_config finds a rules file and it carries at least one rule"""
    return str(eff.get('rules', '')).startswith(('csv:', 'rules:')) and isinstance(eff.get('nrules'), int) and eff['nrules'] > 0


def same_classification(cls_a, eff_a, cls0, eff0):
    """`tally up` output equal, and (for budgets without statements, where the output shows nothing) the rules in effect are
    the same file content or a CSV and its complete conversion"""
    ra, r0 = eff_a.get('rules'), eff0.get('rules')
    return cls_a == cls0 and (ra == r0 or {ra, r0} == {'csv:orig:csv', 'rules:migrated:csv'}) and eff_a.get('data') == eff0.get('data')


def oracle(c, r):
    """the property on the implementation alone -> list of failure dicts"""
    fails = []
    mode = c['inject']['mode']
    shape = c.get('shape') or c.get('lshape')
    where = {'program': c['program'], 'shape': shape, 'inject': c['inject'], 'events_done': r.get('events'),
             'tree_after': r.get('tree'), 'effective_before': r.get('eff0'), 'effective_after': r.get('eff'),
             'effective_after_rerun': r.get('effRerun'),
             'classification_before': r.get('cls0'), 'classification_after': r.get('cls1'),
             'classification_after_rerun': r.get('cls2'), 'case': c}
    if r.get('lost'):
        fails.append(dict(where, **{'class': 'content-lost', 'lost': r['lost'],
                                    'observed': 'original content of ' + ', '.join(r['lost']) + ' is nowhere in the tree'}))
    if usable(r['eff0']):
        same_now = same_classification(r['cls1'], r['eff'], r['cls0'], r['eff0'])
        same_rerun = same_classification(r['cls2'], r['effRerun'], r['cls0'], r['eff0'])
        eff = r.get('eff') or {}
        empty = eff.get('rules') == 'none' or eff.get('nrules') == 0 or bool((r.get('cls1') or {}).get('norules'))
        if empty and r.get('rulesOnDisk'):
            fails.append(dict(where, **{'class': 'stranded', 'observed': 'no merchant rules in effect while the user\'s rules are on disk'
                                        + ('' if same_rerun else '; re-running the command does not repair it')}))
        elif not same_now and not same_rerun:
            fails.append(dict(where, **{'class': 'not-recoverable-by-rerun',
                                        'observed': 'tally up classifies differently from before, also after re-running the command'}))
        if mode == 'fault' and c['program'] == 'upMigrate' and r.get('outcome') == 'ok' and r.get('injected'):
            want = {'Netflix>Subscriptions', 'Costco>Shopping'}
            got = set(r.get('run') or [])
            if r.get('run') != 'error' and got != want and shape.get('csv') == 'withRules':
                fails.append(dict(where, **{'class': 'run-continued-without-rules', 'run_rules': sorted(got),
                                            'observed': 'after the OSError the same run went on classifying with ' + (str(sorted(got)) if got else 'an empty rule set')}))
    return fails


def classify(f):
    """narrow classifiers of the pre-registered defects (program + event + shape class)"""
    c = f.get('case') or {}
    s = f.get('shape') or {}
    prog, inj = f.get('program'), f.get('inject') or {}
    done = f.get('events_done') or []
    moved_csv = any(e.startswith('move config/merchant_categories.csv -> config/merchant_categories.csv.bak') for e in done)
    key_written = any('merchants_file' in str(v) for v in [(f.get('tree_after') or {}).get('config/settings.yaml', '')]) and \
        'line:mfKey' in (f.get('tree_after') or {}).get('config/settings.yaml', '')
    if prog in ('upMigrate', 'init'):
        if f['class'] == 'content-lost' and s.get('csvBak') and f.get('lost') == ['config/merchant_categories.csv.bak'] and moved_csv:
            return 'D15c'
        if f['class'] == 'content-lost' and s.get('rules') and prog == 'upMigrate' and f.get('lost') == ['config/merchants.rules']:
            return 'D15c'
        if f['class'] in ('stranded', 'run-continued-without-rules') and s.get('settings') == 'commentMF' and moved_csv:
            return 'D15e'
        if f['class'] == 'stranded' and s.get('settings') == 'plain' and moved_csv and not key_written:
            return 'D15a' if inj.get('mode') == 'crash' else 'D15b'
        if f['class'] == 'run-continued-without-rules' and s.get('settings') == 'plain' and moved_csv and inj.get('mode') == 'fault':
            return 'D15b'
    if prog == 'layout' and f['class'] in ('not-recoverable-by-rerun',) and any(e == 'move config -> tally/config' for e in done) \
            and s.get('data') and 'data/bank.csv' in (f.get('tree_after') or {}):
        return 'D15d'
    return None


# ------------------------------------------------------------------ comparison with the model

def compare(c, m, r):
    """-> list of disagreement strings (empty = corresponds)"""
    if 'harness_error' in r:
        return ['harness: ' + r['harness_error']]
    out = []
    mode = c['inject']['mode']
    if m.get('outOfModel'):
        out.append('model: shape outside the modelled directory moves')
    ev_m, ev_r = m['trace'], r['events']
    if mode == 'crash':
        k = c['inject']['k']
        if ev_r != ev_m[:k]:
            out.append(f'events: real {ev_r} vs model prefix {ev_m[:k]}')
        if (r['outcome'] == 'crashed') != (k < m['numEvents']):
            out.append(f'crash point: real outcome {r["outcome"]}, model has {m["numEvents"]} events, k={k}')
    else:
        if ev_r != ev_m:
            out.append(f'events: real {ev_r} vs model {ev_m}')
        if bool(r['injected']) != bool(m['injected']):
            out.append(f'fault injected: real {r["injected"]} model {m["injected"]}')
    if r['tree'] != m['tree']:
        diff = {p: (r['tree'].get(p), m['tree'].get(p)) for p in set(r['tree']) | set(m['tree']) if r['tree'].get(p) != m['tree'].get(p)}
        out.append(f'tree (real, model): {diff}')
    for key, mk in (('eff', 'eff'), ('effRerun', 'effRerun')):
        re_ = {'rules': r[key]['rules'], 'data': r[key]['data']}
        if re_ != m[mk]:
            out.append(f'{key}: real {re_} vs model {m[mk]}')
    if r['rerunTree'] != m['rerunTree']:
        diff = {p: (r['rerunTree'].get(p), m['rerunTree'].get(p)) for p in set(r['rerunTree']) | set(m['rerunTree'])
                if r['rerunTree'].get(p) != m['rerunTree'].get(p)}
        out.append(f'tree after re-run (real, model): {diff}')
    if mode == 'fault' and c['program'] == 'upMigrate' and r['outcome'] == 'ok':
        run_r = r.get('run')
        names = {'error': 'error', 'none': []}
        rm = m['run']
        exp = 'error' if rm == 'error' else ([] if rm == 'none' else
              (['Costco>Shopping', 'Netflix>Subscriptions'] if rm in ('csv:orig:csv', 'rules:migrated:csv') else None))
        if exp is not None and (c.get('shape') or {}).get('csv') == 'withRules' and run_r != exp:
            out.append(f'run rules: real {run_r} vs model {rm}')
    return out


def run_cases(cases):
    model = common.Driver().batch([model_case(c) for c in cases])
    with fsmon.Pool(16) as pool:
        real = pool.map(cases)
    return model, real


def run(ctx):
    lo = common.lean_phase(ctx, 'TallyVerif.Props.C15', regen_fn=regen.regen_fs_steps)
    drv = common.Driver()

    # ---- replay
    if ctx.replay:
        rp = json.loads(common.read(ctx.replay))
        ce = rp.get('counterexample') or {}
        if 'case' not in ce:
            print(f'[{ctx.prop}] replay file carries no counterexample (broken-obligation replay): re-running the full check')
            ctx.replay = None
            return run(ctx)
        with fsmon.Pool(1) as pool:
            r = pool.map([ce['case']])[0]
        fails = [f for f in oracle(ce['case'], r) if f['class'] == ce.get('class')] or oracle(ce['case'], r)
        print(f'[{ctx.prop}] replay: {"still fails" if fails else "passes now"}')
        common.conclude(ctx, fails, classify=classify, required=REQUIRED)
        return ctx.finish(extra_trusted=TRUSTED)

    corr_fail, prop_fail = [], []
    stats = {'crash': 0, 'fault': 0, 'inflight': 0, 'by_prog': {}, 'unsafe_model': 0, 'unsafe_real': 0}
    nontriv = set()
    variant = {}
    try:
        cases, variant = enumerate_cases(drv, PROGS, ctx.rng, ctx.quick)
        model, real = run_cases(cases)
        for c, m, r in zip(cases, model, real):
            if 'harness_error' in r or 'err' in m:
                corr_fail.append({'case': c, 'disagreement': [str(r.get('harness_error') or m.get('err')), str(r.get('traceback'))[-600:]]})
                continue
            stats[c['inject']['mode']] += 1
            stats['by_prog'][c['program']] = stats['by_prog'].get(c['program'], 0) + 1
            if c['inject'].get('partial') in ('empty', 'half'):
                stats['inflight'] += 1
            d = compare(c, m, r)
            fs = oracle(c, r)
            safe_real = not fs
            model_safe = m['safe'] and m['runOk']
            if safe_real != model_safe:
                d.append(f'Safe verdict: oracle on the real tree says {"safe" if safe_real else [f["class"] for f in fs]}, model says safe={m["safe"]} runOk={m["runOk"]}')
            if d:
                corr_fail.append({'case': c, 'disagreement': d})
            prop_fail.extend(fs)
            stats['unsafe_model'] += 0 if model_safe else 1
            stats['unsafe_real'] += 0 if safe_real else 1
            if r['tree'] != r['tree0'] and (r['injected'] or c['inject']['mode'] == 'crash'):
                nontriv.add(json.dumps([c['program'], r['tree'], r['eff']], sort_keys=True))
        ctx.sample({'case': cases[len(cases) // 3], 'model_tree': model[len(cases) // 3]['tree'], 'real_tree': real[len(cases) // 3].get('tree')})
    except Exception as e:                                               # noqa
        corr_fail.append({'driver_or_pool_error': repr(e)[:600]})
        cases = []
    ctx.obligation('correspondence:real-migration-under-injector-vs-Fs.crashAt/faultAt', 'correspondence', not corr_fail,
                   cases=len(cases), error=json.dumps(corr_fail[0], default=str)[:1800] if corr_fail else None)
    ctx.obligation('translator:detected-variant-is-modelled', 'translator',
                   bool(variant.get('csvDetected') and variant.get('layoutDetected') and variant.get('initConfigOk') and variant.get('cmdInitOk')),
                   error=None if variant.get('csvDetected') else f'call order extracted from the source matches no modelled variant: {variant}')
    if corr_fail:
        ctx.notes['correspondence_failures'] = len(corr_fail)
        ctx.notes['correspondence_examples'] = corr_fail[:3]
    ctx.notes['variant_detected'] = variant
    ctx.notes['stats'] = stats
    ctx.cov.update(evaluations=len(cases) * 5, distinct_nontrivial=len(nontriv), traces_validated_against_impl=len(cases),
                   rule='one case = (command ∈ {up --migrate, init, update --yes}, budget shape, event index k, crash with in-flight '
                        'file empty/half/full | OSError at event k); all k of every selected shape are enumerated, never sampled '
                        '(quick: every shape on which up --migrate migrates, 29+ init shapes, all 32 layout shapes; thorough: all '
                        '480 + 32 shapes); 5 runs of real code per case (baseline, injected run, up, re-run, up); non-trivial = '
                        'distinct (tree, effective rules) reached with the tree changed')

    def search():
        # bigger budget, implementation-only oracle: every shape, every k
        try:
            import random
            cs, _ = enumerate_cases(drv, PROGS, random.Random(ctx.seed + 7), False)
        except Exception:                                               # noqa
            return []
        with fsmon.Pool(16) as pool:
            rs = pool.map(cs)
        out = []
        for c, r in zip(cs, rs):
            if 'harness_error' not in r:
                out.extend(oracle(c, r))
        return out

    # prefer the smallest witness per class: fewest events, plain shapes first
    order = {'stranded': 0, 'content-lost': 1, 'not-recoverable-by-rerun': 2, 'run-continued-without-rules': 3}
    prop_fail.sort(key=lambda f: (order.get(f['class'], 9), f['program'] != 'upMigrate', sum(1 for v in f['shape'].values() if v is True),
                                  f['inject']['mode'] != 'crash', f['inject']['k']))
    common.conclude(ctx, prop_fail, classify=classify, search=search, required=REQUIRED)
    return ctx.finish(extra_trusted=TRUSTED)


TRUSTED = [
    'PARTIAL: process death between Python-level file-system calls, torn in-flight files (none/half/all of what was written; '
    'whole write() calls for the two-call settings append) and single-call OSErrors are covered exhaustively; fsync/durability, '
    'power-loss reordering and a tear inside the second write() of the settings append are NOT modelled',
    'os.rename/os.replace/shutil.move (same file system) are atomic; completed calls are durable',
    'harness/fsmon.py injector (wrappers of builtins.open, shutil.move, os.makedirs, os.rename, os.replace) and content recogniser',
    'C14 (a complete CSV conversion classifies like the CSV) for the `≃` of rule sources; the harness uses CSV rules from the faithful class',
    'budget contents are symbolic in the theorems (one opaque symbol per user file; the model is polymorphic in the content type); '
    'the step from the free assignment to arbitrary contents is parametricity, not mechanised',
]
