"""C19 — every rule that `tally discover` suggests matches the transaction it was suggested for.

Proof: Props/C19.lean over Model/Discover.lean (`Impl.suggestPattern`, `Impl.suggestMerchantName`, `Impl.suggestRule`,
`pyStrLit`, `containsCI`; `Fixed.*` = the pipeline with notes/fix_D19.diff applied): the suggested rule text loads
(through the C17 model of the rules parser), the decoded literal is computed in closed form, the suggestion matches on
`Plain` descriptions, kernel-checked counterexamples for D19a / D19b, and for the repaired pipeline the full statement
(`Fixed.suggestion_matches`: the description contains a member of the language of the emitted regex).
Tie (correspondence, compiled model `tvdrv` op `discover`):
  * suggest_pattern / suggest_merchant_name / suggest_merchants_rule (in-process) against `Impl.*`; a tree that carries
    the repair is accepted when it agrees with `Fixed.*` instead (DESIGN §2.7 item 4);
  * CPython's string-literal decoding, `contains` and the rules loader against `pyStrLit` / `containsCI` /
    `Impl.parseRulesFile` on the model's own rule text;
  * CPython's `re` against the model's reading (`langSearch`) of the regex the repaired pipeline emits;
  * tables: white space (str.isspace = `\\s` = str.split/strip), upper() idempotent, per-character case data shipped
    with each case.
Oracle on the implementation alone (the property itself): for each description take the rule text discover proposes
(functions in-process; `python -m tally discover --format json` and the text format in a subprocess on a temp budget),
give it a category, load it with parse_merchants, and require that it matches that very description; appending the
suggested rules and classifying again must strictly shrink the Unknown list.
"""
import ast
import csv
import datetime
import io
import json
import os
import re
import shutil
import subprocess
import sys
import tempfile
import warnings

from .. import common

CAT, SUB = 'Food', 'Coffee Shops'

# ------------------------------------------------------------------ pools

WITNESSES = ['STARBUCKS STORE 12345 SEATTLE WA', 'NETFLIX.COM', 'SHOP #12 MAIN', 'AMZN MKTP US', 'SHELL OIL 574496858',
             'SQ *JOE"S', 'A\\B', 'COSTCO #123', 'NETFLIX', 'STRAßE 12 MAIN', 'Joe"s Diner', 'TST* Blue Bottle Coffee',
             'SHOP #12MAIN', 'WALGREENS #1234 SEATTLE WA', 'a\nb', 'FOO WA\n', 'X 12345 Y\n', 'X 12345\nY', 'X #5\nY Z',
             'PAYPAL *SPOTIFY', 'APLPAY SQ *COFFEE', 'SP SP X', 'ACH DES:PAYROLL ID:123', 'CHECK 1234', 'X  WA', ' #1', 'SQ *',
             'r"', '\\', '\\"', 'a\\s*b', '(', 'UBER *EATS PENDING', "TRADER JOE'S #552", 'Wal-Mart #3', 'x #1 #2 y',
             'ǆungla bar', 'ıd:5 x ıD:9', 'ﬁsh MARKET', 'ŉ', '٣٤٥٦٧ x ٣٤٥٦٧', 'A ٣٤٥٦٧', 'K KK', 'ſp foo', 'caf\u00e9 12',
             'A\u00a0B', 'A\u2003#7 B', 'A\x1cB', 'A\x0bWA']
MERCHANTS = ['STARBUCKS', 'Netflix', 'NETFLIX.COM', 'AMZN Mktp', 'Whole Foods', 'SHELL OIL', "TRADER JOE'S", 'Costco', 'UBER',
             'UBER *EATS', 'WAL-MART', 'AT&T', "McDonald's", '7-ELEVEN', 'H&M', 'CVS/PHARMACY', 'Target', 'KROGER', 'LYFT',
             'DELTA AIR', 'A', 'X1', 'SHOP', 'Joe"s Diner', 'C:\\FEE', 'WWW.ETSY.COM', 'TOYS(R)US', 'WHAT?', 'A+B', '$5 STORE',
             'Q[1]', 'a|b', '{x}', '^top', 'Café Zoë', 'STRAßE', 'ǆungla', 'İstanbul', '№5', '東京 STORE', 'ﬁsh', 'ŉ', 'ıD', 'ſP']
WORDS = ['STORE', 'MAIN', 'ST', 'COFFEE', 'MARKET', 'Inc', 'LLC', 'ONLINE', 'PMT', 'CA', 'WA', 'US', 'NY', 'tx', 'SEATTLE',
         'PORTLAND', 'DES:PAYMENT', 'ID:1234', 'des:x', 'id:', '12', '123', '1234', '12345', '574496858', '98101', '#12', '#1234',
         '#', '#A1', '#7x', '*', '.', '...', 'A.B', '(x)', '"q"', "'", '\\', '\\s*', 'r"', 'x"', '٣٤٥٦٧', '٣', 'DES:', 'İD:x',
         'K', 'ß', 'é', '€5']
PREFIXES = ['SQ *', 'TST*', 'TST* ', 'PAYPAL *', 'APLPAY ', 'SP ', 'PP*', 'GOOGLE *', 'sq *', 'Tst*', 'aplpay ', 'SQ*', 'SQ  *',
            'ſQ *', 'Google *']
SEPS = [' ', ' ', ' ', ' ', '  ', '\t', ' \t ', '\u00a0', '\u2003', '\n', '\x1c', '\x0b', '']
ALPHA = list('ABCXYZabz019 \t#.*+?()[]{}|^$\\"\'-&/:,\n') + ['  ', 'é', 'ß', 'K', 'ı', '٣', '\u00a0', '中', 'ǆ', '\r', '\x1f', '\x7f']
STATES = ['WA', 'CA', 'ny', 'Tx', 'USA', 'W1']


def gen_desc(r):
    k = r.random()
    if k < 0.55:                                   # structured: [prefix] merchant words… [state]
        parts = []
        if r.random() < 0.3:
            parts.append(r.choice(PREFIXES))
            if r.random() < 0.2:
                parts.append(r.choice(PREFIXES))
        body = [r.choice(MERCHANTS)] + [r.choice(WORDS) for _ in range(r.choice([0, 0, 1, 1, 2, 3, 4]))]
        if r.random() < 0.3:
            body.append(r.choice(STATES))
        s = ''.join(parts)
        for i, w in enumerate(body):
            s += (r.choice(SEPS) if i else '') + w
        if r.random() < 0.08:
            s += r.choice(['\n', ' ', '\n\n', ' \n'])
        if r.random() < 0.05:
            s = r.choice([' ', '\t', '\n']) + s
        return s
    if k < 0.8:                                    # short strings over a hostile alphabet
        return ''.join(r.choice(ALPHA) for _ in range(r.choice([0, 1, 1, 2, 2, 3, 4, 5, 6, 8, 12])))
    s = gen_desc_struct_simple(r)                  # realistic, then one random edit
    p = r.randrange(len(s) + 1)
    return s[:p] + r.choice(ALPHA) + s[p + (1 if r.random() < 0.5 else 0):]


# what suggest_pattern escapes (each becomes backslash + character in the pattern), other punctuation statements carry, and the
# stuff of long processor descriptions: host names, billing paths, reference codes
META = list('.*+?^${}()|[]\\')
PUNCT = list("/-#&:,'_=@%")
LONG_WORDS = ['WWW', 'SHOP', 'EXAMPLE', 'COM', 'CO', 'UK', 'BILLING', 'HELP', 'MARKETPLACE', 'ONLINE', 'ORDERS', 'PAYMENTS', 'SUPPORT',
              'GOOGLE', 'CLOUD', 'PLATFORM', 'INTERNATIONAL', 'HOUSEOFPANCAKES', 'RESTAURANT', 'DIGITALOCEAN', 'SUBSCRIPTION', 'PAY',
              'Recurring', 'autopay', 'REF', 'INV', 'X', 'A1', 'B2B', '24', '7', '800', '5551234', 'STRAßE', 'Café', 'ǅ']
LONG_MIN, LONG_MAX = 40, 120


def gen_long_desc(r):
    """a long description (LONG_MIN..LONG_MAX characters) dense in escaped metacharacters and other punctuation, few blanks: the first
    three words — the part the pattern is made of — are long, so whatever depends on the LENGTH of the escaped, joined pattern
    (a cap, a wrap, a column) is exercised with a backslash, an escaped character or a joiner at any offset"""
    target = r.randrange(LONG_MIN, LONG_MAX + 1)
    s = r.choice(['', '', '', 'PAYPAL *', 'GOOGLE *', 'SQ *', 'TST* ', 'PP*'])
    p_meta = r.choice([0.25, 0.45, 0.7])
    p_space = r.choice([0.04, 0.12, 0.25])
    while len(s) < target:
        s += r.choice(LONG_WORDS) if r.random() < 0.8 else r.choice('XQZ') * r.randrange(1, 30)
        k = r.random()
        if k < p_meta:
            s += ''.join(r.choice(META) for _ in range(r.choice([1, 1, 1, 2, 3])))
        elif k < p_meta + 0.15:
            s += r.choice(PUNCT)
        elif k < p_meta + 0.15 + p_space:
            s += r.choice(SEPS[:8])
    return s[:target]


def offset_sweep(r, upto, every_meta=False):
    """for every offset n ≤ upto: a description with an escaped metacharacter at offset n of the pattern (its backslash sits at n),
    and one with the word boundary (the \\s* joiner) at n; the rest of the word has a random length"""
    out = []
    for n in range(upto + 1):
        for c in (META if every_meta else [r.choice(META)]):
            out.append('X' * n + c + 'Y' * r.randrange(0, 40))
            out.append('X' * (n // 2) + c + 'X' * (n - n // 2 - 2) + c + 'Y' * r.randrange(0, 40) if n >= 4 else c * (n + 1))
        if n:
            out.append('X' * n + ' ' + 'Y' * r.randrange(1, 40) + r.choice(['', ' Z', '.Z', ' (Z) W']))
            a = r.randrange(1, n + 1)
            out.append(('X' * (a - 1) + ' ' + 'W' * (n - a))[:n] + ' ' + 'Y' * r.randrange(1, 40) + ' TAIL END')
    return out


def gen_desc_struct_simple(r):
    s = r.choice(['', '', '', 'SQ *', 'TST* ', 'PAYPAL *']) + r.choice(MERCHANTS[:24])
    if r.random() < 0.5:
        s += ' ' + r.choice(['#' + str(r.randrange(1, 99999)), str(r.randrange(0, 10 ** r.choice([3, 4, 5, 9]))), 'STORE', 'MARKET'])
    if r.random() < 0.5:
        s += ' ' + r.choice(['SEATTLE', 'PORTLAND', 'SAN JOSE', 'MAIN ST'])
    if r.random() < 0.5:
        s += ' ' + r.choice(STATES[:2])
    return s


def exhaustive_small():
    """every string of length ≤ 3 over a small alphabet that exercises each rule of the pipeline, + 4-grams of a tiny one"""
    import itertools
    a = ['A', ' ', '#', '1', '.', '\\', '"', '\n']
    out = ['']
    for n in (1, 2, 3, 4):
        out += [''.join(t) for t in itertools.product(a, repeat=n)]
    b = ['W', ' ', '1', '#']
    for n in (5, 6):
        out += [''.join(t) for t in itertools.product(b, repeat=n)]
    return out


# ------------------------------------------------------------------ CPython's character data (the model's Oracles)

_CH = {}


def char_row(c):
    if c not in _CH:
        fold = None
        for k in 'ABCDEFGHIJKLMNOPQRSTUVWXYZ':
            if re.fullmatch(k, c, re.I):
                fold = ord(k)
                break
        cased = (c + 'a').title()[-1] == 'a'
        _CH[c] = [ord(c), cps(c.upper()), cps(c.lower()), cps(c.title()), cased, bool(re.fullmatch(r'\d', c)), fold]
    return _CH[c]


_REI = {}


def rei_compatible(c):
    """does re.IGNORECASE equate the character with its own str.upper()?"""
    if c not in _REI:
        try:
            _REI[c] = bool(re.compile(re.escape(c.upper()), re.I).fullmatch(c))
        except re.error:
            _REI[c] = False
    return _REI[c]


def special_casing(d):
    return any(ord(c) >= 128 and not rei_compatible(c) for c in d)


def upper_keep(d):
    """upper-casing of the full repair: characters whose upper-case form is longer than one character are kept"""
    return ''.join(c if len(c.upper()) > 1 else c.upper() for c in d)


def cps(s):
    return [ord(c) for c in s]


def uncps(l):
    return None if l is None else ''.join(map(chr, l))


# ------------------------------------------------------------------ the implementation

def impl_suggest(d, tags=()):
    from tally.commands import discover as D
    p = D.suggest_pattern(d)
    m = D.suggest_merchant_name(d)
    rule = D.suggest_merchants_rule(m, p, tags=list(tags))
    return p, m, rule


def fill(rule, cat=CAT, sub=SUB):
    """'once given a category': the two placeholder lines of the proposed block are filled in"""
    old = '\ncategory: CATEGORY\nsubcategory: SUBCATEGORY'
    i = rule.rfind(old)
    if i < 0:
        return rule
    return rule[:i] + f'\ncategory: {cat}\nsubcategory: {sub}' + rule[i + len(old):]


def match_line(rule):
    for ln in rule.split('\n'):
        if ln.strip().lower().startswith('match:'):
            return ln.split(':', 1)[1].strip()
    return ''


def regex_reading(p, text, flags=re.I):
    try:
        return bool(re.compile(p, flags).search(text))
    except re.error:
        return False


def mid_store_number(d):
    u = d.upper()
    return any(u[m.end():].strip() != '' for m in re.finditer(r'\s+#\d+', u))


def failure_class(d, p, expr):
    """why does the loaded suggestion not match?  (input class; used for the narrow known-finding classifiers)"""
    wrapped_in_contains = expr.startswith('contains(')
    regex_syntax = bool(re.search(r'\\[^\\]', p.replace('\\\\', '')))
    if wrapped_in_contains and regex_syntax and regex_reading(p, d.upper()):
        return 'nomatch:contains-wraps-regex-syntax'
    if (not regex_reading(p, d.upper()) and mid_store_number(d)
            and regex_reading(p, re.sub(r'\s+#\d+', '', d.upper()))):         # explained by the deletion, by nothing else
        return 'nomatch:store-number-deleted-from-middle'
    if expr.startswith('regex(') and special_casing(d) and regex_reading(p, d.upper()):
        return 'nomatch:regex-ignorecase-vs-special-casing'
    return 'nomatch:other'


def check_rule(d, rule_text, p=None, path='functions'):
    """THE PROPERTY on one proposed rule text. -> None | failure dict"""
    from tally import merchant_engine as ME
    expr = match_line(rule_text)
    if p is None:
        m = re.match(r'^(?:contains|regex)\(r?"(.*)"\)$', expr, re.S)
        p = m.group(1).replace('\\"', '"') if m else expr
    base = {'description': d, 'path': path, 'suggested_rule': rule_text, 'pattern': p,
            'required': f'the suggested rule, given category {CAT!r}, loads and matches the description it was suggested for'}
    filled = fill(rule_text)
    try:
        with warnings.catch_warnings():
            warnings.simplefilter('ignore')
            eng = ME.parse_merchants(filled)
    except Exception as e:                                               # noqa
        cls = 'load:' + ('unescaped-quote-in-text-format' if path == 'cli-text' and '"' in p else
                         'nul' if '\x00' in d else type(e).__name__)
        return dict(base, **{'class': cls, 'observed': f'{type(e).__name__}: {e}'[:300]})
    if len(eng.rules) != 1:
        return dict(base, **{'class': 'load:not-one-rule', 'observed': f'{len(eng.rules)} rules'})
    try:
        res = eng.match({'description': d, 'amount': 12.34, 'date': datetime.date(2025, 1, 15)})
        ok = bool(res.matched) and res.category == CAT
        obs = f'matched={res.matched} category={res.category!r}'
    except Exception as e:                                               # noqa
        ok, obs = False, f'{type(e).__name__}: {e}'[:300]
    if ok:
        return None
    return dict(base, **{'class': failure_class(d, p, expr), 'observed': obs})


def oracle_one(d, tags=()):
    p, m, rule = impl_suggest(d, tags)
    return check_rule(d, rule, p)


def oracle_loop(batch):
    """discover → write → re-run: the Unknown list must strictly shrink. -> (failure | None, per-description failures)"""
    from tally import merchant_engine as ME
    fails, rules = [], []
    for d in batch:
        p, m, rule = impl_suggest(d)
        f = check_rule(d, rule, p)
        if f:
            fails.append(f)
        rules.append(fill(rule))
    try:
        with warnings.catch_warnings():
            warnings.simplefilter('ignore')
            eng = ME.parse_merchants('\n\n'.join(rules) + '\n')
        after = [d for d in batch if not eng.match({'description': d, 'amount': 5.0, 'date': datetime.date(2025, 1, 15)}).matched]
    except Exception:                                                    # noqa
        after = list(batch)
    if batch and len(after) >= len(batch):
        classes = sorted({f['class'] for f in fails}) or ['other']
        return ({'class': 'loop:' + (classes[0].split(':', 1)[1] if len(classes) == 1 else 'mixed'), 'path': 'functions',
                 'batch': batch, 'description': batch[0], 'member_classes': classes, 'observed': f'Unknown before {len(batch)}, after {len(after)}',
                 'required': 'appending the suggested rules strictly shrinks the Unknown list'}, fails)
    return None, fails


# ------------------------------------------------------------------ command level

SETTINGS = ('year: 2025\ndata_sources:\n  - name: Bank\n    file: data/bank.csv\n'
            '    format: "{date:%Y-%m-%d},{description},{amount}"\nmerchants_file: config/merchants.rules\n')
ANSI = re.compile(r'\x1b\[[0-9;]*m')


def tally(d, *args):
    env = dict(os.environ)
    env['PYTHONPATH'] = os.path.join(common.REPO, 'src')
    env['NO_COLOR'] = '1'
    env['PYTHONDONTWRITEBYTECODE'] = '1'
    env['PYTHONIOENCODING'] = 'utf-8'
    p = subprocess.run([sys.executable, '-W', 'ignore', '-m', 'tally'] + list(args), cwd=d, env=env, stdin=subprocess.DEVNULL,
                       stdout=subprocess.PIPE, stderr=subprocess.PIPE, text=True, encoding='utf-8', timeout=120)
    return p.returncode, p.stdout, p.stderr


def cli_budget(descs, label):
    """one discover → write → discover round on a temp budget. -> (failures, runs)"""
    fails, runs = [], 0
    d = tempfile.mkdtemp(prefix='tally-c19-')
    try:
        os.makedirs(os.path.join(d, 'config'))
        os.makedirs(os.path.join(d, 'data'))
        buf = io.StringIO()
        w = csv.writer(buf, lineterminator='\n')
        w.writerow(['Date', 'Description', 'Amount'])
        for i, x in enumerate(descs):
            w.writerow([f'2025-01-{i % 28 + 1:02d}', x, f'{10 + i}.50'])
        for rel, txt in (('config/settings.yaml', SETTINGS), ('data/bank.csv', buf.getvalue()), ('config/merchants.rules', '')):
            with open(os.path.join(d, rel), 'w', encoding='utf-8', newline='') as f:
                f.write(txt)
        rc, out, err = tally(d, 'discover', 'config', '--format', 'json', '--limit', '0')
        runs += 1
        try:
            sug = json.loads(out)
        except Exception:                                                # noqa
            return [{'class': 'cli:discover-json-unreadable', 'path': 'cli-json', 'descriptions': descs, 'description': descs[0],
                     'observed': f'exit {rc}: {out[:300]} {err[:300]}', 'required': 'JSON list of suggestions'}], runs
        seen = {s.get('raw_description') for s in sug}
        missing = [x for x in descs if x not in seen]
        if missing:
            fails.append({'class': 'cli:description-without-suggestion', 'path': 'cli-json', 'descriptions': descs,
                          'description': missing[0], 'observed': sorted(seen)[:5], 'required': 'one suggestion per Unknown description'})
        rules = []
        for s in sug:
            f = check_rule(s['raw_description'], s['suggested_rule'], path='cli-json')
            if f:
                f['descriptions'] = descs
                fails.append(f)
            rules.append(fill(s['suggested_rule']))
        # the human-readable format proposes rule blocks too
        rc, out, err = tally(d, 'discover', 'config', '--limit', '0')
        runs += 1
        blocks = re.findall(r'^   (\[.*\])\n   (match: .*)\n   (category: CATEGORY)\n   (subcategory: SUBCATEGORY)$', ANSI.sub('', out), re.M)
        heads = re.findall(r'^\d+\. (.*)$', ANSI.sub('', out), re.M)
        by_head = {}
        for x in descs:                                                  # a heading shared by two descriptions identifies neither
            by_head[x[:60]] = x if x[:60] not in by_head else None
        if len(blocks) != len(sug) or len(heads) != len(blocks):
            fails.append({'class': 'cli:text-format-unreadable', 'path': 'cli-text', 'descriptions': descs, 'description': descs[0],
                          'observed': f'{len(blocks)} rule blocks, {len(heads)} headings for {len(sug)} suggestions',
                          'required': 'one rule block per suggestion'})
        else:
            for h, b in zip(heads, blocks):
                x = by_head.get(h)
                if x is None:
                    continue
                f = check_rule(x, '\n'.join(b), path='cli-text')
                if f:
                    f['descriptions'] = descs
                    fails.append(f)
        with open(os.path.join(d, 'config/merchants.rules'), 'w', encoding='utf-8', newline='') as f:
            f.write('\n\n'.join(rules) + '\n')
        rc, out2, err2 = tally(d, 'discover', 'config', '--format', 'json', '--limit', '0')
        runs += 1
        if 'No unknown transactions found' in out2:
            after = []
        else:
            try:
                after = [s['raw_description'] for s in json.loads(out2)]
            except Exception:                                            # noqa
                after = None
        if after is None or len(after) >= len(sug):
            member = sorted({f['class'] for f in fails if f['class'].startswith('nomatch:')})
            fails.append({'class': 'loop:' + (member[0].split(':', 1)[1] if len(member) == 1 else 'mixed' if member else 'other'),
                          'path': 'cli-json', 'descriptions': descs, 'description': descs[0], 'member_classes': member,
                          'observed': f'Unknown before {len(sug)}, after {None if after is None else len(after)}; exit {rc}; {err2[:300]}',
                          'required': 'appending the suggested rules strictly shrinks the Unknown list'})
        return fails, runs
    finally:
        shutil.rmtree(d, ignore_errors=True)


# ------------------------------------------------------------------ correspondence

def driver_cases(descs, tagsets):
    out = []
    for d, tags in zip(descs, tagsets):
        out.append({'op': 'discover', 'desc': cps(d), 'chars': [char_row(c) for c in sorted(set(d)) if ord(c) >= 128],
                    'tags': [cps(t) for t in tags], 'cat': cps(CAT), 'sub': cps(SUB)})
    return out


def py_literal(body):
    """CPython's reading of "<body>" as an expression"""
    try:
        with warnings.catch_warnings():
            warnings.simplefilter('ignore')
            v = ast.literal_eval('"' + body + '"')
        return v if isinstance(v, str) else None
    except Exception:                                                    # noqa
        return None


def py_parse(text):
    from .c17 import impl_parse
    with warnings.catch_warnings():
        warnings.simplefilter('ignore')
        return impl_parse('m', text)


def correspond(descs, tagsets, stats):
    """-> (suggestion disagreements, reader disagreements, regex-reading disagreements, model answers)"""
    from .c17 import model_canon
    model = common.Driver().batch(driver_cases(descs, tagsets))
    a_fail, b_fail, c_fail = [], [], []
    for d, tags, m in zip(descs, tagsets, model):
        if 'pattern' not in m:
            a_fail.append({'description': d, 'driver': m})
            continue
        mp, mn, mfp = uncps(m['pattern']), uncps(m['name']), uncps(m['fpattern'])
        mrule = '\n'.join(uncps(x) for x in m['rule'])
        mlines = [uncps(x) for x in m['rule']]
        mfrule = '\n'.join([mlines[0], 'match: ' + uncps(m['fexpr'])] + mlines[2:])
        p, n, rule = impl_suggest(d, tags)
        if m.get('miss'):
            a_fail.append({'description': d, 'table_miss': True})
            continue
        mkp = uncps(m['kpattern'])
        mkrule = '\n'.join([mlines[0], 'match: ' + uncps(m['kexpr'])] + mlines[2:])
        follows = [k for k, (pp, rr) in (('impl', (mp, mrule)), ('fixed', (mfp, mfrule)), ('fixed_keep', (mkp, mkrule)))
                   if (p, rule) == (pp, rr)]
        if not follows or n != mn:
            a_fail.append({'description': d, 'tags': list(tags), 'implementation': {'pattern': p, 'name': n, 'rule': rule},
                           'model': {'pattern': mp, 'name': mn, 'rule': mrule},
                           'model_of_repaired_code': {'pattern': mfp, 'rule': mfrule},
                           'model_of_repaired_code_keeping_long_uppercase': {'pattern': mkp, 'rule': mkrule}})
        for k in follows:
            stats['follows_' + k] += 1
        # ---- the readers (CPython tokenizer, contains, the rules loader) on the model's own text
        body = mp.replace('"', '\\"')
        lit = py_literal(body)
        want_match = lit is not None and lit.upper() in d.upper()
        problems = []
        if uncps(m['literal']) != lit:
            problems.append(('literal', uncps(m['literal']), lit))
        if m['matches'] != want_match:
            problems.append(('matches', m['matches'], want_match))
        for key, lines_expr in (('parse', 'contains("' + body + '")'), ('fparse', uncps(m['fexpr']))):
            filled = '\n'.join([mlines[0], 'match: ' + lines_expr, f'category: {CAT}', f'subcategory: {SUB}'] + mlines[4:])
            got = py_parse(filled)
            if 'err' in got and '\x00' in d:
                stats['unmodelled_nul'] += 1
                continue
            mc = model_canon('m', m[key]) if ('ok' in m[key] or 'err' in m[key]) else {'driver': m[key]}
            if mc != got:
                problems.append((key, mc, got))
        if m['plain'] and not m['matches']:
            problems.append(('theorem-instance: Plain but the model does not match', d, None))
        if problems:
            b_fail.append({'description': d, 'problems': problems})
        # ---- the regex the repaired pipeline emits, read by CPython's re and by the model
        for var, subject in (('f', d.upper()), ('k', upper_keep(d))):
            expr = uncps(m[var + 'expr'])
            words = [uncps(w) for w in m[var + 'words']]
            if m[var + 'regex']:
                try:
                    with warnings.catch_warnings():
                        warnings.simplefilter('ignore')
                        rx = ast.literal_eval(expr[len('regex('):-1])
                except Exception:                                        # noqa
                    rx = None
                got = rx is not None and regex_reading(rx, subject, 0)
                gi = rx is not None and regex_reading(rx, d, re.I)
                ignorecase_ok = gi == m[var + 'lang'] or (var == 'f' and special_casing(d))
                if (rx is not None) != m[var + 'rawok'] or got != m[var + 'lang'] or not ignorecase_ok:
                    c_fail.append({'description': d, 'variant': var, 'regex': rx, 'words': words, 'model_rawok': m[var + 'rawok'],
                                   'model_langSearch': m[var + 'lang'], 're.search(upper-cased)': got, 're.search(IGNORECASE)': gi})
                stats['fixed_regex'] += int(var == 'f')
                stats['fixed_regex_ignorecase_differs'] += int(var == 'f' and gi != got)
            else:
                fl = py_literal(uncps(m[var + 'pattern']).replace('"', '\\"'))
                got = fl is not None and fl.upper() in d.upper()
                if got != m[var + 'contains']:
                    c_fail.append({'description': d, 'variant': var, 'literal': fl, 'model_contains': m[var + 'contains'], 'python': got})
        stats['plain'] += int(m['plain'])
        stats['model_matches'] += int(m['matches'])
        stats['model_fixed_matches'] += int(m['flang'] if m['fregex'] else m['fcontains'])
        stats['model_fixed_keep_matches'] += int(m['klang'] if m['kregex'] else m['kcontains'])
    return a_fail, b_fail, c_fail, model


def table_checks(ctx):
    py_space = [c for c in range(0x110000) if chr(c).isspace()]
    re_space = [c for c in range(0x110000) if re.match(r'\s', chr(c))]
    split_space = [c for c in range(0x110000) if ('a' + chr(c) + 'b').split() != ['a' + chr(c) + 'b']]
    try:
        lean_space = common.Driver().batch([{'op': 'spacetable', 'hi': 0x110000}])[0].get('spaces')
    except Exception as e:                                               # noqa
        lean_space = str(e)[:200]
    ok = py_space == re_space == split_space == lean_space
    ctx.obligation('table:isSpace-vs-str.isspace/re.\\s/str.split', 'correspondence', ok, cases=0x110000,
                   error=None if ok else f'lean={str(lean_space)[:200]} python={py_space}')
    bad = [c for c in range(0x110000) if not (0xd800 <= c < 0xe000) and chr(c).upper().upper() != chr(c).upper()]
    ctx.obligation('law:str.upper-idempotent (hypothesis UpperIdem of suggestion_matches_partial)', 'correspondence', not bad,
                   cases=0x110000, error=None if not bad else f'code points {bad[:10]}')
    asc = [c for c in range(128) if chr(c).upper() != (chr(c - 32) if 97 <= c <= 122 else chr(c)) or
           chr(c).lower() != (chr(c + 32) if 65 <= c <= 90 else chr(c))]
    ctx.obligation('table:ascii-upper/lower', 'correspondence', not asc, cases=128, error=None if not asc else str(asc))


# ------------------------------------------------------------------ check

CLASS_TO_FINDING = {'nomatch:contains-wraps-regex-syntax': 'D19a', 'nomatch:store-number-deleted-from-middle': 'D19b',
                    'nomatch:regex-ignorecase-vs-special-casing': 'D19c', 'load:unescaped-quote-in-text-format': 'D19d'}


def classify(pf):
    """narrow classifiers of the (proposed) known findings: the path is always discover's own suggestion; the class names the
    input class and the reason, computed from the description and the emitted text alone.  A non-shrinking Unknown list is
    explained only if every failing member of that batch is (the members are reported on their own as well)."""
    c = pf.get('class', '')
    if c.startswith('loop:'):
        ids = [CLASS_TO_FINDING.get(m) for m in pf.get('member_classes') or []]
        return ids[0] if ids and all(ids) else None
    return CLASS_TO_FINDING.get(c)


def property_descs(raw):
    """what reaches discover from a statement: parse_generic_csv strips the cell and drops empty ones; NUL cannot be loaded"""
    out, seen = [], set()
    for d in raw:
        d = d.strip()
        if d and '\x00' not in d and d not in seen:
            seen.add(d)
            out.append(d)
    return out


def nontrivial(d, p):
    return len(d.split()) >= 2 or p != d.upper()


def run(ctx):
    warnings.simplefilter('ignore', SyntaxWarning)
    lo = common.lean_phase(ctx, 'TallyVerif.Props.C19')
    r = ctx.rng
    required = ('for every uncategorised description the rule text discover proposes loads and, given a category, matches that '
                'description; appending the suggested rules strictly shrinks the Unknown list')

    # ---- replay
    if ctx.replay:
        rp = json.loads(common.read(ctx.replay))
        ce = rp.get('counterexample') or {}
        if 'description' not in ce:
            print(f'[{ctx.prop}] replay file carries no counterexample (broken-obligation replay): re-running the full check')
            ctx.replay = None
            return run(ctx)
        fails = []
        if ce.get('path') in ('cli-json', 'cli-text') and ce.get('descriptions'):
            fs, _ = cli_budget(ce['descriptions'], 'replay')
            fails = [f for f in fs if f['class'] == ce.get('class')] or fs
        elif ce.get('batch'):
            f, _ = oracle_loop(ce['batch'])
            if f:
                fails.append(f)
        else:
            f = oracle_one(ce['description'], ce.get('tags') or ())
            if f:
                fails.append(f)
        print(f'[{ctx.prop}] replay: {"still fails" if fails else "passes now"}')
        common.conclude(ctx, fails, classify=classify, required=required)
        return ctx.finish()

    table_checks(ctx)
    n = 2500 if ctx.quick else 200000
    raw = list(WITNESSES) + [f['witness']['description'] for f in ctx.fixed_for() + ctx.findings_for()
                             if isinstance(f.get('witness'), dict) and 'description' in f['witness']]
    raw += [gen_desc(r) for _ in range(n)]
    long_raw = [gen_long_desc(r) for _ in range(300 if ctx.quick else 20000)]
    sweep_raw = offset_sweep(r, 100 if ctx.quick else 130, every_meta=not ctx.quick)
    raw += long_raw + sweep_raw
    if not ctx.quick:
        raw += exhaustive_small()
    pdescs = property_descs(raw)
    cdescs = list(dict.fromkeys(raw + pdescs))
    tagsets = [(['refund'] if i % 7 == 3 else ['refund', 'x y'] if i % 31 == 5 else []) for i in range(len(cdescs))]

    # ---- correspondence
    stats = {k: 0 for k in ('follows_impl', 'follows_fixed', 'follows_fixed_keep', 'plain', 'model_matches', 'model_fixed_matches', 'fixed_regex',
                            'fixed_regex_ignorecase_differs', 'unmodelled_nul', 'model_fixed_keep_matches')}
    try:
        a_fail, b_fail, c_fail, model = correspond(cdescs, tagsets, stats)
    except Exception as e:                                               # noqa
        a_fail, b_fail, c_fail, model = [{'driver_error': f'{type(e).__name__}: {e}'[:500]}], [], [], []
    ctx.obligation('correspondence:suggest_pattern/suggest_merchant_name/suggest_merchants_rule-vs-Impl.*(or Fixed.*)', 'correspondence',
                   not a_fail, cases=len(cdescs), error=json.dumps(a_fail[0], default=str)[:1500] if a_fail else None)
    ctx.obligation('correspondence:CPython-literal/contains/parse_merchants-vs-pyStrLit/containsCI/parseRulesFile', 'correspondence',
                   not b_fail, cases=len(cdescs), error=json.dumps(b_fail[0], default=str)[:1500] if b_fail else None)
    ctx.obligation('correspondence:re.search-vs-Fixed.langSearch (reading of the regex the repaired pipeline emits)', 'correspondence',
                   not c_fail, cases=stats['fixed_regex'], error=json.dumps(c_fail[0], default=str)[:1500] if c_fail else None)

    # ---- the property on the implementation
    prop_fail, evals = [], 0
    for d in pdescs:
        f = oracle_one(d, ['refund'] if len(d) % 5 == 0 else ())
        evals += 1
        if f:
            prop_fail.append(f)
    loops = 0
    for i in range(0, len(pdescs) - 7, 8 if not ctx.quick else 16):
        f, _ = oracle_loop(pdescs[i:i + r.choice([1, 2, 5, 8])])
        loops += 1
        if f:
            prop_fail.append(f)
    cli_runs = 0
    cli_pool = [d for d in pdescs if '\n' not in d and '\r' not in d]
    budgets = [WITNESSES[:3] + ['NETFLIX', 'COSTCO #123'], ['Joe"s Diner', 'SQ *JOE"S'], ['NETFLIX', 'Starbucks', 'A\\B']]
    for _ in range(2 if ctx.quick else 14):
        budgets.append(r.sample(cli_pool, min(len(cli_pool), r.choice([1, 3, 6, 12]))))
    budgets.append(r.sample(long_raw, 6) + r.sample(sweep_raw, 6))          # long descriptions through the command too
    # families: several Unknown descriptions of ONE merchant in one run (they share the suggested name, their tails - payment references,
    # store numbers in two spellings, departments, cities - differ): every listed description gets a rule that matches THAT description,
    # whatever the other descriptions of the run are and however they rank by spend (later lines are the bigger spenders)
    TAILS = ['DES:PAYROLL ID:123456', 'DES:EXPENSE ID:99', 'DES:REFUND', 'GAS 00112 TIGARD OR', '#112 GAS OR', 'STORE 12345 SEATTLE WA',
             'STORE 99 PORTLAND OR', 'PHARMACY #4 WA', 'MARKET', 'ONLINE PMT', '#7 MAIN ST', 'FUEL 574496858', '']
    for _ in range(2 if ctx.quick else 12):
        base = r.choice(['ACME CORP', 'COSTCO WHSE', 'SHELL OIL', 'KROGER', 'SQ *BLUE BOTTLE', 'WAL-MART', 'TARGET'])
        fam = [(base + ' ' + t).strip() for t in r.sample(TAILS, r.choice([2, 3, 4]))]
        if r.random() < 0.5:
            fam.reverse()
        budgets.append(fam + r.sample(cli_pool, min(len(cli_pool), r.choice([0, 2]))))
    for i, b in enumerate(budgets):
        b = property_descs(b)
        fs, k = cli_budget(b, f'budget{i}')
        cli_runs += k
        prop_fail.extend(fs)

    by_class = {}
    for f in prop_fail:
        by_class[f['class']] = by_class.get(f['class'], 0) + 1
    ctx.cov['evaluations'] = len(cdescs) + evals + loops + cli_runs
    ctx.cov['traces_validated_against_impl'] = len(cdescs)
    ctx.cov['distinct_nontrivial'] = sum(1 for d, m in zip(cdescs, model) if 'pattern' in m and nontrivial(d, uncps(m['pattern'])))
    ctx.cov['rule'] = ('descriptions: witnesses + structured ([processor prefix] merchant words… [store number / digits / state]; separators '
                       'incl. tabs, NBSP, newlines) + short strings over a hostile alphabet (regex metacharacters, quotes, backslash, '
                       'unicode with special casing) + realistic descriptions with one random edit; thorough: every string of length ≤ 4 '
                       'over {A,space,#,1,.,\\,",newline} and ≤ 6 over {W,space,1,#}; + long descriptions (' + str(len(long_raw)) + f' of {LONG_MIN}–{LONG_MAX} '
                       'characters: host names, billing paths, reference codes, dense in the characters the suggestion escapes and in / - # & :, few '
                       'blanks) + an offset sweep (' + str(len(sweep_raw)) + ' descriptions: an escaped metacharacter — alone and after an earlier escape — and '
                       'a word boundary at every offset 0…' + str(100 if ctx.quick else 130) + ' of the pattern), so that anything depending on the length of the '
                       'escaped, joined pattern meets a backslash / escaped character / joiner at every offset. non-trivial = at least two words or the suggested pattern '
                       'differs from the upper-cased description. The property oracle runs on stripped non-empty NUL-free descriptions '
                       '(what parse_generic_csv hands to discover)')
    ctx.notes['model_stats'] = stats
    ctx.notes['property_failures_by_class'] = by_class
    ctx.notes['property_descriptions'] = len(pdescs)
    ctx.notes['cli_runs'] = cli_runs
    pats = [uncps(m['pattern']) for m in model if 'pattern' in m]
    bs_at = {i for p in pats for i, c in enumerate(p) if c == '\\'}
    ctx.notes['pattern_lengths'] = {'max': max(map(len, pats), default=0), 'over_40': sum(len(p) > 40 for p in pats),
                                    'over_80': sum(len(p) > 80 for p in pats),
                                    'offsets_below_100_with_a_backslash': len([i for i in bs_at if i < 100]),
                                    'distinct_lengths': len(set(map(len, pats)))}
    for d, m in list(zip(cdescs, model))[len(WITNESSES)::max(1, len(cdescs) // 5)]:
        if 'pattern' in m:
            ctx.sample({'description': d, 'pattern': uncps(m['pattern']), 'name': uncps(m['name']), 'model_matches': m['matches'],
                        'plain': m['plain'], 'repaired_expr': uncps(m['fexpr'])})

    def search():
        out = []
        pool = offset_sweep(r, 200, every_meta=True)
        for i in range(20000 if ctx.quick else 100000):
            d = pool.pop() if pool and i % 2 else gen_long_desc(r) if i % 4 == 0 else gen_desc(r)
            f = oracle_one(d.strip() or 'X')
            ctx.cov['evaluations'] += 1
            if f and not ('\x00' in f['description']):
                out.append(f)
                if len([x for x in out if classify(x) is None]) >= 3:
                    break
        return out

    common.conclude(ctx, prop_fail, classify=classify, search=search, required=required)
    return ctx.finish(extra_trusted=[
        'hand model Model/Discover.lean of suggest_pattern / suggest_merchant_name / suggest_merchants_rule (each re.sub as a total function), '
        'tied by correspondence only',
        'CPython data for non-ASCII characters (upper/lower/title mapping, cased, \\d, IGNORECASE equivalence with an ASCII letter) are '
        'parameters of the model; the harness ships the real rows; Greek final-sigma context and NUL are outside the model',
        'pyStrLit: CPython string-literal decoding restricted to the escapes a suggestion can contain; containsCI = upper-case both, '
        'substring; Impl.parseRulesFile (C17 model) with expression validity as a parameter — all compared with CPython / tally on every case',
        'law UpperIdem (str.upper is idempotent), checked over all code points on every run',
        'repaired pipeline: "the regex w1\\s*w2\\s*w3 of escaped literals matches exactly the texts containing w1 ws* w2 ws* w3" '
        '(Fixed.langSearch) is compared with CPython re on every case; re.IGNORECASE is compared with upper-casing the subject on every '
        'description without special-casing characters',
        'command level: `python -m tally discover` (json + text formats) on a handful of temp budgets per run'])
