"""C03 — rule expressions are confined.

Proof: Props/C03.lean — `validate_iff` (accepted ⇔ only whitelisted node kinds anywhere in the tree,
for every tree), `whitelist_reviewed`, `capabilities_reviewed`, `dispatch_closed`, `string_methods_closed`,
`function_names_reviewed`: kernel-decided obligations over tables REGENERATED from expr_parser.py each run.
Tie: (a) `validate_ast` vs the model's walk on generic trees covering every Python expression node kind;
     (b) payload correspondence: classic sandbox escapes, every `dir()` attribute name × receiver shape,
         every call shape, random splices — outcome of the real loaders/evaluators vs the evaluator model.
Implementation-side monitor for every payload: `sys.addaudithook` (no import / open / exec / compile outside
ast.parse / os / subprocess / socket / ctypes events), result type in the closed set, no interpreter internals
in produced strings, transaction / rows / parsed AST deep-equal before and after.
"""
import ast
import copy
import datetime
import json
import re
import sys
import types

from .. import common, regen, exprs
from ..gen import rules as GR
from . import evalcorr, rules_common as RC

ALLOWED_RESULT_TYPES = (type(None), bool, int, float, str, datetime.date, datetime.timedelta, list, dict, types.GeneratorType,
                        bytes, complex, type(Ellipsis))
INTERNALS = ('<class ', '<function', '<built-in', '<module', '<bound method', '<method', ' object at 0x', '<frame', '<code ', '<slot wrapper')

_events = []
_armed = [False]
_inhook = [False]
FORBIDDEN_PREFIX = ('open', 'import', 'exec', 'compile', 'os.', 'subprocess.', 'socket.', 'ctypes.', 'shutil.', 'marshal.', 'pickle.',
                    'urllib.', 'code.__new__', 'function.__new__', 'builtins.input', 'sys.settrace', 'sys.setprofile',
                    'cpython.', 'pty.', 'tempfile.', 'webbrowser.', 'glob.', 'pathlib.', 'object.__getattr__', 'object.__setattr__',
                    'object.__delattr__', 'sys._getframe', 'sys._current_frames', 'gc.')


def _hook(event, args):
    if not _armed[0] or _inhook[0]:
        return
    if not event.startswith(FORBIDDEN_PREFIX):
        return
    _inhook[0] = True
    try:
        if event == 'compile':
            # ast.parse → compile(source, filename, 'eval', PyCF_ONLY_AST): legitimate iff called from parse_expression and never followed by exec
            f = sys._getframe(1)
            names = []
            while f is not None and len(names) < 12:
                names.append(f.f_code.co_name)
                f = f.f_back
            if 'parse_expression' in names and 'parse' in names:
                return
        _events.append(event)
    finally:
        _inhook[0] = False


_installed = [False]


def install_hook():
    if not _installed[0]:
        sys.addaudithook(_hook)
        _installed[0] = True


# ------------------------------------------------------------------ payloads

CLASSIC = [
    '().__class__.__mro__', '"".__class__.__mro__[1].__subclasses__()', 'description.__class__', 'description.__class__.__base__',
    'amount.__class__.__bases__', 'contains.__globals__', 'abs.__self__', 'round.__module__', '__import__("os")', '__import__("os").system("id")',
    'eval("1")', 'exec("x=1")', 'open("/etc/passwd")', 'open("/etc/passwd").read()', 'globals()', 'locals()', 'vars()', 'dir()',
    'getattr(description, "upper")', 'getattr(description, "__class__")', 'setattr(description, "x", 1)', 'type(description)',
    'type("X", (), {})', '__builtins__', '__builtins__["open"]', 'description.format(1)', 'description.format_map(1)',
    '"{0.__class__}".format(description)', '"%s" % description', '"%(a)s" % rows', 'f"{description}"', 'f"{description.__class__}"',
    'lambda: 1', '(lambda: 1)()', '[].__class__', '{}', '{1: 2}', '{1, 2}', '[1, 2]', '(1, 2)', '*rows', 'contains(*rows)',
    'contains(pattern="x")', 'contains(**rows)', 'description[0:2]', 'description[::-1]', 'rows[0:1]', '(__class__ := 1)',
    '(x := description).__class__', '[x.__class__ for x in rows]', '[x for x in ().__class__.__mro__]', 'any(x.__globals__ for x in rows)',
    'next(x for x in rows).__class__', 'rows[0].__class__', 'rows[0]["__class__"]', 'rows[0].keys()', 'rows[0].items', 'rows.append(1)',
    'rows.__len__()', 'description.__len__()', 'description.encode()', 'description.join(rows)', 'description.split()',
    'description.translate(rows)', 'description.__getattribute__("upper")', 'description.__dir__()', 'description.__reduce__()',
    'date.__class__', 'date.today()', 'date.replace(year=1)', 'date.strftime("%Y")', 'date.__reduce__()', 'amount.real', 'amount.hex()',
    'amount.as_integer_ratio()', 'amount.__add__(1)', 'contains.__call__("x")', 'contains.__self__', 'contains.__func__',
    'contains.__code__', 'txn.__dict__', 'txn.__class__', 'field.__class__', 'field.__dict__', 'field._fn_contains', 'txn.ctx',
    'self', 'self.ctx', 'self._scope', 'ctx', 'ctx.data_sources', '_scope', 'evaluator', 'expr_parser', 're', 're.compile("x")', 'ast',
    'ast.parse("1")', 'os', 'os.system("id")', 'sys', 'sys.modules', 'compile("1", "", "eval")', 'breakpoint()', 'input()', 'help()',
    'print(1)', 'exit()', 'quit()', 'copyright', 'credits', 'license', 'memoryview(b"x")', 'bytearray(1)', 'bytes(1)', 'object()',
    'super()', 'classmethod(abs)', 'property(abs)', 'staticmethod(abs)', 'iter(rows)', 'reversed(rows)', 'sorted(rows)', 'map(abs, rows)',
    'filter(abs, rows)', 'zip(rows, rows)', 'enumerate(rows)', 'range(3)', 'list(rows)', 'dict(rows)', 'set(rows)', 'tuple(rows)',
    'str(amount)', 'repr(amount)', 'int("1")', 'float("nan")', 'chr(65)', 'ord("A")', 'hash(1)', 'id(rows)', 'isinstance(1, int)',
    'issubclass(int, int)', 'callable(abs)', 'hasattr(1, "x")', 'delattr(rows, "x")', 'pow(2, 10)', '2 ** 10', '1 // 2', '1 | 2', '1 & 2',
    '1 ^ 2', '~1', '1 << 2', '+amount', 'amount is None', 'amount is not None', 'not amount', 'await x', 'yield 1', '(yield)', 'x = 1',
    'import os', 'del x', 'pass', '1; 2', '', ' ', '(', 'contains("x"', '"unterminated', 'x.y.z.w', 'a.b()', 'a().b', 'a[b](c)',
    'contains.__doc__', 'abs.__doc__', 'abs.__name__', 'abs.__qualname__', 'abs.__class__', '....__class__', '1j.__class__', 'b"x".decode()',
    'None.__class__', 'True.__class__', 'true.__class__', '"a".__add__("b")', '"a".__mod__(("b",))', '"{}".format', '"".join',
    'description.__init_subclass__()', 'description.__subclasshook__(1)', 'description.__sizeof__()', 'description.__format__("")',
    'description.__str__()', 'description.__repr__()', 'description.__hash__()', 'description.__eq__("x")', 'description.__contains__("x")',
    'description.__getitem__(0)', 'description.__iter__()', 'description.__mul__(2)', 'description.__getnewargs__()',
    'description.maketrans("a", "b")', 'description.casefold()', 'description.title()', 'description.capitalize()', 'description.swapcase()',
    'description.center(5)', 'description.count("a")', 'description.find("a")', 'description.index("a")', 'description.isalpha()',
    'description.lstrip()', 'description.rstrip()', 'description.partition(" ")', 'description.rsplit()', 'description.splitlines()',
    'description.zfill(5)', 'description.removeprefix("a")', 'description.expandtabs()', 'description.ljust(3)',
]

RECEIVERS = ['description', 'amount', 'date', 'source', 'rows', 'rows[0]', 'month', 'true', 'field.memo', 'txn.amount', '"lit"', '1', '1.5',
             'contains', 'abs', 'None', '[r for r in rows]', '(r for r in rows)', 'trim(description)', 'date - date', 'field', 'txn', 'nosuch']


def dir_names():
    names = set()
    import datetime as dt

    def gen():
        yield 1
    for obj in ('s', {'a': 1}, [1], 1.5, 1, dt.date(2025, 1, 1), dt.timedelta(1), abs, len, dir_names, type, gen(), None, True, b'x',
                'x'.upper, object(), types.SimpleNamespace()):
        names.update(dir(obj))
    names.update(['__globals__', '__code__', '__closure__', '__builtins__', '__subclasses__', '__mro__', '__bases__', '__base__', '__dict__',
                  '__module__', '__self__', '__func__', '__wrapped__', 'gi_frame', 'gi_code', 'f_globals', 'f_builtins', 'f_back', 'f_locals',
                  'cr_frame', 'tb_frame', 'func_globals', '__loader__', '__spec__', '__file__', '__path__', '__import__', 'ctx', '_scope',
                  'data_sources', 'variables', 'get_function', '_fn_contains', 'evaluate', '_eval_Call'])
    return sorted(names)


TEMPLATES = ['"{0.__class__}"', '"{0.__class__.__mro__}"', '"{0.__init__.__globals__}"', '"{.__class__}"', '"{0!r:>{1}}"', '"%s"', '"%(x)s"', '"%r"',
             '"__class__"', '"{}"', '"{description.__class__}"', '"\\\\g<0>"', '"(?P<x>.)(?P=x)"', '"$description"', '"${__class__}"']
PROBE_ARGS = ['description', 'amount', 'rows', 'rows[0]', 'date', 'contains', 'field', '[r for r in rows]', '(r for r in rows)', '"x"', '2']


def function_names():
    """Every function name the real evaluators resolve right now (so that a newly registered function is probed too)."""
    from tally import expr_parser as EP
    names = set(getattr(EP.TransactionContext, '_FUNCTION_NAMES', ()))
    names.update(n[4:] for n in dir(EP.TransactionContext) if n.startswith('_fn_'))
    try:
        names.update(EP.ExpressionContext([{'amount': 1.0, 'date': datetime.datetime(2025, 1, 1)}], 1).functions)
    except Exception:
        names.update(n[4:] for n in dir(EP.ExpressionContext) if n.startswith('_fn_'))
    names.update(['abs', 'round', 'len', 'sum', 'any', 'all', 'next', 'min', 'max', 'exists', 'list', 'str', 'int', 'float', 'sorted', 'format'])
    return sorted(names)


def function_probes(r, thorough):
    """every resolvable function × adversarial template strings in every argument position, beside ordinary operands"""
    out = []
    for fn in function_names():
        tpls = TEMPLATES if thorough else r.sample(TEMPLATES, 5)
        for t in tpls:
            a, b = r.choice(PROBE_ARGS), r.choice(PROBE_ARGS)
            out += [f'{fn}({t})', f'{fn}({t}, {a})', f'{fn}({a}, {t})', f'{fn}({t}, {a}, {b})', f'{fn}({a}, {t}, {b})']
    return out


def benign(r, txn, thorough):
    """ordinary, documented-style expressions: the monitor (AST / transaction / rows unchanged, repeatable) applies to them as well"""
    out = ['date >= "2025-01-01"', '"2025-01-15" == date', 'date < "2025-03-01" and date > "2024-12-31"', 'date != "2025-01-15"',
           '[r.item for r in rows if r.date == "2025-01-15"]', 'any(r.date >= "2025-01-01" for r in rows)', 'date - rows[0].date',
           'month == 1 and year == 2025', 'contains("UBER") and amount > 10', 'extract("(\\d+)")', 'split(" ", 0)', 'field.memo',
           'regex_replace(description, "\\s+", " ")', 'round(amount * 2, 1)', 'sum(r.amount for r in rows)', '(m := [r for r in rows]) and len(m) > 0',
           'next((r.item for r in rows if r.amount > 1), "none")', 'abs(amount) if amount < 0 else amount', 'source == "Amex" or location == "WA"']
    t = dict(txn)
    for _ in range(600 if thorough else 120):
        out.append(GR.gen_match(r, t, ('is_large',)))
    return out


def payloads(r, thorough):
    out = list(CLASSIC)
    names = dir_names()
    recs = RECEIVERS
    # every attribute name × every receiver shape: as attribute, as method call, as subscript key
    pick = names if thorough else r.sample(names, 120)
    for n in pick:
        for rc in (recs if thorough else r.sample(recs, 6)):
            out.append(f'{rc}.{n}')
            out.append(f'{rc}.{n}()')
        out.append(f'rows[0]["{n}"]')
        out.append(f'field.{n}')
        out.append(f'txn.{n}')
        out.append(f'{n}')
        out.append(f'{n}(description)')
    # random splices of classic payload fragments into valid expressions
    frags = ['.__class__', '.__mro__', '.__globals__', '.__subclasses__()', '.__dict__', '.__init__', '.__builtins__', '["__class__"]',
             '.gi_frame', '.f_back', '.f_globals', '.__self__', '.__func__', '.format(1)', '.__getattribute__("__class__")']
    bases = ['contains("x")', 'description', 'rows', '[r for r in rows]', '(r for r in rows)', 'next(r for r in rows)', 'rows[0]',
             'extract("(x)")', 'abs', 'trim', 'date', 'amount', '(m := rows)', 'trim(description)', 'any(r for r in rows)']
    for _ in range(3000 if thorough else 400):
        b = r.choice(bases)
        e = b + ''.join(r.choice(frags) for _ in range(r.choice([1, 1, 2, 3])))
        wrap = r.choice(['{}', 'trim({})', 'len({})', '[x for x in {}]', 'any(x for x in {})', '{} == 1', 'uppercase({})', 'exists({})',
                         '(y := {})', 'next(x for x in [{}] )' if False else 'contains({})', '{} if true else 0', 'not {}'])
        out.append(wrap.format(e))
    out += function_probes(r, thorough)
    return out


# every Python expression node kind, in a small snippet (for the validate correspondence)
KIND_SNIPPETS = ['a and b', 'a + b', '-a', 'not a', 'a < b', 'f(a)', 'a if b else c', 'a.b', 'a[b]', 'a[b:c]', 'a[b:c:d]', '[a]', '(a, b)', '{a}',
                 '{a: b}', '[x for x in y]', '{x for x in y}', '{x: x for x in y}', '(x for x in y)', 'lambda: a', 'f"{a}"', 'f"{a!r:>{b}}"',
                 '*a', 'f(*a)', 'f(**a)', 'f(k=a)', '(a := b)', 'await a', 'yield a', 'yield from a', 'a ** b', 'a // b', 'a | b', 'a & b',
                 'a ^ b', 'a << b', 'a >> b', 'a @ b', '~a', '+a', 'a is b', 'a is not b', 'a in b', 'a not in b', 'a == b != c', '1', '"s"',
                 'b"s"', 'None', '...', '1j', '[x async for x in y]', '[x for x in y if z for w in v]', 'a.b.c(d)[e].f', 'a or b or c',
                 'a - b', 'a * b', 'a / b', 'a % b', 'a > b >= c <= d', '(yield from a)', '(yield)']


def generic_tree(node):
    """Python AST → {"k": kind, "c": children} with children in ast.iter_child_nodes order (walker over _fields)."""
    kids = []
    for f in node._fields:
        v = getattr(node, f, None)
        if isinstance(v, ast.AST):
            kids.append(generic_tree(v))
        elif isinstance(v, list):
            for x in v:
                if isinstance(x, ast.AST):
                    kids.append(generic_tree(x))
    return {'k': type(node).__name__, 'c': kids}


class _Timeout(BaseException):
    pass


def _alarm(signum, frame):
    raise _Timeout()


def _bp(*a, **k):
    raise RuntimeError('breakpoint() reached: a debugger would have been started')


class Guard:
    """Monitor + containment around one payload: audit hook armed, stdin at EOF, stdout captured,
    breakpoint() neutralised, 10 s alarm."""
    def __enter__(self):
        import io
        import os
        import signal
        del _events[:]
        self.saved = (sys.stdin, sys.stdout, sys.breakpointhook)
        sys.stdin = open(os.devnull)
        sys.stdout = io.StringIO()
        sys.breakpointhook = _bp
        self.old_handler = signal.signal(signal.SIGALRM, _alarm)
        signal.alarm(10)
        self.problems = []
        _armed[0] = True
        return self

    def __exit__(self, et, ev, tb):
        import signal
        _armed[0] = False
        signal.alarm(0)
        signal.signal(signal.SIGALRM, self.old_handler)
        printed = sys.stdout.getvalue()
        try:
            sys.stdin.close()
        except Exception:
            pass
        sys.stdin, sys.stdout, sys.breakpointhook = self.saved
        if printed:
            self.problems.append('wrote to stdout: ' + printed[:60])
        if _events:
            self.problems.append('audit events: ' + ','.join(sorted(set(_events))))
        if et is _Timeout:
            self.problems.append('did not finish within 10 s (blocking call?)')
            return True
        return False


def observe(text, txn, rows):
    """Run one payload through the real loader + both evaluators under the monitor. Returns (outcome, problems)."""
    from tally import expr_parser as EP
    problems = []
    t0, r0 = copy.deepcopy(txn), copy.deepcopy(rows)
    outcome = {'err': 'py', 'cls': 'Timeout'}
    g = Guard()
    with g:
        try:
            tree = EP.parse_expression(text)
            dump0 = ast.dump(tree)
        except EP.ExpressionError:
            tree = None
            outcome = {'load': 'rejected'}
        except (RecursionError, ValueError, MemoryError, OverflowError) as e:
            tree = None
            outcome = {'load': 'rejected', 'via': type(e).__name__}
        except Exception as e:
            tree = None
            outcome = {'load': 'rejected'}
            problems.append(f'loader raised {type(e).__name__}')
        if tree is not None:
            try:
                v = EP.evaluate_transaction(text, txn, None, rows)
                outcome = {'ok': exprs.val_json(v)}
                if not isinstance(v, ALLOWED_RESULT_TYPES):
                    problems.append(f'result of type {type(v).__name__}')
                s = v if isinstance(v, str) else (repr(v) if isinstance(v, (list, dict)) else '')
                if any(m in s for m in INTERNALS) and not isinstance(v, types.GeneratorType):
                    problems.append(f'interpreter internals in the value: {s[:80]}')
            except EP.ExpressionError:
                outcome = {'err': 'expr'}
            except (KeyboardInterrupt, _Timeout):
                raise
            except BaseException as e:      # incl. SystemExit from exit()/quit(), EOFError from input()
                outcome = {'err': 'py', 'cls': type(e).__name__}
                problems.append(f'{type(e).__name__} escaped the evaluator')
            if ast.dump(tree) != dump0:
                problems.append('parsed expression was modified by evaluation')
            elif 'ok' in outcome or outcome.get('err') == 'expr':
                # the same text, the same transaction: the same answer (nothing the first evaluation did may show)
                try:
                    again = {'ok': exprs.val_json(EP.evaluate_transaction(text, txn, None, rows))}
                except EP.ExpressionError:
                    again = {'err': 'expr'}
                except (KeyboardInterrupt, _Timeout):
                    raise
                except BaseException as e:
                    again = {'err': 'py', 'cls': type(e).__name__}
                noaddr = lambda o: json.loads(re.sub(r' at 0x[0-9a-f]+', '', json.dumps(o)))      # an escaped generator prints with its address
                if not exprs.same_outcome(noaddr(outcome), noaddr(again)) and outcome.get('ok', {}).get('t') not in ('gen', 'other'):
                    problems.append(f'evaluating the same expression again gives {json.dumps(again)[:80]} instead of {json.dumps(outcome)[:80]}')
                if ast.dump(tree) != dump0:
                    problems.append('parsed expression was modified by evaluation')
            # the view evaluator must reject or confine it too
            try:
                fv = EP.evaluate_filter(text, [{'amount': 1.0, 'date': datetime.datetime(2025, 1, 1), 'tags': ['a'], 'category': 'c',
                                                'subcategory': 's', 'merchant': 'm'}])
                fs = fv if isinstance(fv, str) else (repr(fv) if isinstance(fv, (list, dict, tuple, set)) else '')
                if any(m in fs for m in INTERNALS):
                    problems.append(f'view evaluator: interpreter internals in the value: {fs[:80]}')
            except EP.ExpressionError:
                pass
            except (KeyboardInterrupt, _Timeout):
                raise
            except BaseException as e:
                problems.append(f'view evaluator: {type(e).__name__} escaped')
    problems.extend(g.problems)
    if txn != t0 or rows != r0:
        problems.append('transaction or rows were modified')
    return outcome, problems


def run(ctx):
    import warnings
    warnings.simplefilter('ignore', SyntaxWarning)
    install_hook()
    lo = common.lean_phase(ctx, 'TallyVerif.Props.C03', regen.regen_expr_tables)
    r = ctx.rng
    from tally import expr_parser as EP
    # warm-up: first use of fuzzy() imports difflib etc.
    for e in ('fuzzy("UBER")', 'regex("U")', 'extract("(U)")', 'regex_replace(description, "U", "")', 'round(amount, 1)', 'date >= "2025-01-01"'):
        try:
            EP.evaluate_transaction(e, evalcorr.BASE_TXN, None, evalcorr.ROWS)
        except Exception:
            pass
    # (a) validate_ast vs the model's walk, on every expression node kind
    vcases, vimpl = [], []
    snippets = list(KIND_SNIPPETS) + [p for p in CLASSIC if p.strip()]
    for s in snippets:
        try:
            tree = ast.parse(s, mode='eval')
        except SyntaxError:
            continue
        vcases.append({'op': 'validate', 'tree': generic_tree(tree)})
        try:
            EP.validate_ast(tree)
            vimpl.append(True)
        except EP.UnsafeNodeError:
            vimpl.append(False)
    vdis = []
    try:
        vm = common.Driver().batch(vcases)
        vdis = [{'tree': c['tree'], 'model': m.get('valid'), 'implementation': i} for c, m, i in zip(vcases, vm, vimpl) if m.get('valid') != i]
    except Exception as e:
        vdis = [{'driver_error': str(e)[:300]}]
    kinds_seen = set()
    for c in vcases:
        stack = [c['tree']]
        while stack:
            n = stack.pop(); kinds_seen.add(n['k']); stack.extend(n['c'])
    all_expr_kinds = {n for n, c in vars(ast).items() if isinstance(c, type) and issubclass(c, (ast.expr, ast.operator, ast.unaryop, ast.boolop,
                      ast.cmpop, ast.expr_context, ast.comprehension, ast.keyword)) and n not in ('expr', 'operator', 'unaryop', 'boolop', 'cmpop',
                      'expr_context', 'AugLoad', 'AugStore', 'Param', 'Suite', 'Num', 'Str', 'Bytes', 'NameConstant', 'Ellipsis', 'Index',
                      'ExtSlice', 'Del') and not n.startswith('_')}
    missing = sorted(all_expr_kinds - kinds_seen)
    ctx.obligation('correspondence:validate_ast-vs-Sandbox.validate on every expression node kind', 'correspondence', not vdis and not missing,
                   cases=len(vcases), error=(json.dumps(vdis[0])[:800] if vdis else ('node kinds without a snippet: ' + ','.join(missing) if missing else None)))
    # (b) payloads
    txn = dict(evalcorr.BASE_TXN)
    rows = copy.deepcopy(evalcorr.ROWS)
    prop_fail = []
    plist = payloads(r, not ctx.quick)
    n_attack = len(plist)
    plist += benign(r, txn, not ctx.quick)
    if ctx.replay:
        ce = json.loads(common.read(ctx.replay)).get('counterexample', {})
        plist = [ce['payload']] if 'payload' in ce else plist[:50]
    items, impl_out = [], {}
    hist = {'rejected': 0, 'expr': 0, 'ok': 0, 'py': 0}
    for p in plist:
        out, problems = observe(p, txn, rows)
        impl_out[p] = out
        k = 'rejected' if 'load' in out else ('ok' if 'ok' in out else ('expr' if out.get('err') == 'expr' else 'py'))
        hist[k] += 1
        if problems:
            prop_fail.append({'class': 'not-confined', 'payload': p, 'problems': problems, 'outcome': out})
        if 'load' not in out:
            items.append((p, txn, None, rows, 'payload'))
    n, dis, st = evalcorr.run_stream(items, root=True, impl_outcomes=impl_out)   # outcomes observed under the Guard
    ctx.obligation('correspondence:sandbox payloads, loaders+evaluator-vs-model (outcome class and value)', 'correspondence', not dis,
                   cases=n, error=json.dumps(dis[0], default=str)[:1500] if dis else None)
    # payloads inside a rules file: load must reject or classification stays confined
    from tally import merchant_engine as ME
    from tally import merchant_utils as MU
    try:      # warm-up outside the armed region (module imports, caches)
        ME.parse_merchants('[W]\nmatch: fuzzy("x")\ncategory: C\n').match(RC.txn_for_engine(txn), data_sources=rows)
    except Exception:
        pass
    nfile = 0
    for p in r.sample(plist, min(len(plist), 150 if ctx.quick else 3000)):
        if '\n' in p or not p.strip():
            continue
        text = f'v = {p}\nfield.description = {p}\n[R]\nlet: x = {p}\nmatch: {p}\ncategory: C\ntags: {{{p}}}, t\nfield: f = {p}\n'
        g = Guard()
        with g:
            try:
                eng = ME.parse_merchants(text)
                t2 = RC.txn_for_engine(txn)
                MU.apply_transforms(t2, eng.transforms)
                res = eng.match(t2, data_sources=rows)
                for tg in res.tags:
                    if any(m in tg for m in INTERNALS) and 'generator object' not in tg:
                        g.problems.append(f'interpreter internals in a tag: {tg[:80]}')
            except ME.MerchantParseError:
                pass
            except (KeyboardInterrupt, _Timeout):
                raise
            except BaseException as e:
                g.problems.append(f'{type(e).__name__} escaped while loading/matching a rules file')
        if g.problems:
            prop_fail.append({'class': 'not-confined', 'payload': p, 'problems': g.problems, 'where': 'rules file'})
        nfile += 1
    # an expression reads ITS transaction, fields, rows and user variables - nothing an EARLIER evaluation left behind: after an
    # expression that binds a name (walrus, comprehension / generator variable, a generator abandoned half-way) the next expression,
    # evaluated for the same or another transaction, answers what it answers in a fresh interpreter state (an undefined name fails)
    from .c07 import COLLIDE
    from tally import expr_parser as EP
    leftover = [pair for pair in COLLIDE if ':=' in pair[0] or ' for ' in pair[0]]

    def _ans(e, t):
        try:
            return {'ok': repr(EP.evaluate_transaction(e, copy.deepcopy(t), data_sources=copy.deepcopy(rows)))}
        except EP.ExpressionError:
            return {'err': 'expr'}
        except Exception as ex:                                          # noqa
            return {'err': type(ex).__name__}
    t_a = RC.txn_for_engine(txn)
    t_b = dict(t_a, description='COFFEE SHOP 7', amount=3.5)
    if not ctx.replay or 'sequence' in json.loads(common.read(ctx.replay)).get('counterexample', {}):
        seqs = [[list(pair) for pair in leftover]]
        if ctx.replay:
            seqs = [json.loads(common.read(ctx.replay))['counterexample']['sequence']]
        for pairs in seqs:
            readers = [b for _, b in pairs]
            before = [_ans(e, t_b) for e in readers]            # nothing has bound these names yet
            for a, _ in pairs:
                _ans(a, t_a)                                    # the binders, on ANOTHER transaction
            after = [_ans(e, t_b) for e in readers]
            own = {'weekday == 3', 'amount == 7', 'month', 'contains("UBER")'}
            for e, x, y in zip(readers, before, after):
                required = x if e in own else {'err': 'expr'}  # a name no transaction, field, row or variable defines: an expression error
                if y != required or x != required:
                    prop_fail.append({'class': 'reads-what-an-earlier-evaluation-left-behind', 'sequence': pairs, 'expression': e,
                                      'before the binders ran': x, 'after the binders ran (on another transaction)': y, 'required': required})
                    break
    ctx.notes['leftover_binding_sequences'] = len(leftover) + 1
    ctx.cov['evaluations'] = len(plist) + nfile + len(vcases)
    ctx.cov['traces_validated_against_impl'] = n + len(vcases)
    ctx.cov['distinct_nontrivial'] = len({p for p in plist if 'load' not in impl_out.get(p, {'load': 1})}) + hist['rejected']
    ctx.cov['exhaustive'] = not ctx.quick
    ctx.cov['rule'] = ('payloads = classic sandbox escapes (%d), every attribute name reachable via dir() on str/dict/list/float/int/date/timedelta/'
                       'function/builtin/type/generator/bytes/bound-method objects plus frame/code/function internals (%d names) applied as attribute, '
                       'method call, subscript key, field./txn. attribute and bare name to %d receiver shapes (thorough: all combinations; quick: a sample), '
                       'random splices; every function name the evaluators resolve × adversarial template strings in each argument position; ordinary generated match '
                       'expressions (monitor: AST / transaction / rows unchanged, re-evaluation gives the same answer); each runs through parse_expression + both evaluators + a rules file using it in every expression position, under '
                       'the audit-hook monitor. Non-trivial = distinct payloads that were rejected at load or reached evaluation'
                       % (len(CLASSIC), len(dir_names()), len(RECEIVERS)))
    ctx.notes['payload_outcomes'] = hist
    ctx.notes['function_names_probed_with_template_strings'] = len(function_names())
    ctx.notes['benign_expressions_under_the_same_monitor'] = len(plist) - n_attack
    ctx.notes['node_kinds_covered_by_validate_correspondence'] = len(kinds_seen)
    ctx.notes['unmodelled_skipped'] = st['unmodelled']
    for p in plist[:3] + plist[len(plist) // 2: len(plist) // 2 + 2]:
        ctx.sample({'payload': p, 'outcome': impl_out.get(p)})

    def search():
        out = []
        for p in payloads(r, True) + benign(r, txn, True):
            o, problems = observe(p, txn, rows)
            if problems:
                out.append({'class': 'not-confined', 'payload': p, 'problems': problems, 'outcome': o})
                break
        return out

    common.conclude(ctx, prop_fail, search=search,
                    required='loading and evaluating any expression text only reads the transaction / fields / rows / variables and calls the documented '
                             'functions and string methods: no import, file, process, network, compile/exec, no types/functions/methods/modules as values '
                             'or inside strings; anything else is rejected at load or fails as an expression error; transaction, rows and the parsed '
                             'expression are unchanged')
    return ctx.finish(extra_trusted=[
        'the closure argument is by the type of the model\'s values (no constructor for interpreter internals); its faithfulness is the payload correspondence',
        'sys.addaudithook reports every import/open/exec/compile/os/subprocess/socket/ctypes event of CPython (PEP 578)',
        'a generator object reaching str() prints as "<generator object …>": a documented value of the language, not counted as an interpreter internal (DESIGN.md §5 C03)',
        'resource exhaustion (e.g. "x" * 10**10, deep nesting → RecursionError at load) is outside the property'])
