"""C10 — a merchant appears in a view exactly when the view's filter is true of it.

Proof: Props/C10.lean over Model/View.lean (`View.eval` = expr_parser.ExpressionEvaluator, the context
primitives / aggregates of ExpressionContext, `classifyViews` = section_engine.classify_merchants +
analyzer.classify_by_sections).

Tie (differential, every run):
  * stream `expr`   ExpressionEvaluator on generated contexts × view expressions (operator × type table with
                    set / list / nested-list operands, type-directed random filters, ill-typed and
                    non-evaluable forms, the reference's own examples) against `View.eval`, exception class
                    exact at the expression body and converted at the root;
  * stream `views`  parse_sections + classify_by_sections + compute_section_totals on generated views files
                    × merchant sets (built by the real analyze_transactions) against `View.classifyViews`;
  * stream `keys`   strftime('%Y-%m' | '%Y' | '%Y-%m-%d' | '%Y-W%W') against the model's key functions;
  * stream `html`   views files with generated view NAMES through the real write_summary_file_vue: the `sections` of the data script
                    read back from report.html against `View.htmlSections` (id function observed on the real report), and - on the
                    implementation alone - against what classify_by_sections reports (every view with members present once, by title,
                    with exactly its merchants; only the recorded id-collision class D12g is set aside, see `d12g_key`).
Oracle on the implementation alone (the property itself): membership ⇔ not excluded ∧ the single filter is
true over the merchant's own payments (variables evaluated per merchant by the harness's own loop, and once more with
every variable reference textually replaced by its definition: one closed expression over the primitives); add / remove / reorder views leaves other views alone; view total =
Σ member totals; a failing filter excludes instead of aborting; months / total / cv against an exact
(Fraction) specification; the aggregates sum / count / avg / min / max / stddev on `payments` and on by()-buckets against their
exact rational value (fixed-price and nearly fixed-price histories included: k identical non-integer payments have deviation
exactly 0), and membership in views whose filters compare an aggregate with a threshold against that exact value.
"""
import datetime
import json
import math
import statistics
from fractions import Fraction

from .. import common, exprs
from ..common import float_bits, bits_float

SPECIAL = ['income', 'transfer', 'investment']
CATS = [('Food', 'Grocery'), ('Food', 'Restaurant'), ('Bills', 'Rent'), ('Subscriptions', 'Streaming'),
        ('Travel', ''), ('Shopping', 'Online'), ('Café', 'Büro'), ('', '')]
ORD_TAGS = ['business', 'Recurring', 'x', 'incomes', 'Büro', 'TRANSFERS']
NAMES = ['Netflix', 'Costco', 'Landlord', 'Acme Corp', 'Café Zoë', 'uber', 'Shop-1', 'Shop 2', 'Emp', 'Bank', 'IRA']
REFERENCE_FILTERS = [
    'True', 'category == "Bills" and months >= 6', 'category == "Subscriptions"', 'subcategory == "Grocery"',
    'subcategory == "Restaurant" or subcategory == "Fast Food" or subcategory == "Delivery"',
    'total > 1000 and months <= 3', 'months >= 6 and cv < 0.3', 'months >= 6 and cv >= 0.3',
    'months >= 2 and months <= 5', '"business" in tags', 'max(sum(by("month"))) > 500',
    'months >= max_val(2, period("month") * 0.5)', 'months >= 6 and cv >= 0.3 and cv < 1.0',
    'category == "Subscriptions" and subcategory == "Streaming"',
    # the reference's own examples that compare a list with a number (they raise TypeError inside evaluation):
    'payments >= 12', 'sum(by("month")) > 100', 'count(by("month")) >= 1', 'avg(by("month")) > 50',
    'payments >= 20 and total > 200',
]
ILL_FILTERS = ['total > "x"', 'count(by("month")) >= 1', 'payments >= 12', 'by(5)', 'sum(total)', 'tags + 1', '-category',
               'abs(tags)', 'max_val(1)', 'period(months)', 'months in 5', 'stddev(7)', 'nosuch > 1', 'foo(1)',
               'payments[0] > 1', 'merchant.lower() == "x"', '[p for p in payments]', 'sum(p for p in payments) > 0',
               '(y := 1) > 0', 'by("decade")', 'period("week")', 'round(category)', 'total % "a"', 'avg(category)']


# ----------------------------------------------------------------------------------------------- canonical forms

def vval_json(v):
    if isinstance(v, (set, frozenset)):
        if all(isinstance(x, str) for x in v):
            return {'t': 'set', 'v': sorted(v)}
        return {'t': 'other', 'v': 'set-of-non-str'}
    return exprs.val_json(v)


def vval_in(v):
    if isinstance(v, (set, frozenset)):
        return {'t': 'set', 'v': sorted(v)}
    return exprs.val_json(v, True)


def outcome(fn):
    from tally import expr_parser as EP
    try:
        v = fn()
        return {'ok': vval_json(v), 'truthy': bool(v)}
    except EP.ExpressionError:
        return {'err': 'expr'}
    except RecursionError:
        return {'err': 'py', 'cls': 'RecursionError'}
    except Exception as e:
        return {'err': 'py', 'cls': type(e).__name__}


def txn_json(t):
    d = t.get('date')
    return {'amount': exprs.val_json(t['amount'], True), 'date': [d.year, d.month, d.day] if d is not None else None,
            'category': t.get('category', ''), 'subcategory': t.get('subcategory', ''), 'merchant': t.get('merchant', ''),
            'tags': list(t.get('tags', []))}


def ctx_json(txns, variables, period):
    return {'txns': [txn_json(t) for t in txns], 'variables': [[k, vval_in(v)] for k, v in (variables or {}).items()],
            'period': [[k, exprs.val_json(v, True)] for k, v in (period or {}).items()]}


def dec_num(a):
    if a.startswith('i'):
        return int(a[1:])
    if a.startswith('f'):
        return bits_float(a[1:])
    return a == 'b1'


def view_oracle(prim, args, _orig=exprs.oracle_compute):
    """One CPython primitive each — never tally code."""
    if prim == 'stdev':
        try:
            return {'ok': float_bits(statistics.stdev([dec_num(a) for a in args]))}
        except Exception as e:
            return {'raise': type(e).__name__}
    if prim == 'sq':
        try:
            return float_bits(bits_float(args[0]) ** 2)
        except OverflowError:
            return None
    if prim == 'sqrt':
        r = bits_float(args[0]) ** 0.5
        return float_bits(r) if isinstance(r, float) else None
    return _orig(prim, args)


def model_run(cases, op):
    """exprs.model_eval with the view primitives added to the demand-driven oracle."""
    saved = exprs.oracle_compute
    exprs.oracle_compute = view_oracle
    try:
        return exprs.model_eval(cases, max_rounds=400, op=op)
    finally:
        exprs.oracle_compute = saved


def convert_root(m):
    """`_eval_Expression` after the D8 repair, applied to a body-level outcome."""
    return {'err': 'expr'} if m.get('err') == 'py' else m


# ----------------------------------------------------------------------------------------------- generators

def case_variant(r, s):
    return r.choice([s, s.upper(), s.capitalize(), s.lower(), s[:1] + s[1:].upper()])


def gen_amount(r, kind):
    if kind == 'int':
        return r.choice([0, 1, 5, 12, -3, 100, 250])
    if kind == 'dyadic':
        return r.randint(-64000, 128000) / 64.0
    return round(r.uniform(-300, 2000), 2)


def gen_date(r):
    k = r.random()
    if k < 0.25:       # month / year / week boundaries
        return r.choice([datetime.datetime(2024, 12, 31), datetime.datetime(2025, 1, 1), datetime.datetime(2024, 12, 30),
                         datetime.datetime(2025, 1, 5), datetime.datetime(2025, 1, 6), datetime.datetime(2024, 2, 29),
                         datetime.datetime(2024, 3, 1), datetime.datetime(2023, 12, 31), datetime.datetime(2024, 1, 1),
                         datetime.datetime(2024, 1, 7), datetime.datetime(2024, 1, 8), datetime.datetime(2025, 2, 28)])
    y, m = r.choice([(2023, 11), (2023, 12), (2024, 1), (2024, 2), (2024, 6), (2024, 11), (2024, 12), (2025, 1), (2025, 2)])
    return datetime.datetime(y, m, r.randint(1, 28))


def gen_tags(r, special_p=0.15):
    tags = []
    for _ in range(r.choice([0, 0, 1, 1, 2, 3])):
        tags.append(case_variant(r, r.choice(SPECIAL)) if r.random() < special_p else r.choice(ORD_TAGS))
    return tags


def gen_ctx_txns(r):
    """transactions as evaluate_filter may receive them (arbitrary dates, per-transaction tags, some undated)"""
    n = r.choice([0, 1, 1, 2, 3, 4, 6, 9, 14])
    kind = r.choice(['dyadic', 'dyadic', 'cents', 'int', 'mixed'])
    cat = r.choice(CATS)
    name = r.choice(NAMES)
    undated = r.random() < 0.12
    out = []
    for _ in range(n):
        t = {'amount': gen_amount(r, kind if kind != 'mixed' else r.choice(['dyadic', 'int', 'cents'])),
             'category': cat[0], 'subcategory': cat[1], 'merchant': name}
        if not (undated and r.random() < 0.4):
            t['date'] = gen_date(r)
        if r.random() < 0.9:
            t['tags'] = gen_tags(r, 0.1)
        out.append(t)
    return out


class Env:
    def __init__(self, r, txns, variables=None):
        self.r = r
        self.strs = sorted({t.get('category', '') for t in txns} | {t.get('subcategory', '') for t in txns} |
                           {t.get('merchant', '') for t in txns} | {'Food', 'Bills', 'x'})
        self.tags = sorted({tg for t in txns for tg in t.get('tags', [])} | {'business', 'income'})
        tot = sum(t['amount'] for t in txns) if txns else 0
        months = len({t['date'].strftime('%Y-%m') for t in txns if 'date' in t}) or 1
        self.nums = [0, 1, 2, 3, 6, 12, 0.3, 0.5, 1.0, 100, 500.5, 1000, tot, months, len(txns), -1, 2.5]
        self.vars = variables or {}          # name -> type


def lit_num(r, env):
    x = r.choice(env.nums)
    if isinstance(x, float) and (math.isnan(x) or math.isinf(x)):
        x = 0
    return repr(x) if x >= 0 else f'({x!r})'


def lit_str(r, env, pool=None):
    s = r.choice(pool or env.strs)
    s = case_variant(r, s) if r.random() < 0.5 else s
    return json.dumps(s, ensure_ascii=False)


def name_case(r, n):
    return r.choice([n, n, n, n.upper(), n.capitalize()])


TYPES = ['bool', 'num', 'str', 'list', 'nested', 'set']


def gen_expr(r, env, ty, depth, ill=0.0):
    if ill and r.random() < ill:
        ty = r.choice([t for t in TYPES if t != ty])
    g = lambda t, d=depth - 1: gen_expr(r, env, t, d, ill)
    vs = [n for n, t in env.vars.items() if t == ty]
    if vs and r.random() < 0.15:
        return name_case(r, r.choice(vs))
    if ty == 'nested':
        f = r.choice(['month', 'month', 'year', 'week', 'day', 'Month', 'WEEK'])
        return f'{name_case(r, "by")}("{f}")'
    if ty == 'set':
        return name_case(r, 'tags') if depth <= 0 or r.random() < 0.85 else f'({g("set")} - {g("set")})'
    if ty == 'str':
        k = r.random()
        if depth <= 0 or k < 0.75:
            return r.choice([name_case(r, 'category'), name_case(r, 'subcategory'), name_case(r, 'merchant'), lit_str(r, env)])
        if k < 0.85:
            return f'({g("str")} + {g("str")})'
        if k < 0.93:
            return f'({g("str")} if {g("bool")} else {g("str")})'
        return f'{r.choice(["max", "min"])}({g("set")})'
    if ty == 'list':
        k = r.random()
        if depth <= 0 or k < 0.45:
            return name_case(r, 'payments')
        if k < 0.9:
            return f'{r.choice(["sum", "count", "avg", "max", "min", "stddev"])}({g("nested")})'
        return f'({g("list")} + {g("list")})'
    if ty == 'num':
        k = r.random()
        if depth <= 0 or k < 0.3:
            return r.choice([name_case(r, 'months'), name_case(r, 'total'), name_case(r, 'cv'), lit_num(r, env), lit_num(r, env),
                             'period("month")', 'period("year")'])
        if k < 0.55:
            f = r.choice(['sum', 'count', 'avg', 'max', 'min', 'stddev'])
            return f'{name_case(r, f)}({g("list")})'
        if k < 0.75:
            return f'({g("num")} {r.choice(["+", "-", "*", "/", "%"])} {g("num")})'
        if k < 0.83:
            return f'{r.choice(["max_val", "min_val"])}({g("num")}, {g("num")})'
        if k < 0.9:
            return r.choice([f'abs({g("num")})', f'round({g("num")})', f'round({g("num")}, {r.choice([0, 1, 2])})', f'(-{g("num")})'])
        if k < 0.95:
            return f'({g("num")} if {g("bool")} else {g("num")})'
        return f'count({g(r.choice(["set", "str", "nested"]))})'
    # bool
    k = r.random()
    if depth <= 0:
        return r.choice(['true', 'True', 'false', 'False', f'{name_case(r, "months")} >= {r.choice([1, 2, 3, 6])}'])
    if k < 0.3:
        return f'{g("num")} {r.choice(["<", "<=", ">", ">=", "==", "!="])} {g("num")}'
    if k < 0.36:
        return f'{g("num")} {r.choice(["<", "<="])} {g("num")} {r.choice(["<", "<=", "!="])} {g("num")}'
    if k < 0.52:
        return f'{g("str")} {r.choice(["==", "==", "!="])} {lit_str(r, env)}'
    if k < 0.66:
        return f'{lit_str(r, env, env.tags)} {r.choice(["in", "in", "not in"])} {g("set")}'
    if k < 0.7:
        return f'{lit_str(r, env)} {r.choice(["in", "not in"])} {g("str")}'
    if k < 0.74:
        return f'{g("num")} {r.choice(["in", "not in"])} {g("list")}'
    if k < 0.88:
        op = r.choice([' and ', ' or '])
        return '(' + op.join(g('bool') for _ in range(r.choice([2, 2, 3]))) + ')'
    if k < 0.93:
        return f'(not {g("bool")})'
    if k < 0.96:
        return r.choice([f'{g("set")} == {g("set")}', f'{g("list")} == {g("list")}', f'{g("set")} <= {g("set")}'])
    return r.choice(['true', 'false', 'True', 'TRUE'])


def rep_values():
    return {
        'none': None, 'true': True, 'false': False, 'i0': 0, 'i5': 5, 'ineg': -3, 'f0': 0.0, 'f25': 2.5, 'fneg': -0.75,
        's_empty': '', 's_abc': 'abc', 's_ABC': 'ABC', 's_b': 'b', 's_na': 'Straße',
        'l_empty': [], 'l_num': [3.0, 1, 2.5], 'l_str': ['b', 'A'], 'l_mix': [1, 'a', None],
        'n_nums': [[1.0, 2.0], [3.5], []], 'n_one': [[4.0]], 'n_bad': [[1.0], 2.0], 'n_mixed': [1.0, [2.0]], 'n_str': [['a', 'b'], 'cd'],
        'set_e': set(), 'set_ab': {'a', 'b'}, 'set_b': {'b'},
    }


def table_items():
    reps = rep_values()
    names = list(reps)
    ops = ['+', '-', '*', '/', '%', '==', '!=', '<', '<=', '>', '>=', 'in', 'not in']
    for op in ops:
        for x in names:
            for y in names:
                yield f'a {op} b', {'a': reps[x], 'b': reps[y]}, f'{op}:{x}:{y}'
    for x in names:
        v = {'a': reps[x]}
        for e in ('not a', '-a', 'a if a else 0', 'a and a', 'a or 1', 'sum(a)', 'count(a)', 'avg(a)', 'max(a)', 'min(a)',
                  'stddev(a)', 'abs(a)', 'round(a)', 'round(a, 1)', 'round(1.25, a)', 'by(a)', 'period(a)', 'max_val(a, 1)',
                  'min_val(1, a)', 'max_val(a, a)', 'a < a < a', '1 < a < 10', 'a == a != a', 'sum(a, a)', 'count()', 'a(1)', 'A'):
            yield e, v, f'{e}:{x}'
    for x in names:
        for y in ('i5', 'f25', 's_abc', 'l_num', 'set_ab', 'none'):
            for e in ('max_val(a, b)', 'min_val(a, b)', 'a < b <= b', 'a if b else b'):
                yield e, {'a': reps[x], 'b': reps[y]}, f'{e}:{x}:{y}'


BASE_TXNS = [
    {'amount': 10.5, 'date': datetime.datetime(2024, 12, 30), 'category': 'Food', 'subcategory': 'Grocery', 'merchant': 'Costco', 'tags': ['Business']},
    {'amount': 4.25, 'date': datetime.datetime(2025, 1, 5), 'category': 'Food', 'subcategory': 'Grocery', 'merchant': 'Costco', 'tags': ['x']},
    {'amount': -2.0, 'date': datetime.datetime(2025, 1, 6), 'category': 'Food', 'subcategory': 'Grocery', 'merchant': 'Costco'},
]


AGG_FILTERS = [f'{f}(payments)' for f in ['sum', 'count', 'avg', 'min', 'max', 'stddev']] + [
    'stddev(by("month"))', 'avg(by("month"))', 'max(stddev(by("year")))', 'stddev(payments) == 0', 'stddev(payments) > 0',
    'stddev(payments) / avg(payments) < 0.05', 'max(payments) - min(payments) == 0', 'cv == 0', 'cv']


def expr_items(r, n_random, n_ill, n_price=0):
    """(text, txns, variables, period, label)"""
    for e, v, label in table_items():
        yield e, BASE_TXNS, v, {}, 'table:' + label
    fixed = REFERENCE_FILTERS + ILL_FILTERS
    for _ in range(12):
        txns = gen_ctx_txns(r)
        pd = r.choice([{}, {'month': 12, 'year': 1}, {'month': 3, 'year': 2, 'week': 9}])
        for e in fixed:
            yield e, txns, {}, pd, 'fixed'
    for _ in range(n_price):
        txns = gen_price_ctx_txns(r)
        for e in AGG_FILTERS:
            yield e, txns, {}, {}, 'price'
    for i in range(n_random + n_ill):
        txns = gen_ctx_txns(r)
        variables, vtypes = {}, {}
        if r.random() < 0.4:
            variables = {'is_big': r.random() < 0.5, 'limit': r.choice([3, 100, 250.5]), 'label': r.choice(['Food', 'bills']),
                         'nothing': None, 'mytags': {'business', 'x'}, 'Hidden': 1, 'amts': [1.0, 2.5]}
            vtypes = {'is_big': 'bool', 'limit': 'num', 'label': 'str', 'mytags': 'set', 'amts': 'list', 'Hidden': 'num', 'nothing': 'num'}
        env = Env(r, txns, vtypes)
        pd = r.choice([{}, {}, {'month': 12, 'year': 1}, {'month': 3, 'year': 2, 'week': 9}])
        ty = r.choice(['bool', 'bool', 'bool', 'bool', 'num', 'str', 'list', 'set', 'nested'])
        ill = 0.0 if i < n_random else 0.18
        yield gen_expr(r, env, ty, r.choice([1, 2, 3, 3]), ill), txns, variables, pd, ('random:' if not ill else 'ill:') + ty


# ----------------------------------------------------------------------------------------------- stream `expr`

def make_ctx(txns, variables, period):
    from tally import expr_parser as EP
    return EP.ExpressionContext(transactions=[dict(t) for t in txns], variables=dict(variables or {}), period_data=dict(period or {}))


def run_expr_stream(items):
    from tally import expr_parser as EP
    cases, body, root, kept = [], [], [], []
    stats = {'rejected_at_load': 0, 'unmodelled': 0, 'nan_skipped': 0, 'outcomes': {}, 'labels': {}}
    for text, txns, variables, period, label in items:
        try:
            tree = EP.parse_expression(text)
        except EP.ExpressionError:
            stats['rejected_at_load'] += 1
            continue
        cases.append({'expr': exprs.ast_json(tree.body), 'ctx': ctx_json(txns, variables, period), 'convert': False})
        body.append(outcome(lambda: EP.ExpressionEvaluator(make_ctx(txns, variables, period)).evaluate(tree.body)))
        root.append(outcome(lambda: EP.evaluate(text, make_ctx(txns, variables, period))))
        kept.append((text, txns, variables, period, label))
    model = model_run(cases, 'vieweval')
    dis, n, nontrivial = [], 0, set()
    for k, m, b, rt in zip(kept, model, body, root):
        if m.get('err') == 'unmodelled':
            stats['unmodelled'] += 1
            w = m.get('why', '')[:40]
            stats.setdefault('unmodelled_why', {})
            stats['unmodelled_why'][w] = stats['unmodelled_why'].get(w, 0) + 1
            continue
        if 'ok' in b and exprs.nan_in(b['ok']):
            stats['nan_skipped'] += 1
            continue
        n += 1
        key = 'ok' if 'ok' in b else (b['err'] if b['err'] == 'expr' else b['cls'])
        stats['outcomes'][key] = stats['outcomes'].get(key, 0) + 1
        lab = k[4].split(':')[0]
        stats['labels'][lab] = stats['labels'].get(lab, 0) + 1
        if 'ok' in b and len(k[1]) >= 2 and lab in ('random', 'fixed', 'price'):
            nontrivial.add(k[0] + '|' + json.dumps([float_bits(t['amount']) for t in k[1]]))
        bad = None
        if m != b:
            bad = ('body', m, b)
        elif convert_root(m) != rt:
            bad = ('root', convert_root(m), rt)
        if bad:
            dis.append({'expr': k[0], 'label': k[4], 'level': bad[0], 'model': bad[1], 'implementation': bad[2],
                        'ctx': ctx_json(k[1], k[2], k[3])})
    return n, dis, stats, len(nontrivial)


# ----------------------------------------------------------------------------------------------- views files × merchants

def gen_views(r, env, ill_p=0.12):
    """abstract views file: globals, sections (name, locals, filter)"""
    gl = []
    vtypes = {}
    for _ in range(r.choice([0, 0, 1, 2, 3])):
        ty = r.choice(['num', 'bool', 'num', 'list', 'set', 'str'])
        name = r.choice(['avg_pay', 'is_frequent', 'big', 'monthly', 'MyVar', 'lim', 'tg', 'lbl'])
        e = gen_expr(r, Env(r, env['txns'], dict(vtypes)), ty, r.choice([1, 2]), 0.1 if r.random() < 0.2 else 0.0)
        gl.append((name, e))
        if name == name.lower():
            vtypes[name] = ty
    secs = []
    names = ['Total', 'Bills', 'Every Month', 'Big', 'Food', 'Biz', 'Variable', 'Odd']
    r.shuffle(names)
    for i in range(r.choice([1, 2, 3, 3, 4, 5])):
        loc, lt = [], dict(vtypes)
        for _ in range(r.choice([0, 0, 0, 1, 2])):
            ty = r.choice(['num', 'bool'])
            name = r.choice(['local_avg', 'thr', 'ok', 'Big'])
            loc.append((name, gen_expr(r, Env(r, env['txns'], dict(lt)), ty, r.choice([1, 2]), 0.0)))
            if name == name.lower():
                lt[name] = ty
        k = r.random()
        if k < ill_p:
            f = r.choice(ILL_FILTERS)
        elif k < ill_p + 0.25:
            f = r.choice(REFERENCE_FILTERS)
        else:
            ty = r.choice(['bool'] * 8 + ['num', 'str', 'list', 'set'])
            f = gen_expr(r, Env(r, env['txns'], lt), ty, r.choice([1, 2, 2, 3]), 0.1 if r.random() < 0.15 else 0.0)
        secs.append({'name': names[i], 'locals': loc, 'filter': f})
    # a filter that mentions a variable local to an EARLIER view: unknown here ⇒ the merchant is excluded
    for i in range(1, len(secs)):
        earlier = [n for s2 in secs[:i] for n, _ in s2['locals'] if n == n.lower() and n not in dict(secs[i]['locals']) and n not in dict(gl)]
        if earlier and r.random() < 0.5:
            v = r.choice(earlier)
            secs[i]['filter'] = f'{v} == {v} or {v} != {v}'
    if len(secs) >= 2 and r.random() < 0.06:
        secs[-1]['name'] = secs[0]['name']          # equal names merge (observation)
    return {'globals': gl, 'sections': secs}


# ---- views files whose global variables depend on the merchant only INDIRECTLY -------------------------------
# base globals mention a primitive themselves; derived globals are written purely in terms of OTHER variables (plus constants,
# period() and the value-only functions), in chains, through function calls, aggregates of list / nested / set-valued variables,
# conditional expressions, and with the reference spelled in another letter case than the definition.
BASE_GLOBALS = [
    ('monthly', 'num', ['total / months', 'TOTAL / Months', 'sum(payments) / months']),
    ('avgp', 'num', ['avg(payments)', 'total / count(payments)']),
    ('npay', 'num', ['count(payments)', 'Count(PAYMENTS)']),
    ('tot', 'num', ['total', 'Total', 'sum(payments)']),
    ('active', 'num', ['months', 'MONTHS']),
    ('spread', 'num', ['cv', 'CV']),
    ('peak', 'num', ['max(sum(by("month")))', 'max(payments)']),
    ('bym', 'nested', ['by("month")', 'BY("month")', 'by("year")']),
    ('pays', 'list', ['payments', 'Payments']),
    ('tg', 'set', ['tags', 'TAGS']),
    ('lbl', 'str', ['category', 'Category']),
    ('sub', 'str', ['subcategory']),
    ('who', 'str', ['merchant']),
]
DERIVED_NAMES = ['is_habit', 'headroom', 'big2', 'score', 'flag', 'lvl', 'ratio', 'cheap', 'tagged', 'same', 'pick', 'deep']


def ref_case(r, n):
    """a reference to the variable `n` (lookups lower-case the reference, so any letter case reaches a lower-case definition)"""
    return r.choice([n, n, n, n.upper(), n.capitalize(), n[:1] + n[1:].upper()])


def data_numbers(bm):
    """numbers that split THIS merchant set: per-merchant monthly average, total, mean payment, month and payment counts"""
    out = []
    for _, d in bm.items():
        tx = d.get('transactions', [])
        if not tx or not all(isinstance(t['amount'], (int, float)) and math.isfinite(t['amount']) for t in tx):
            continue
        tot = sum(t['amount'] for t in tx)
        mo = len({t['month'] for t in tx}) or 1
        out += [tot / mo, tot, tot / len(tx), mo, len(tx), max(t['amount'] for t in tx)]
    return [round(x, 2) for x in out] or [1, 100]


def derived_expr(r, tv, lits, ty, depth):
    """an expression of type `ty` over the variables in `tv` (type -> names) ONLY: no primitive, no by()"""
    g = lambda t, d=depth - 1: derived_expr(r, tv, lits, t, d)
    num = lambda: (lambda x: repr(x) if x >= 0 else f'({x!r})')(r.choice(lits['num']))
    has = lambda t: bool(tv.get(t))
    v = lambda t: ref_case(r, r.choice(tv[t]))
    if ty == 'num':
        opts = []
        if has('num'):
            opts += ['var'] * 3
        if depth > 0:
            opts += ['arith', 'arith', 'fn2', 'fn1', 'cond']
            opts += ['agg-list'] * 2 if has('list') else []
            opts += ['agg-nested'] * 2 if has('nested') else []
            opts += ['count-set'] if has('set') else []
        k = r.choice(opts or ['lit'])
        if k == 'var':
            return v('num')
        if k == 'arith':
            return f'({g("num")} {r.choice(["+", "-", "*", "/"])} {r.choice([num(), g("num")])})'
        if k == 'fn2':
            return f'{r.choice(["max_val", "min_val"])}({g("num")}, {r.choice([num(), g("num"), "period(\"month\")"])})'
        if k == 'fn1':
            return r.choice([f'abs({g("num")} - {num()})', f'round({g("num")}, {r.choice([0, 1, 2])})', f'(-{g("num")})'])
        if k == 'cond':
            return f'({g("num")} if {g("bool")} else {r.choice([num(), g("num")])})'
        if k == 'agg-list':
            return f'{r.choice(["sum", "avg", "count", "max", "min"])}({v("list")})'
        if k == 'agg-nested':
            return r.choice([f'max(sum({v("nested")}))', f'count({v("nested")})', f'avg(count({v("nested")}))', f'min(sum({v("nested")}))'])
        if k == 'count-set':
            return f'count({v("set")})'
        return num()
    if ty == 'bool':
        opts = []
        if has('bool'):
            opts += ['var'] * 2
        if has('num'):
            opts += ['cmp'] * 4
        if has('str'):
            opts += ['streq', 'streq', 'substr']
        if has('set'):
            opts += ['intags'] * 2
        if has('list') and has('num'):
            opts += ['inlist']
        if depth > 0:
            opts += ['and', 'not', 'cond']
        k = r.choice(opts or ['lit'])
        if k == 'var':
            return v('bool')
        if k == 'cmp':
            return f'{g("num")} {r.choice(["<", "<=", ">", ">=", ">", "!="])} {r.choice([num(), num(), g("num")])}'
        if k == 'streq':
            return f'{v("str")} {r.choice(["==", "==", "!="])} {json.dumps(case_variant(r, r.choice(lits["str"])), ensure_ascii=False)}'
        if k == 'substr':
            return f'{json.dumps(r.choice(lits["str"])[:2], ensure_ascii=False)} {r.choice(["in", "not in"])} {v("str")}'
        if k == 'intags':
            return f'{json.dumps(case_variant(r, r.choice(lits["tag"])), ensure_ascii=False)} {r.choice(["in", "in", "not in"])} {v("set")}'
        if k == 'inlist':
            return f'{g("num")} {r.choice(["in", "not in"])} {v("list")}'
        if k == 'and':
            return f'({g("bool")} {r.choice(["and", "or"])} {g("bool")})'
        if k == 'not':
            return f'(not {g("bool")})'
        if k == 'cond':
            return f'({g("bool")} if {g("bool")} else {g("bool")})'
        return r.choice(['true', 'false'])
    if ty == 'str':
        return v('str') if has('str') else json.dumps(r.choice(lits['str']), ensure_ascii=False)
    return v(ty) if has(ty) else 'payments'


def gen_indirect_views(r, bm):
    """views file of the class "global variable whose value depends on the merchant only through other variables" """
    lits = {'num': data_numbers(bm) + [0, 1, 2, 3, 100],
            'str': sorted({d.get('category', '') or 'Food' for d in bm.values()} | {d.get('subcategory', '') or 'Rent' for d in bm.values()} | set(bm)),
            'tag': sorted({t for d in bm.values() for t in d.get('tags', [])} | {'business', 'x'})}
    gl, tv, dep = [], {}, set()          # dep: variables whose value depends on the merchant (directly or not)
    reach = lambda n: n == n.lower()
    # constants first / last / in between: they are merchant-independent for real
    consts = [('thr', 'num', lambda: repr(abs(r.choice(lits['num'])))), ('k', 'num', lambda: r.choice(['period("month")', 'period("month") * 0.5', 'max_val(2, period("year"))'])),
              ('word', 'str', lambda: json.dumps(r.choice(lits['str']), ensure_ascii=False))]
    base = r.sample(BASE_GLOBALS, r.choice([1, 2, 2, 3, 4]))
    decls = [(n, t, r.choice(es), True) for n, t, es in base] + [(n, t, f(), False) for n, t, f in r.sample(consts, r.choice([0, 1, 2, 3]))]
    r.shuffle(decls)
    if r.random() < 0.1:                 # a base variable written with an upper-case letter: unreachable, everything built on it fails
        i = r.randrange(len(decls))
        decls[i] = (decls[i][0].capitalize(),) + decls[i][1:]
    for n, t, e, d in decls:
        gl.append((n, e))
        if reach(n):
            tv.setdefault(t, []).append(n)
            if d:
                dep.add(n)
    derived = []
    names = r.sample(DERIVED_NAMES, r.choice([1, 2, 2, 3, 4]))
    for n in names:
        ty = r.choice(['bool', 'bool', 'num', 'num', 'str' if tv.get('str') else 'num', r.choice(['list', 'set', 'nested', 'bool'])])
        e = derived_expr(r, tv, lits, ty, r.choice([1, 1, 2, 3]))
        if ty in ('list', 'set', 'nested') and not tv.get(ty):
            ty, e = 'bool', derived_expr(r, tv, lits, 'bool', 2)
        gl.append((n, e))
        derived.append(n)
        tv.setdefault(ty, []).append(n)
    if r.random() < 0.08 and len(gl) >= 2:   # defined AFTER its first use: None at that point, for every merchant
        i = r.randrange(len(gl) - 1)
        gl.append(gl.pop(i))
    secs = []
    vnames = ['Habits', 'Cheap', 'Steady', 'Derived', 'Mixed', 'Local']
    r.shuffle(vnames)
    dv = {t: [n for n in ns if n in derived] for t, ns in tv.items()}
    for i in range(r.choice([1, 2, 3, 4])):
        loc = []
        ltv = {t: list(ns) for t, ns in tv.items()}
        src = dv if any(dv.values()) and r.random() < 0.8 else ltv
        if r.random() < 0.35:            # a view-local variable derived from the (derived) globals
            ty = r.choice(['num', 'bool'])
            ln = r.choice(['loc', 'ok2', 'thr', 'lvl'])
            loc.append((ln, derived_expr(r, {t: ns for t, ns in src.items() if ns} or ltv, lits, ty, 2)))
            ltv.setdefault(ty, []).append(ln)
            src = {ty: [ln]}
        k = r.random()
        pick = {t: ns for t, ns in src.items() if ns} or ltv
        if k < 0.75:
            f = derived_expr(r, pick, lits, 'bool', r.choice([0, 1, 1, 2]))
            if r.random() < 0.3:
                f = f'{f} {r.choice(["and", "or"])} {r.choice(["months >= 2", "total > 0", "category != \"\"", "count(payments) > 1"])}'
        elif k < 0.9 and (pick.get('num') or pick.get('str')):
            f = derived_expr(r, pick, lits, r.choice([t for t in ('num', 'str') if pick.get(t)]), 1)       # truthiness of a number / string
        else:
            f = 'true'
        secs.append({'name': vnames[i], 'locals': loc, 'filter': f})
    return {'globals': gl, 'sections': secs, 'indirect': True, 'derived': derived}


def render_views(v):
    lines = ['# generated']
    for n, e in v['globals']:
        lines.append(f'{n} = {e}')
    for s in v['sections']:
        lines += ['', f'[{s["name"]}]']
        for n, e in s['locals']:
            lines.append(f'{n} = {e}')
        lines.append(f'filter: {s["filter"]}')
    return '\n'.join(lines) + '\n'


def gen_transactions(r, dyadic=True):
    """a transaction list for analyze_transactions: several merchants with arbitrary payment histories"""
    out = []
    nm = r.choice([1, 2, 3, 4, 6])
    merchants = r.sample(NAMES, nm)
    for name in merchants:
        cat = r.choice(CATS)
        special = r.random() < 0.25
        base_tags = gen_tags(r, 0.0)
        monthly = r.random() < 0.4
        n = r.choice([1, 2, 3, 5, 8, 12])
        amt0 = gen_amount(r, 'dyadic' if dyadic else 'cents')
        for i in range(n):
            if monthly:
                y, m = divmod(2024 * 12 + r.choice([0, 1]) + i, 12)
                d = datetime.datetime(y, m + 1, r.randint(1, 28))
                a = amt0 if r.random() < 0.7 else gen_amount(r, 'dyadic' if dyadic else 'cents')
            else:
                d = gen_date(r)
                a = gen_amount(r, 'dyadic' if dyadic else 'cents')
            tags = list(base_tags)
            if special and r.random() < 0.7:
                tags.append(case_variant(r, r.choice(SPECIAL)))
            out.append({'merchant': name, 'category': cat[0], 'subcategory': cat[1], 'amount': a, 'date': d, 'tags': tags,
                        'description': 'D ' + name, 'source': 'S'})
    r.shuffle(out)
    return out


def by_merchant_of(txns):
    from tally import analyzer
    bm = analyzer.analyze_transactions([dict(t) for t in txns])['by_merchant']
    return {k: dict(v) for k, v in bm.items()}


def bm_to_json(bm):
    """by_merchant in a replayable / model form (only what classify_by_sections and compute_section_totals read)"""
    out = []
    for name, d in bm.items():
        m = {'name': name, 'category': d.get('category', ''), 'subcategory': d.get('subcategory', ''),
             'tags': sorted(d.get('tags', [])), 'total': exprs.val_json(d.get('total', 0), True),
             'txns': [{'y': int(t['month'][:4]), 'm': int(t['month'][5:7]), 'amount': exprs.val_json(t['amount'], True)}
                      for t in d.get('transactions', [])]}
        out.append(m)
    return out


def val_of_json(j):
    t = j['t']
    if t == 'int':
        return int(j['v'])
    if t == 'flt':
        return bits_float(j['v'])
    if t == 'bool':
        return j['v']
    if t == 'str':
        return j['v']
    return None


def bm_from_json(ms):
    bm = {}
    for m in ms:
        bm[m['name']] = {'category': m['category'], 'subcategory': m['subcategory'], 'tags': set(m['tags']),
                         'total': val_of_json(m['total']),
                         'transactions': [{'month': f"{t['y']:04d}-{t['m']:02d}", 'amount': val_of_json(t['amount'])} for t in m['txns']]}
    return bm


def config_json(cfg):
    from tally import expr_parser as EP
    pj = lambda e: exprs.ast_json(EP.parse_expression(e).body)
    return {'globals': [[k, pj(e)] for k, e in cfg.global_variables.items()],
            'sections': [{'name': s.name, 'filter': pj(s.filter_expr), 'variables': [[k, pj(e)] for k, e in s.variables.items()]}
                         for s in cfg.sections]}


def impl_views(text, bm, num_months=12):
    """the real pipeline: parse_sections → classify_by_sections → compute_section_totals"""
    from tally import section_engine as SE, analyzer
    try:
        cfg = SE.parse_sections(text)
    except SE.SectionParseError:
        return {'err': 'parse'}, None
    try:
        res = analyzer.classify_by_sections(bm, cfg, num_months)
        tot = {k: analyzer.compute_section_totals(v) for k, v in res.items()}
    except Exception as e:
        return {'err': 'py', 'cls': type(e).__name__}, cfg
    return {'result': [[k, [n for n, _ in v]] for k, v in res.items()],
            'totals': [[k, {'ok': exprs.val_json(t['total'])}, t['count']] for k, t in tot.items()]}, cfg


def non_ascii_lower_table(ms):
    tab = []
    for m in ms:
        for t in m['tags']:
            if not t.isascii():
                tab.append(['lower', [t], t.lower()])
    return tab


def model_views(cases):
    """cases: [(config_json, merchants_json, num_months[, extra fields of the request])]"""
    batch = [dict({'config': c[0], 'merchants': c[1], 'num_months': c[2], 'convert': True}, **(c[3] if len(c) > 3 else {})) for c in cases]
    saved = exprs.oracle_compute
    exprs.oracle_compute = view_oracle
    try:
        # pre-ship str.lower of non-ASCII tags (needed by is_excluded_from_spending, which is outside the evaluator)
        d = common.Driver()
        tables = [non_ascii_lower_table(c[1]) for c in cases]
        results = [None] * len(batch)
        pending = list(range(len(batch)))
        for _ in range(600):
            if not pending:
                break
            outs = d.batch([dict(batch[i], op='views', oracle=tables[i]) for i in pending])
            nxt = []
            for i, o in zip(pending, outs):
                if 'need' in o:
                    prim, args = o['need'][0], o['need'][1:]
                    tables[i].append([prim, args, view_oracle(prim, args)])
                    nxt.append(i)
                else:
                    o.pop('id', None)
                    results[i] = o
            pending = nxt
        for i in pending:
            results[i] = {'err': 'unmodelled', 'why': 'oracle rounds exhausted'}
        return results
    finally:
        exprs.oracle_compute = saved


# ----------------------------------------------------------------------------------------------- the property, on the implementation alone

def spec_excluded(tags):
    return bool({t.lower() for t in tags} & set(SPECIAL))


def section_txns(name, d):
    return [{'amount': t['amount'], 'date': datetime.datetime(int(t['month'][:4]), int(t['month'][5:7]), 15),
             'category': d.get('category', ''), 'subcategory': d.get('subcategory', ''), 'merchant': name,
             'tags': list(d.get('tags', []))} for t in d.get('transactions', [])]


def spec_variables(pairs, txns, pd, num_months, existing=None):
    """The documented meaning of a block of variable declarations, written here and not taken from section_engine: for THIS
    merchant's payments, in file order, each declaration sees the ones before it; a declaration that cannot be evaluated is None."""
    from tally import expr_parser as EP
    res = dict(existing or {})
    for name, e in pairs:
        ctx = EP.ExpressionContext(transactions=[dict(t) for t in txns], num_months=num_months, variables=dict(res), period_data=dict(pd or {}))
        try:
            res[name] = EP.evaluate(e, ctx)
        except EP.ExpressionError:
            res[name] = None
    return res


def single_filter(cfg, sec, txns, pd, num_months):
    """the view's filter evaluated on its own over one merchant's payments → True / False / ('abort', cls).
    Globals and locals are evaluated HERE, per merchant (spec_variables): nothing of classify_merchants / evaluate_variables /
    evaluate_section_filter is used, so hoisting, caching or sharing of variable values in that code cannot hide in the oracle."""
    from tally import expr_parser as EP
    try:
        g = spec_variables(list(cfg.global_variables.items()), txns, pd, num_months)
        v = spec_variables(list(sec.variables.items()), txns, pd, num_months, g) if sec.variables else g
        try:
            ctx = EP.ExpressionContext(transactions=[dict(t) for t in txns], num_months=num_months, variables=dict(v), period_data=dict(pd or {}))
            return bool(EP.evaluate(sec.filter_expr, ctx))
        except EP.ExpressionError:
            return False
    except EP.ExpressionError:
        return False
    except Exception as e:
        return ('abort', type(e).__name__)


class _Inline(__import__('ast').NodeTransformer):
    """replace every reference to a variable by the (already closed) expression that defines it; function names are not variables"""

    def __init__(self, env):
        self.env = env

    def visit_Name(self, node):
        import copy
        e = self.env.get(node.id.lower())
        return copy.deepcopy(e) if e is not None else node

    def visit_Call(self, node):
        node.args = [self.visit(a) for a in node.args]
        for kw in node.keywords:
            kw.value = self.visit(kw.value)
        if not isinstance(node.func, __import__('ast').Name):
            node.func = self.visit(node.func)
        return node


def written_out(cfg, sec):
    """(closed filter text, [closed text of every variable in scope]) — the view's filter as ONE expression over the documented
    primitives, every variable reference replaced by its definition (file order; a definition only sees earlier ones; a name written
    with an upper-case letter is never reached because references are lower-cased; locals shadow globals inside their view only)"""
    import ast
    import copy
    env, texts = {}, []
    for name, e in list(cfg.global_variables.items()) + list(sec.variables.items()):
        body = _Inline(env).visit(copy.deepcopy(ast.parse(e, mode='eval').body))
        env = dict(env)
        env[name] = body               # key as written: 'MyVar' is never equal to a lower-cased reference
        texts.append(ast.unparse(body))
    f = _Inline(env).visit(copy.deepcopy(ast.parse(sec.filter_expr, mode='eval').body))
    return ast.unparse(f), texts


def written_out_filter(closed, var_texts, txns, pd, num_months):
    """True / False = the closed filter on this merchant; None = not applicable (some variable cannot be evaluated for this merchant:
    it is None then, which a textual substitution does not express)"""
    from tally import expr_parser as EP
    mk = lambda: EP.ExpressionContext(transactions=[dict(t) for t in txns], num_months=num_months, variables={}, period_data=dict(pd or {}))
    try:
        for t in var_texts:
            EP.evaluate(t, mk())
    except Exception:
        return None
    try:
        return bool(EP.evaluate(closed, mk()))
    except EP.ExpressionError:
        return False
    except Exception:
        return None


def distinct_names(cfg):
    ns = [s.name for s in cfg.sections]
    return len(ns) == len(set(ns))


def reparse_subset(cfg_text_sections, globals_, keep):
    return render_views({'globals': globals_, 'sections': [cfg_text_sections[i] for i in keep]})


def views_oracle(views, text, bm, r, num_months=12, stats=None):
    """Returns the list of property failures for one (views file, merchant set)."""
    from tally import section_engine as SE, analyzer
    fails = []
    stats = stats if stats is not None else {}
    case = {'views_text': text, 'merchants': bm_to_json(bm), 'num_months': num_months}
    try:
        cfg = SE.parse_sections(text)
    except SE.SectionParseError:
        return fails
    try:
        res = analyzer.classify_by_sections(bm, cfg, num_months)
    except Exception as e:
        fails.append(dict(case, **{'class': 'filter-error-aborts-classification', 'observed': f'classify_by_sections raised {type(e).__name__}: {e}'[:300],
                                   'required': 'a filter or variable that cannot be evaluated excludes the merchant; the run continues'}))
        return fails
    kept = [(n, d) for n, d in bm.items() if not spec_excluded(d.get('tags', []))]
    months = {t['month'] for _, d in kept for t in d.get('transactions', [])}
    years = {t['month'][:4] for _, d in kept for t in d.get('transactions', [])}
    pd = {'month': len(months) if months else num_months, 'year': len(years) if years else 1}
    # 1. membership ⇔ not excluded ∧ the single filter is true over the merchant's own payments
    if distinct_names(cfg):
        for sec in cfg.sections:
            want = []
            for n, d in kept:
                sf = single_filter(cfg, sec, section_txns(n, d), pd, num_months)
                if isinstance(sf, tuple):
                    fails.append(dict(case, **{'class': 'filter-error-escapes-single-evaluation', 'view': sec.name, 'merchant': n,
                                               'observed': sf[1], 'required': 'ExpressionError or a value'}))
                    return fails
                if sf:
                    want.append(n)
            got = [n for n, _ in res.get(sec.name, [])]
            if got != want:
                fails.append(dict(case, **{'class': 'membership-differs-from-single-filter', 'view': sec.name, 'observed': got, 'required': want}))
                break
            # 1b. the same filter with every variable written out (one closed expression over the primitives, no variable machinery at all)
            if cfg.global_variables or sec.variables:
                try:
                    closed, vts = written_out(cfg, sec)
                except (SyntaxError, RecursionError, ValueError):
                    closed = None
                if closed is not None and len(closed) < 20000:
                    bad = None
                    for n, d in kept:
                        w = written_out_filter(closed, vts, section_txns(n, d), pd, num_months)
                        if w is None:
                            continue
                        stats['written_out_decisions'] = stats.get('written_out_decisions', 0) + 1
                        if w != (n in got):
                            bad = (n, w)
                            break
                    if bad:
                        fails.append(dict(case, **{'class': 'membership-differs-from-filter-with-variables-written-out', 'view': sec.name,
                                                   'merchant': bad[0], 'filter_written_out': closed[:2000], 'observed_member': not bad[1],
                                                   'required_member': bad[1]}))
                        break
    for k, v in res.items():
        for n, d in v:
            if spec_excluded(d.get('tags', [])):
                fails.append(dict(case, **{'class': 'excluded-merchant-listed', 'view': k, 'merchant': n}))
    # 2. each view's total is the sum of its members' totals (exact: Fractions)
    for k, v in res.items():
        t = analyzer.compute_section_totals(v)
        tots = [d.get('total', 0) for _, d in v]
        if all(isinstance(x, (int, float)) and math.isfinite(x) for x in tots):
            exact = sum((Fraction(x) for x in tots), Fraction(0))
            if t['count'] != len(v) or abs(Fraction(t['total']) - exact) > Fraction(1, 10 ** 6) * max(1, abs(exact)):
                fails.append(dict(case, **{'class': 'view-total-is-not-sum-of-member-totals', 'view': k,
                                           'observed': [t['total'], t['count']], 'required': [float(exact), len(v)]}))
    # 3. views are independent: remove / reorder / add views
    if distinct_names(cfg) and views is not None:
        idx = list(range(len(views['sections'])))
        keep = [i for i in idx if r.random() < 0.6]
        r.shuffle(keep)
        extra = {'name': 'Extra View', 'locals': [], 'filter': r.choice(['months >= 2', 'total > "x"', 'true', 'category == "Food"'])}
        secs2 = [views['sections'][i] for i in keep]
        secs2.insert(r.randint(0, len(secs2)), extra)
        text2 = render_views({'globals': views['globals'], 'sections': secs2})
        try:
            cfg2 = SE.parse_sections(text2)
            res2 = analyzer.classify_by_sections(bm, cfg2, num_months)
            for i in keep:
                nm = views['sections'][i]['name']
                a = [n for n, _ in res.get(nm, [])]
                b = [n for n, _ in res2.get(nm, [])]
                if a != b:
                    fails.append(dict(case, **{'class': 'views-not-independent', 'view': nm, 'other_views_text': text2,
                                               'observed': b, 'required': a}))
                    break
        except SE.SectionParseError:
            pass
        except Exception as e:
            fails.append(dict(case, **{'class': 'filter-error-aborts-classification', 'views_text': text2,
                                       'observed': f'classify_by_sections raised {type(e).__name__}'}))
    return fails


def exhaustive_independence(views, bm, num_months=12):
    """ALL non-empty sub-lists of the views in ALL orders: every view keeps the members it has in the full file."""
    import itertools
    from tally import section_engine as SE, analyzer
    secs = views['sections'][:4]
    if len({s['name'] for s in secs}) != len(secs):
        return [], 0
    full = render_views({'globals': views['globals'], 'sections': secs})
    try:
        ref = analyzer.classify_by_sections(bm, SE.parse_sections(full), num_months)
    except Exception:
        return [], 0          # reported by views_oracle
    n = 0
    for k in range(1, len(secs) + 1):
        for sub in itertools.permutations(range(len(secs)), k):
            text = render_views({'globals': views['globals'], 'sections': [secs[i] for i in sub]})
            n += 1
            try:
                res = analyzer.classify_by_sections(bm, SE.parse_sections(text), num_months)
            except Exception as e:
                return [{'class': 'filter-error-aborts-classification', 'views_text': text, 'merchants': bm_to_json(bm),
                         'num_months': num_months, 'observed': type(e).__name__}], n
            for i in sub:
                nm = secs[i]['name']
                if [x for x, _ in res[nm]] != [x for x, _ in ref[nm]]:
                    return [{'class': 'views-not-independent', 'views_text': full, 'other_views_text': text, 'view': nm,
                             'merchants': bm_to_json(bm), 'num_months': num_months,
                             'observed': [x for x, _ in res[nm]], 'required': [x for x, _ in ref[nm]]}], n
    return [], n


def spec_primitives(txns):
    """months / total / cv of the documentation, computed exactly (Fractions) from dated payments"""
    dated = [t for t in txns if 'date' in t]
    keys = sorted({(t['date'].year, t['date'].month) for t in dated})
    months = len(keys) if keys else 1
    total = sum((Fraction(t['amount']) for t in txns), Fraction(0))
    per = [sum((Fraction(t['amount']) for t in dated if (t['date'].year, t['date'].month) == k), Fraction(0)) for k in keys]
    if len(per) < 2:
        cv = 0.0
    else:
        mu = sum(per) / len(per)
        if mu == 0:
            cv = 0.0
        else:
            var = sum((x - mu) ** 2 for x in per) / len(per)
            cv = math.sqrt(var) / float(mu)
    return months, total, cv


def primitives_oracle(txns):
    """`months`, `total`, `cv`, `by(...)`, aggregates on the implementation against the exact specification."""
    from tally import expr_parser as EP
    fails = []
    if not all(isinstance(t['amount'], (int, float)) for t in txns):
        return fails
    ev = lambda e: EP.evaluate(e, make_ctx(txns, {}, {}))
    case = {'ctx': ctx_json(txns, {}, {})}
    try:
        months, total, cv = spec_primitives(txns)
        got_m, got_t, got_cv = ev('months'), ev('total'), ev('cv')
        if got_m != months:
            fails.append(dict(case, **{'class': 'months-is-not-distinct-active-months', 'observed': got_m, 'required': months}))
        if abs(Fraction(got_t) - total) > Fraction(1, 10 ** 9) * max(1, abs(total)):
            fails.append(dict(case, **{'class': 'total-is-not-sum-of-payments', 'observed': got_t, 'required': float(total)}))
        if not (abs(got_cv - cv) <= 1e-9 * max(1.0, abs(cv))):
            # (a mean that is a rounding residue instead of an exact 0 is not a property failure)
            dated = [t for t in txns if 'date' in t]
            if abs(sum(t['amount'] for t in dated)) > 1e-6:
                fails.append(dict(case, **{'class': 'cv-is-not-population-cv-of-monthly-totals', 'observed': got_cv, 'required': cv}))
        # tags: the union of the payments' tags, membership case-insensitive on both sides
        alltags = sorted({tg for t in txns for tg in t.get('tags', [])})
        for tg in alltags[:3]:
            if tg.isascii():
                for variant in (tg, tg.upper(), tg.lower()):
                    if ev(json.dumps(variant) + ' in tags') is not True:
                        fails.append(dict(case, **{'class': 'tag-membership-is-not-case-insensitive', 'tag': variant}))
        if ev('"no-such-tag" in tags') is not False or ev('count(tags)') != len({t.lower() for t in alltags}):
            fails.append(dict(case, **{'class': 'tags-is-not-the-set-of-payment-tags'}))
        # by(): buckets partition the dated payments, ordered by period
        for field, keyf in (('month', lambda d: (d.year, d.month)), ('year', lambda d: (d.year,)),
                            ('day', lambda d: (d.year, d.month, d.day)),
                            ('week', lambda d: (d.year, int(d.strftime('%W'))))):
            got = ev(f'by("{field}")')
            dated = [t for t in txns if 'date' in t]
            want = [[t['amount'] for t in dated if keyf(t['date']) == k] for k in sorted({keyf(t['date']) for t in dated})]
            if got != want:
                fails.append(dict(case, **{'class': 'by-buckets-differ', 'field': field, 'observed': got, 'required': want}))
            if dated:
                sums = ev(f'sum(by("{field}"))')
                if [Fraction(x) for x in sums] != [sum((Fraction(a) for a in g), Fraction(0)) for g in want] and \
                        all(float(a).is_integer() or (a * 64).is_integer() for g in want for a in g):
                    fails.append(dict(case, **{'class': 'sum-over-buckets-differs', 'field': field, 'observed': sums}))
                if ev(f'count(by("{field}"))') != [len(g) for g in want]:
                    fails.append(dict(case, **{'class': 'count-over-buckets-differs', 'field': field}))
    except Exception as e:
        fails.append(dict(case, **{'class': 'primitive-raises', 'observed': f'{type(e).__name__}: {e}'[:200]}))
    return fails


# ---- the aggregate functions against their exact value; fixed-price merchants -------------------------------------
# `sum count avg min max stddev` are "as documented": the sum, the number, the mean, the least, the greatest, the SAMPLE standard
# deviation (n - 1) of the values, 0 for an empty list (stddev: 0 for fewer than 2 values), applied per bucket to a by()-grouping.
# The specification below computes them in exact rational arithmetic (Fractions; the square root to 60 significant digits) and
# never calls tally or `statistics`.  Histories that matter here are the ones on which a floating-point shortcut loses everything:
# k IDENTICAL non-integer payments (a subscription: 12 x 15.49, 3 x 1899.99 - deviation exactly 0) and NEARLY identical ones.
AGGS = ['sum', 'count', 'avg', 'min', 'max', 'stddev']
PRICES = [15.49, 9.99, 64.1, 1899.99, 0.1, 0.07, 4.35, 19.99, 129.95, 1234.56, 33.33, 2.675, 1e-3, 99999.99]


def gen_price(r):
    k = r.random()
    if k < 0.45:
        return r.choice(PRICES)
    if k < 0.9:
        return r.randint(1, 300000) / 100.0
    return r.choice([r.randint(1, 9999) / 1000.0, r.randint(100000, 99999999) / 100.0, 12, 0.5])


def gen_history(r, kind):
    """amounts of one merchant: 'fixed' k identical payments, 'near' identical but for a cent here and there, 'two' two prices,
    'refund' identical payments and their refunds, 'varied' unrelated amounts"""
    n = r.choice([2, 2, 3, 3, 4, 6, 11, 12, 12, 13, 24, 36])
    p = gen_price(r)
    if r.random() < 0.1:
        p = -p
    if kind == 'fixed':
        return [p] * n
    if kind == 'near':
        out = [p] * n
        for i in r.sample(range(n), r.choice([1, 1, 2]) if n > 2 else 1):
            out[i] = round(p + r.choice([0.01, -0.01, 0.02, 1e-9, 1.0]), 9)
        return out
    if kind == 'two':
        q = round(p + r.choice([0.01, 1, 5.5, -0.3]), 2)
        return [r.choice([p, q]) for _ in range(n)]
    if kind == 'refund':
        return [p] * n + [-p] * r.choice([1, n])
    if kind == 'single':
        return [p]
    return [gen_amount(r, 'cents') for _ in range(n)]


HISTORY_KINDS = ['fixed', 'fixed', 'fixed', 'near', 'near', 'two', 'refund', 'single', 'varied', 'varied']


def gen_price_transactions(r):
    """transactions for analyze_transactions: 2-6 merchants, most of them with a fixed or nearly fixed price"""
    out, kinds = [], {}
    for name in r.sample(NAMES, r.choice([2, 3, 4, 5, 6])):
        kind = r.choice(HISTORY_KINDS)
        kinds[name] = kind
        cat = r.choice(CATS)
        tags = gen_tags(r, 0.0) + ([case_variant(r, r.choice(SPECIAL))] if r.random() < 0.12 else [])
        start = 2024 * 12 + r.choice([0, 1, 5])
        per_month = r.choice([1, 1, 1, 2, 3])          # several payments in one month: by("month") buckets of identical values
        for i, a in enumerate(gen_history(r, kind)):
            y, m = divmod(start + i // per_month, 12)
            out.append({'merchant': name, 'category': cat[0], 'subcategory': cat[1], 'amount': a, 'date': datetime.datetime(y, m + 1, r.randint(1, 28)),
                        'tags': list(tags), 'description': 'D ' + name, 'source': 'S'})
    r.shuffle(out)
    return out, kinds


def gen_price_ctx_txns(r):
    """one merchant's payments as evaluate_filter may receive them, with a fixed / nearly fixed price"""
    kind = r.choice(HISTORY_KINDS)
    cat, name = r.choice(CATS), r.choice(NAMES)
    out = []
    same_day = r.random() < 0.3
    d0 = gen_date(r)
    for a in gen_history(r, kind):
        t = {'amount': a, 'category': cat[0], 'subcategory': cat[1], 'merchant': name, 'tags': gen_tags(r, 0.0)}
        if r.random() < 0.95:
            t['date'] = d0 if same_day and r.random() < 0.6 else gen_date(r)
        out.append(t)
    return out


def exact_sqrt(v):
    """sqrt of a non-negative Fraction to 60 significant digits (exactly 0 for 0)"""
    import decimal
    if v == 0:
        return Fraction(0)
    with decimal.localcontext() as c:
        c.prec = 60
        return Fraction((decimal.Decimal(v.numerator) / decimal.Decimal(v.denominator)).sqrt())


def spec_aggregate(f, xs):
    """the documented value of f(xs) for a flat list of numbers, exactly"""
    fx = [Fraction(x) for x in xs]
    if f == 'count':
        return Fraction(len(fx))
    if not fx:
        return Fraction(0)
    if f == 'sum':
        return sum(fx, Fraction(0))
    if f == 'avg':
        return sum(fx, Fraction(0)) / len(fx)
    if f == 'min':
        return min(fx)
    if f == 'max':
        return max(fx)
    if f == 'stddev':
        if len(fx) < 2:
            return Fraction(0)
        mu = sum(fx, Fraction(0)) / len(fx)
        return exact_sqrt(sum(((x - mu) ** 2 for x in fx), Fraction(0)) / (len(fx) - 1))
    raise ValueError(f)


def agg_scale(f, xs):
    """magnitude against which a rounding error of f(xs) is measured"""
    if f == 'count' or not xs:
        return 1.0
    if f == 'sum':
        return max(1.0, float(sum(abs(Fraction(x)) for x in xs)))
    return max(1.0, max(abs(x) for x in xs))


AGG_TOL = Fraction(1, 10 ** 9)


def agg_value_ok(f, xs, got):
    """got = f(xs) on the implementation: a real number, within 1e-9 of the exact value relative to the size of the data (any
    sensible floating-point evaluation is within 1e-13); count / min / max exactly; the deviation of identical values exactly 0"""
    if isinstance(got, bool) or not isinstance(got, (int, float)) or not math.isfinite(got):
        return False
    want = spec_aggregate(f, xs)
    if f in ('count', 'min', 'max') or (f == 'stddev' and want == 0):
        return Fraction(got) == want
    return abs(Fraction(got) - want) <= AGG_TOL * Fraction(agg_scale(f, xs))


def show(v):
    return v if isinstance(v, (int, float, str, bool, type(None))) else repr(v)


def aggregates_oracle(txns):
    """every aggregate on `payments` and on every by()-grouping of the context, against the exact specification"""
    from tally import expr_parser as EP
    fails = []
    if not all(isinstance(t['amount'], (int, float)) and not isinstance(t['amount'], bool) and math.isfinite(t['amount']) for t in txns):
        return fails
    case = {'ctx': ctx_json(txns, {}, {})}

    def ev(e):
        try:
            return EP.evaluate(e, make_ctx(txns, {}, {}))
        except EP.ExpressionError as ex:
            return ('cannot-be-evaluated', str(ex)[:120])
    pays = [t['amount'] for t in txns]
    dated = [t for t in txns if 'date' in t]
    groupings = {'month': lambda d: (d.year, d.month), 'year': lambda d: (d.year,), 'day': lambda d: (d.year, d.month, d.day)}
    for f in AGGS:
        got = ev(f'{f}(payments)')
        if not agg_value_ok(f, pays, got):
            fails.append(dict(case, **{'class': 'aggregate-differs-from-its-exact-value', 'expression': f'{f}(payments)', 'payments': pays,
                                       'observed': show(got), 'required': float(spec_aggregate(f, pays))}))
        for field, keyf in groupings.items():
            groups = [[t['amount'] for t in dated if keyf(t['date']) == k] for k in sorted({keyf(t['date']) for t in dated})]
            if not groups:
                continue
            got = ev(f'{f}(by("{field}"))')
            if not (isinstance(got, list) and len(got) == len(groups) and all(agg_value_ok(f, g, x) for g, x in zip(groups, got))):
                fails.append(dict(case, **{'class': 'aggregate-over-buckets-differs-from-its-exact-value', 'expression': f'{f}(by("{field}"))',
                                           'buckets': groups, 'observed': show(got), 'required': [float(spec_aggregate(f, g)) for g in groups]}))
    # the boundary a fixed-price filter sits on: identical payments have deviation 0 - `== 0` is true, `> 0` false, and both CAN be evaluated
    if len(pays) >= 2:
        flat = len(set(Fraction(x) for x in pays)) == 1
        for e, want in (('stddev(payments) == 0', flat), ('stddev(payments) > 0', not flat), ('stddev(payments) <= 0', flat),
                        ('not stddev(payments)', flat), ('max(payments) == min(payments)', flat),
                        ('stddev(payments) < 0.001 * max_val(1, abs(avg(payments)))', None)):
            got = ev(e)
            if want is None:
                sd, av = spec_aggregate('stddev', pays), spec_aggregate('avg', pays)
                lim = max(Fraction(1), abs(av)) / 1000
                if abs(sd - lim) <= AGG_TOL * 1000 * Fraction(agg_scale('avg', pays)):
                    continue
                want = sd < lim
            if got is not want:
                fails.append(dict(case, **{'class': 'filter-over-an-aggregate-differs-from-its-exact-truth', 'expression': e, 'payments': pays,
                                           'observed': show(got), 'required': want}))
    return fails


# ---- views whose filters compare an aggregate with a threshold, decided by the exact specification --------------------------
def term_text(t):
    if t['kind'] == 'flat':
        return f'{t["f"]}(payments)'
    if t['kind'] == 'nested':
        return f'{t["outer"]}({t["f"]}(by("{t["field"]}")))'
    if t['kind'] == 'ratio':
        return 'stddev(payments) / avg(payments)'
    return 'max(payments) - min(payments)'


def term_value(t, pays, months):
    """exact value of a term for a merchant: pays = all amounts, months = {'YYYY-MM': [amounts]}; None = not defined"""
    if t['kind'] == 'flat':
        return spec_aggregate(t['f'], pays)
    if t['kind'] == 'nested':
        if t['field'] == 'month':
            groups = [months[k] for k in sorted(months)]
        else:
            ys = sorted({k[:4] for k in months})
            groups = [[a for k in sorted(months) if k[:4] == y for a in months[k]] for y in ys]
        if not groups:
            return None
        inner = [spec_aggregate(t['f'], g) for g in groups]
        return spec_aggregate(t['outer'], inner) if t['outer'] != 'stddev' else None
    if t['kind'] == 'ratio':
        av = spec_aggregate('avg', pays)
        return None if av == 0 else spec_aggregate('stddev', pays) / av
    return spec_aggregate('max', pays) - spec_aggregate('min', pays)


def term_scale(t, pays):
    if t['kind'] == 'ratio':
        av = abs(spec_aggregate('avg', pays))
        return max(1.0, agg_scale('max', pays) / float(av)) if av else 1.0
    if t['kind'] == 'flat':
        return agg_scale(t['f'], pays)
    if t['kind'] == 'nested' and (t['f'] == 'count' and t['outer'] != 'sum'):
        return float(max(1, len(pays)))
    return agg_scale('sum', pays)


CMP = {'<': lambda a, b: a < b, '<=': lambda a, b: a <= b, '>': lambda a, b: a > b, '>=': lambda a, b: a >= b,
       '==': lambda a, b: a == b, '!=': lambda a, b: a != b}


def merchant_payments(d):
    tx = d.get('transactions', [])
    months = {}
    for t in tx:
        months.setdefault(t['month'], []).append(t['amount'])
    return [t['amount'] for t in tx], months


def gen_term(r):
    k = r.random()
    if k < 0.5:
        return {'kind': 'flat', 'f': r.choice(AGGS + ['stddev', 'stddev', 'avg'])}
    if k < 0.8:
        return {'kind': 'nested', 'f': r.choice(AGGS + ['stddev']), 'outer': r.choice(['max', 'min', 'sum', 'avg', 'max']), 'field': r.choice(['month', 'month', 'year'])}
    return {'kind': r.choice(['ratio', 'range'])}


def num_text(x):
    s = repr(x)
    return s if x >= 0 else f'({s})'


def gen_aggregate_atom(r, kept):
    """{'term', 'op', 'thr'} with the threshold SEPARATED from every merchant's exact value (>= 1e-6 of the data's size), or exactly
    on a boundary whose truth is an exact matter (deviation / range of identical payments == 0, count == k, min == an actual amount)"""
    data = [merchant_payments(d) for _, d in kept]
    if r.random() < 0.4:
        k = r.random()
        anyp = r.choice(data)[0]
        if k < 0.55:
            return {'term': {'kind': 'flat', 'f': 'stddev'}, 'op': r.choice(['==', '==', '>', '!=', '<=']), 'thr': 0, 'exact': True}
        if k < 0.65:
            return {'term': {'kind': 'range'}, 'op': r.choice(['==', '>', '<=']), 'thr': 0, 'exact': True}
        if k < 0.75:
            return {'term': {'kind': 'nested', 'f': 'stddev', 'outer': 'max', 'field': r.choice(['month', 'year'])}, 'op': r.choice(['==', '>']), 'thr': 0, 'exact': True}
        if k < 0.85:
            return {'term': {'kind': 'flat', 'f': 'count'}, 'op': r.choice(['==', '>=', '<', '!=']), 'thr': len(anyp), 'exact': True}
        return {'term': {'kind': 'flat', 'f': r.choice(['min', 'max'])}, 'op': r.choice(['==', '<=', '>=', '<', '>']), 'thr': r.choice(anyp), 'exact': True}
    for _ in range(12):
        t = gen_term(r)
        vals = [(term_value(t, p, m), term_scale(t, p), p) for p, m in data]
        if any(v is None for v, _, _ in vals):
            continue
        vs = sorted({v for v, _, _ in vals})
        cands = [float((a + b) / 2) for a, b in zip(vs, vs[1:])] + [float(v) * q for v in vs for q in (0.5, 0.9, 1.1, 2.0)] + [0.01, 0.3, 1, 100]
        if t.get('f') == 'stddev' and t['kind'] == 'flat':      # between the sample (n - 1) and the population (n) deviation
            cands += [float(v) * (1 + math.sqrt((len(p) - 1) / len(p))) / 2 for v, _, p in vals if len(p) >= 2 and v > 0] * 3
        thr = r.choice(cands)
        thr = float(f'{thr:.6g}')
        if all(abs(Fraction(thr) - v) > Fraction(1, 10 ** 6) * Fraction(sc) for v, sc, _ in vals):
            return {'term': t, 'op': r.choice(['<', '<=', '>', '>=']), 'thr': thr, 'exact': False}
    return {'term': {'kind': 'flat', 'f': 'stddev'}, 'op': '==', 'thr': 0, 'exact': True}


def atom_text(a, name=None):
    return f'{name or term_text(a["term"])} {a["op"]} {num_text(a["thr"])}'


def atom_truth(a, d):
    pays, months = merchant_payments(d)
    v = term_value(a['term'], pays, months)
    return None if v is None else CMP[a['op']](v, Fraction(a['thr']))


def gen_aggregate_views(r, bm):
    """views file whose every filter is an aggregate compared with a threshold (bare, through a global or a view-local variable, two of
    them joined by and / or, or negated); `spec` is what the exact oracle evaluates - never the text"""
    kept = [(n, d) for n, d in bm.items() if not spec_excluded(d.get('tags', []))] or list(bm.items())
    gl, secs, spec = [], [], []
    vnames = ['Fixed Price', 'Steady', 'Variable', 'Large', 'Small', 'Frequent']
    r.shuffle(vnames)
    gnames = ['sd', 'spread2', 'level', 'agg1']
    for i in range(r.choice([1, 2, 3, 3, 4])):
        atoms = [gen_aggregate_atom(r, kept) for _ in range(r.choice([1, 1, 1, 2]))]
        join = r.choice(['and', 'or'])
        neg = r.random() < 0.15
        texts, loc = [], []
        for j, a in enumerate(atoms):
            via = r.choice([None, None, 'global', 'local'])
            if via == 'global' and gnames:
                g = gnames.pop()
                gl.append((g, term_text(a['term'])))
                texts.append(atom_text(a, ref_case(r, g)))
            elif via == 'local':
                loc.append((f'v{j}', term_text(a['term'])))
                texts.append(atom_text(a, f'v{j}'))
            else:
                texts.append(atom_text(a))
        f = f' {join} '.join(texts)
        if neg:
            f = f'not ({f})'
        secs.append({'name': vnames[i], 'locals': loc, 'filter': f})
        spec.append({'name': vnames[i], 'atoms': atoms, 'join': join, 'neg': neg})
    return {'globals': gl, 'sections': secs, 'aggregate': True, 'spec': spec}


def aggregate_views_oracle(spec, text, bm, num_months=12, stats=None):
    """membership in every view of an aggregate views file == the exact truth of its filter for each non-excluded merchant"""
    from tally import section_engine as SE, analyzer
    case = {'views_text': text, 'merchants': bm_to_json(bm), 'num_months': num_months, 'aggregate_spec': spec}
    try:
        cfg = SE.parse_sections(text)
    except SE.SectionParseError:
        return []
    try:
        res = analyzer.classify_by_sections(bm, cfg, num_months)
    except Exception as e:
        return [dict(case, **{'class': 'filter-error-aborts-classification', 'observed': f'{type(e).__name__}: {e}'[:300]})]
    kept = [(n, d) for n, d in bm.items() if not spec_excluded(d.get('tags', []))]
    fails = []
    for v in spec:
        want, undecided = [], False
        for n, d in kept:
            ts = [atom_truth(a, d) for a in v['atoms']]
            if any(t is None for t in ts):
                undecided = True
                break
            t = all(ts) if v['join'] == 'and' else any(ts)
            if t != v['neg']:
                want.append(n)
        if undecided:
            continue
        if stats is not None:
            stats['decisions'] = stats.get('decisions', 0) + len(kept)
            stats['exact_boundary_decisions'] = stats.get('exact_boundary_decisions', 0) + (len(kept) if any(a['exact'] for a in v['atoms']) else 0)
            stats['proper_subsets'] = stats.get('proper_subsets', 0) + (1 if 0 < len(want) < len(kept) else 0)
        got = [n for n, _ in res.get(v['name'], [])]
        if got != want:
            flt = [s for s in text.split('\n[') if s.startswith(v['name'] + ']')]
            fails.append(dict(case, **{'class': 'membership-differs-from-exact-value-of-the-aggregate', 'view': v['name'],
                                       'view_text': ('[' + flt[0]) if flt else None, 'observed': got, 'required': want,
                                       'payments_of_the_merchants_in_question': {n: merchant_payments(bm[n])[0] for n in set(got) ^ set(want)}}))
            break
    return fails


def error_excludes_oracle(bm, r, num_months=12):
    """A view whose filter cannot be evaluated: nobody is listed in it, nothing aborts, other views are untouched."""
    from tally import section_engine as SE, analyzer
    fails = []
    bad = r.choice(ILL_FILTERS)
    good = [{'name': 'All', 'locals': [], 'filter': 'true'}, {'name': 'Some', 'locals': [], 'filter': 'months >= 2 or total > 100'}]
    badsec = {'name': 'Broken', 'locals': [('lv', 'total + "s"')] if r.random() < 0.3 else [], 'filter': bad}
    pos = r.randint(0, 2)
    secs = good[:pos] + [badsec] + good[pos:]
    gl = [('gv', r.choice(['payments > 3', 'sum(total)', 'months * 2']))] if r.random() < 0.5 else []
    text = render_views({'globals': gl, 'sections': secs})
    case = {'views_text': text, 'merchants': bm_to_json(bm), 'num_months': num_months}
    try:
        cfg = SE.parse_sections(text)
    except SE.SectionParseError:
        return fails
    try:
        res = analyzer.classify_by_sections(bm, cfg, num_months)
    except Exception as e:
        return [dict(case, **{'class': 'filter-error-aborts-classification', 'observed': f'classify_by_sections raised {type(e).__name__}: {e}'[:300],
                              'required': 'a filter or variable that cannot be evaluated excludes the merchant; the run continues'})]
    ref = analyzer.classify_by_sections(bm, SE.parse_sections(render_views({'globals': gl, 'sections': good})), num_months)
    if res.get('Broken') and bad not in ('nosuch > 1',):
        # (every ILL_FILTERS entry fails for every merchant with at least one payment)
        fails.append(dict(case, **{'class': 'failing-filter-lists-a-merchant', 'observed': [n for n, _ in res['Broken']]}))
    for k in ('All', 'Some'):
        if [n for n, _ in res[k]] != [n for n, _ in ref[k]]:
            fails.append(dict(case, **{'class': 'failing-view-disturbs-another-view', 'view': k}))
    return fails


# ----------------------------------------------------------------------------------------------- the views in the HTML report's data
# observe_at: `spendingData.sections` of the HTML report.  The views stream above stops at classify_by_sections; a browser shows
# what write_summary_file_vue stores under an ID derived from the view's NAME.  Whatever that id function is, the property needs it
# to keep apart every two views of one file: a view that shares its id with a later one is overwritten, its merchants are listed
# nowhere, and adding / removing / reordering the other view changes what this one shows.  The names of the other views streams are
# eight plain English words; this stream quantifies over the NAMES: punctuation, letter case, digits, scripts without any ASCII
# letter, accents / normalisation forms / width, names that differ only in characters an id function is likely to drop or merge.

HTML_PREFIX = 'window.spendingData = '

VIEW_BASES = ['Food & Drink', 'Bills (fixed)', 'Big Purchases', 'Every Month', 'Café Zoë', 'Top 10', 'Q1 2025', 'A/B', 'Rent', 'Über 100',
              'Subscriptions', 'One-off', 'Kids + School', 'Tax: deductible', '50% off', "Mum's", 'R&D', 'view', 'Section 1', 'x']
# names without a single ASCII letter or digit (every id function that keeps [a-z0-9] only sends all of them to the same id)
SCRIPT_NAMES = ['食費', '光熱費', '交通費', 'Еда', 'Счета', 'Φαγητό', 'Λογαριασμοί', 'طعام', 'فواتير', 'אוכל', '음식', '공과금', 'खाना', 'อาหาร',
                '🍔', '💡', '🍔 🍟', '—', '…', '!!!', '???', '#', '%', '&', '/', '+', '*', '( )', '¿?', '€', '£ $']
PUNCT = ['&', '/', '-', '.', ':', '+', ',', '|', '(', ')', '!', '?', '#', '*', '~', "'", '"', '@', '=', '<', '>', '·', '—', '_']
LONG_TAIL = ' and everything else that was bought, ordered or renewed during the year '


def d12g_key(name):
    """The RECORDED collision class of the unchanged tree (DESIGN §10.4, D12g; candidate repair notes/fix_D12g_view_ids.diff): two
    different view names share their place in the HTML data exactly when they are equal once lower-cased (str.lower) with every
    space written as an underscore - `[My View]` / `[my_view]` / `[MY VIEW]`.  Failures whose view has such a twin among the other
    non-empty views of the file are counted as observations of D12g and not flagged; nothing else is excluded."""
    return name.lower().replace(' ', '_')


def strip_accents(s):
    import unicodedata
    return ''.join(ch for ch in unicodedata.normalize('NFD', s) if not unicodedata.combining(ch))


def full_width(s):
    return ''.join(chr(ord(ch) + 0xFEE0) if '!' <= ch <= '~' and ch not in '[]' else ch for ch in s)


def name_variant(r, s):
    """(name related to `s` that a lossy id function may identify with it, operator)"""
    import unicodedata
    ops = ['case', 'space_underscore', 'punct_swap', 'punct_drop', 'punct_add', 'space_to', 'wrap', 'accent', 'nfd', 'width', 'digit',
           'long', 'script', 'double', 'edge']
    op = r.choice(ops)
    if op == 'case':
        v = r.choice([s.upper(), s.lower(), s.title(), s.swapcase(), s[:1].lower() + s[1:]])
    elif op == 'space_underscore':
        v = s.replace(' ', '_') if ' ' in s else (s.replace('_', ' ') if '_' in s else s + '_1')
    elif op == 'punct_swap':
        idx = [i for i, ch in enumerate(s) if ch in PUNCT]
        if idx:
            i = r.choice(idx)
            v = s[:i] + r.choice([p for p in PUNCT if p != s[i]]) + s[i + 1:]
        else:
            i = r.randint(0, len(s))
            v = s[:i] + r.choice(PUNCT) + s[i:]
    elif op == 'punct_drop':
        v = ''.join(ch for ch in s if ch not in PUNCT) or s + '.'
    elif op == 'punct_add':
        i = r.randint(0, len(s))
        v = s[:i] + r.choice(PUNCT) + s[i:]
    elif op == 'space_to':
        v = s.replace(' ', r.choice(['-', '.', '  ', '\u00a0', '\t', '', ' - ', '/', '\u00b7', '\u3000'])) if ' ' in s else s[:1] + ' ' + s[1:]
    elif op == 'wrap':
        a, b = r.choice([('', '!'), ('', '?'), ('', '.'), ('', ' #'), ('(', ')'), ('"', '"'), ('*', '*'), ('- ', ''), ('', ' …'), ('¡', '!'),
                         ('<', '>'), ('', ' ✓')])
        v = a + s + b
    elif op == 'accent':
        t = strip_accents(s)
        if t != s:
            v = t
        else:
            idx = [i for i, ch in enumerate(s) if ch in 'aeiouAEIOU']
            v = s
            if idx:
                i = r.choice(idx)
                v = unicodedata.normalize('NFC', s[:i + 1] + r.choice(['\u0301', '\u0300', '\u0308', '\u0302']) + s[i + 1:])
    elif op == 'nfd':
        v = unicodedata.normalize('NFD', s)
        if v == s:
            v = s + '\u0327'
    elif op == 'width':
        v = full_width(s)
    elif op == 'digit':
        v = (s[:-1] + str((int(s[-1]) + 1) % 10)) if s[-1:].isdigit() else s + r.choice([' 2', '2', ' II', ' (2)'])
    elif op == 'long':           # long names that differ only at the very end (an id cut to a fixed length)
        base = s[:s.index(LONG_TAIL)] if LONG_TAIL in s else s
        v = base + LONG_TAIL + r.choice([y for y in ['2023', '2024', '2025', '2024 (b)'] if base + LONG_TAIL + y != s])
    elif op == 'script':
        v = r.choice(SCRIPT_NAMES)
    elif op == 'double':
        v = s + ' ' + s
    else:
        v = r.choice(PUNCT) + s if r.random() < 0.5 else s + r.choice(PUNCT)
    return v, op


def gen_view_names(r, k):
    """k distinct view names: one or two families (a base and names related to it) plus unrelated ones"""
    names, ops = [], []

    def add(n, op):
        n = n.replace(']', ')').replace('\n', ' ').replace('\r', ' ').strip()
        if n and n not in names:
            names.append(n); ops.append(op)

    tries = 0
    while len(names) < k and tries < 50:
        tries += 1
        if names and r.random() < 0.7:
            v, op = name_variant(r, r.choice(names))
            if op == 'long':                      # … and a second one with the same first 80 characters
                add(v, op)
                v = v[:v.index(LONG_TAIL)] + LONG_TAIL + '1999'
            elif r.random() < 0.25:
                v, op2 = name_variant(r, v)
                op = op + '+' + op2
            add(v, op)
        else:
            pool = SCRIPT_NAMES if r.random() < 0.35 else VIEW_BASES
            add(r.choice(pool), 'base' if pool is VIEW_BASES else 'script')
    order = list(range(len(names)))
    r.shuffle(order)
    return [names[i] for i in order], [ops[i] for i in order]


def gen_named_views(r, bm):
    """abstract views file with generated NAMES and plain filters drawn from the merchant set (most views non-empty, most different)"""
    kept = [(n, d) for n, d in bm.items() if not spec_excluded(d.get('tags', []))]
    pool = ['true', 'true', 'months >= 1', 'months >= 2', 'count(payments) >= 2', 'total > 0', 'total < 0 or total >= 0']
    for n, d in kept:
        pool += [f'category == "{d.get("category", "")}"', f'subcategory == "{d.get("subcategory", "")}"', f'merchant == "{n}"',
                 f'merchant != "{n}"']
    tots = sorted(d.get('total', 0) for _, d in kept)
    for a, b in zip(tots, tots[1:]):
        pool.append(f'total > {num_text((a + b) / 2)}')
        pool.append(f'total <= {num_text((a + b) / 2)}')
    names, ops = gen_view_names(r, r.choice([2, 2, 3, 3, 4, 5, 6]))
    return {'globals': [], 'sections': [{'name': n, 'locals': [], 'filter': r.choice(pool)} for n in names], 'named': True, 'ops': ops}


def name_stats(views, hstats, hops):
    """what the generated names of one file cover (evidence only)"""
    import re
    names = [s['name'] for s in views['sections']]
    for op in views.get('ops', []):
        for o in op.split('+'):
            hops[o] = hops.get(o, 0) + 1
    inc = lambda k, c: hstats.__setitem__(k, hstats.get(k, 0) + bool(c))
    alnum = [re.sub(r'[^a-z0-9]+', ' ', n.lower()).strip() for n in names]
    keys = [d12g_key(n) for n in names]
    inc('files_with_two_names_equal_on_their_ascii_letters_and_digits(not of the recorded class)',
        any(alnum[i] == alnum[j] and keys[i] != keys[j] for i in range(len(names)) for j in range(i)))
    inc('files_with_two_names_without_any_ascii_letter_or_digit', sum(1 for a in alnum if not a) >= 2)
    inc('files_with_two_names_equal_up_to_accents_width_or_normalisation_form',
        any(strip_accents(__import__('unicodedata').normalize('NFKC', names[i])).lower() ==
            strip_accents(__import__('unicodedata').normalize('NFKC', names[j])).lower() and keys[i] != keys[j]
            for i in range(len(names)) for j in range(i)))
    inc('files_with_two_names_of_the_recorded_class_D12g', len(set(keys)) < len(keys))
    inc('files_with_two_names_sharing_their_first_40_characters', any(names[i][:40] == names[j][:40] for i in range(len(names)) for j in range(i)))


def stats_num_months(txns):
    from tally import analyzer
    return analyzer.analyze_transactions([dict(t) for t in txns])['num_months']


def txns_to_json(txns):
    return [dict(t, date=t['date'].isoformat()) for t in txns]


def txns_from_json(js):
    return [dict(t, date=datetime.datetime.fromisoformat(t['date'])) for t in js]


def html_sections(stats):
    """The views as a browser gets them: the real write_summary_file_vue → report.html → the one <script> that assigns
    window.spendingData → JSON → `sections`.  Returns [(id, title, [merchant displayName, …]), …] in the data's order."""
    import os, shutil, tempfile
    from html.parser import HTMLParser
    from tally import report

    class P(HTMLParser):
        def __init__(self):
            super().__init__(convert_charrefs=True)
            self.on, self.out = False, []

        def handle_starttag(self, tag, attrs):
            if tag == 'script':
                self.on = True
                self.out.append('')

        def handle_endtag(self, tag):
            if tag == 'script':
                self.on = False

        def handle_data(self, data):
            if self.on:
                self.out[-1] += data

    d = tempfile.mkdtemp(prefix='c10-html-')
    try:
        path = os.path.join(d, 'report.html')
        report.write_summary_file_vue(stats, path, year=2025)
        with open(path, encoding='utf-8', newline='') as f:
            text = f.read()
    finally:
        shutil.rmtree(d, ignore_errors=True)
    p = P()
    p.feed(text)
    p.close()
    scripts = [x.strip() for x in p.out if x.lstrip().startswith(HTML_PREFIX)]
    if len(scripts) != 1 or not scripts[0].endswith(';'):
        raise ValueError(f'{len(scripts)} data scripts in the report')
    data = json.loads(scripts[0][len(HTML_PREFIX):-1])
    return [(sid, sec.get('title'), [m.get('displayName') for m in (sec.get('merchants') or {}).values()])
            for sid, sec in (data.get('sections') or {}).items()]


_ALONE_ID = {}


def observed_view_id(name):
    """the id function of the report as an external function: the id the real write_summary_file_vue gives a view of this name
    when it is the only view of the file (observed, not re-implemented; None if the report does not show the view)"""
    if name not in _ALONE_ID:
        from tally import analyzer
        stats = analyzer.analyze_transactions([{'merchant': 'A', 'category': 'Food', 'subcategory': 'x', 'amount': 5.0, 'tags': [],
                                                'date': datetime.datetime(2025, 1, 3), 'description': 'a', 'source': 's'}])
        stats['sections'] = {name: analyzer.compute_section_totals(list(stats['by_merchant'].items()))}
        try:
            secs = html_sections(stats)
        except Exception:
            secs = []
        _ALONE_ID[name] = secs[0][0] if len(secs) == 1 and secs[0][1] == name else None
    return _ALONE_ID[name]


def html_views_oracle(text, txns, hstats=None):
    """C10 at the HTML observation point, on the implementation alone: every view of the views file for which classify_by_sections
    reports members is in spendingData.sections exactly once (found by its title) with exactly those merchants, and the data lists
    no other view.  Returns (failures, observations of the recorded class D12g, what was seen: sections + required views)."""
    from tally import section_engine as SE, analyzer
    hstats = hstats if hstats is not None else {}
    case = {'html_views_text': text, 'txns': txns_to_json(txns)}
    fails, recorded, seen = [], [], None
    try:
        cfg = SE.parse_sections(text)
    except SE.SectionParseError:
        hstats['unparsable'] = hstats.get('unparsable', 0) + 1
        return fails, recorded, seen
    if not distinct_names(cfg):
        return fails, recorded, seen
    stats = analyzer.analyze_transactions([dict(t) for t in txns])
    try:
        res = analyzer.classify_by_sections(stats['by_merchant'], cfg, stats['num_months'])
    except Exception:
        return fails, recorded, seen        # reported by views_oracle
    stats['sections'] = {name: analyzer.compute_section_totals(ms) for name, ms in res.items()}     # as commands/run.py does
    stats['_sections_config'] = cfg
    try:
        secs = html_sections(stats)
    except Exception as e:
        fails.append(dict(case, **{'class': 'html-report-data-unreadable', 'observed': f'{type(e).__name__}: {e}'[:300]}))
        return fails, recorded, seen
    want = {name: [n for n, _ in ms] for name, ms in res.items() if ms}
    seen = {'sections': [list(x) for x in secs], 'views_with_members': want}
    by_title = {}
    for sid, title, members in secs:
        by_title.setdefault(title, []).append((sid, members))
    hstats['files'] = hstats.get('files', 0) + 1
    hstats['views_with_members'] = hstats.get('views_with_members', 0) + len(want)
    hstats['files_with_two_or_more_such_views'] = hstats.get('files_with_two_or_more_such_views', 0) + (len(want) >= 2)
    keys = {}
    for n in want:
        keys.setdefault(d12g_key(n), []).append(n)
    for name, members in want.items():
        got = by_title.get(name, [])
        if len(got) == 1 and sorted(got[0][1]) == sorted(members):
            hstats['views_found_with_exactly_their_merchants'] = hstats.get('views_found_with_exactly_their_merchants', 0) + 1
            continue
        twins = [m for m in keys[d12g_key(name)] if m != name]
        f = dict(case, **{'class': 'view-missing-from-html-data' if not got else 'view-has-other-merchants-in-html-data', 'view': name,
                          'required': sorted(members), 'observed': [sorted(ms) for _, ms in got] if got else None,
                          'html_sections': [[sid, title] for sid, title, _ in secs],
                          'classify_by_sections': {k: v for k, v in want.items()}})
        # D12g (names equal up to letter case and space/underscore shared one id) was repaired in /repo (edf4718): such a loss is a
        # violation like any other; the twin names are only reported with it
        fails.append(dict(f, names_equal_up_to_case_and_space_underscore=twins) if twins else f)
        break
    for title in by_title:
        if title not in want and not fails:
            fails.append(dict(case, **{'class': 'html-data-lists-a-view-without-members-or-unknown', 'view': title,
                                       'classify_by_sections': {k: v for k, v in want.items()}}))
            break
    return fails, recorded, seen


def replay_case(ce, r):
    """re-execute a stored counterexample against the current code"""
    if 'html_views_text' in ce:
        return html_views_oracle(ce['html_views_text'], txns_from_json(ce['txns']))[0]
    if 'views_text' in ce:
        from tally import section_engine as SE, analyzer
        bm = bm_from_json(ce['merchants'])
        nm = ce.get('num_months', 12)
        out = views_oracle(None, ce['views_text'], bm, r, nm)
        if ce.get('aggregate_spec'):
            out = aggregate_views_oracle(ce['aggregate_spec'], ce['views_text'], bm, nm) + out
        if not out and ce.get('other_views_text') and ce.get('view'):
            try:
                a = analyzer.classify_by_sections(bm, SE.parse_sections(ce['views_text']), nm)
                b = analyzer.classify_by_sections(bm, SE.parse_sections(ce['other_views_text']), nm)
                x, y = [n for n, _ in a.get(ce['view'], [])], [n for n, _ in b.get(ce['view'], [])]
                if x != y:
                    out.append(dict(ce, observed=y, required=x))
            except Exception as e:
                out.append(dict(ce, **{'class': 'filter-error-aborts-classification', 'observed': type(e).__name__}))
        return out
    if 'ctx' in ce:
        txns = []
        for t in ce['ctx']['txns']:
            d = {'amount': val_of_json(t['amount']), 'category': t['category'], 'subcategory': t['subcategory'],
                 'merchant': t['merchant'], 'tags': t['tags']}
            if t['date']:
                d['date'] = datetime.datetime(*t['date'])
            txns.append(d)
        return primitives_oracle(txns) + aggregates_oracle(txns)
    return []


# ----------------------------------------------------------------------------------------------- run

def keys_stream():
    d0 = datetime.date(2019, 12, 25)
    dates = [d0 + datetime.timedelta(days=i) for i in range(0, 2600)]
    dates += [datetime.date(y, 1, dd) for y in (1000, 1583, 1999, 2000, 2100, 2400, 9999) for dd in range(1, 9)]
    dates += [datetime.date(y, 12, dd) for y in (1000, 1999, 2000, 2100, 9999) for dd in range(24, 32)]
    out = common.Driver().batch([{'op': 'viewkeys', 'dates': [[d.year, d.month, d.day] for d in dates]}])[0]['keys']
    bad = []
    for d, k in zip(dates, out):
        want = [d.strftime('%Y-%m'), d.strftime('%Y'), d.strftime('%Y-%m-%d'), d.strftime('%Y-W%W')]
        if k != want:
            bad.append({'date': d.isoformat(), 'model': k, 'implementation': want})
    return len(dates), bad


def observations(ctx):
    """points the theorems' hypotheses exclude, run on the real code (recorded, not judged)"""
    from tally import section_engine as SE, analyzer
    bm = by_merchant_of([{'merchant': 'A', 'category': 'Food', 'subcategory': '', 'amount': 5.0, 'date': datetime.datetime(2025, 1, 3),
                          'tags': [], 'description': 'a', 'source': 's'},
                         {'merchant': 'B', 'category': 'Bills', 'subcategory': '', 'amount': 7.0, 'date': datetime.datetime(2025, 1, 4),
                          'tags': [], 'description': 'b', 'source': 's'}])
    obs = {}
    try:
        cfg = SE.parse_sections('[V]\nfilter: category == "Food"\n\n[W]\nfilter: true\n\n[V]\nfilter: category == "Bills"\n')
        res = analyzer.classify_by_sections(bm, cfg)
        obs['equal_view_names_merge'] = {k: [n for n, _ in v] for k, v in res.items()}
        cfg = SE.parse_sections('Limit = 6\nlimit2 = 6\n\n[Up]\nfilter: total < Limit\n\n[Low]\nfilter: total < limit2\n')
        res = analyzer.classify_by_sections(bm, cfg)
        obs['variable_written_with_upper_case_is_unreachable'] = {k: [n for n, _ in v] for k, v in res.items()}
    except Exception as e:
        obs['error'] = f'{type(e).__name__}: {e}'[:200]
    ctx.notes['observations'] = obs


def run(ctx):
    lo = common.lean_phase(ctx, 'TallyVerif.Props.C10')
    r = ctx.rng
    required = ('a merchant is listed in a view iff it is not tagged income/transfer/investment and the view\'s filter is true over its own '
                'payments; views are independent; view total = sum of member totals; a filter that cannot be evaluated excludes '
                'the merchant instead of failing the run')
    prop_fail = []

    if ctx.replay:
        rp = json.loads(common.read(ctx.replay))
        ce = rp.get('counterexample', {})
        prop_fail = replay_case(ce, r)
        ctx.cov.update(evaluations=1, rule='replay of a stored counterexample')
        print(f'[C10] replay: {"property still fails: " + prop_fail[0]["class"] if prop_fail else "property holds on this input now"}')
        common.conclude(ctx, prop_fail, required=required)
        return ctx.finish()

    # ---- stream `keys`
    try:
        nk, badk = keys_stream()
    except Exception as e:
        nk, badk = 0, [{'driver_error': str(e)[:300]}]
    ctx.obligation('correspondence:strftime-keys-vs-View.fmtYm/fmtY/fmtYmd/fmtYW', 'correspondence', not badk, cases=nk,
                   error=json.dumps(badk[0])[:800] if badk else None)

    # ---- stream `expr`
    n_random, n_ill = (3000, 1200) if ctx.quick else (120000, 40000)
    n_price = 40 if ctx.quick else 1500
    try:
        n_expr, dis, stats, nontriv_e = run_expr_stream(list(expr_items(r, n_random, n_ill, n_price)))
    except Exception as e:
        n_expr, dis, stats, nontriv_e = 0, [{'driver_error': f'{type(e).__name__}: {e}'[:500]}], {}, 0
    ctx.obligation('correspondence:ExpressionEvaluator-vs-View.eval', 'correspondence', not dis, cases=n_expr,
                   error=json.dumps(dis[0], default=str)[:1500] if dis else None)
    ctx.notes['expr_stream'] = stats

    # ---- stream `views`
    n_views = 800 if ctx.quick else 25000
    n_agg = 120 if ctx.quick else 4000         # + views over aggregates of fixed-price / nearly fixed-price merchants
    vcases, impl_out, meta = [], [], []
    for i in range(n_views + n_agg):
        if i >= n_views:
            bm = by_merchant_of(gen_price_transactions(r)[0])
            views = gen_aggregate_views(r, bm)
            text = render_views(views)
            nm = r.choice([12, 12, 3])
            out, cfg = impl_views(text, bm, nm)
            if cfg is not None:
                vcases.append((config_json(cfg), bm_to_json(bm), nm))
                impl_out.append(out)
                meta.append((views, text, bm, nm))
            continue
        txns = gen_transactions(r, dyadic=(i % 5 != 4))
        bm = by_merchant_of(txns)
        if i % 9 == 8:     # hand-built shapes analyze_transactions never produces
            bm['Ghost'] = {'category': 'Food', 'subcategory': '', 'tags': [], 'transactions': []}
            bm['Ints'] = {'category': 'Bills', 'subcategory': 'Rent', 'tags': ['X'], 'total': 36,
                          'transactions': [{'month': '2024-11', 'amount': 12}, {'month': '2024-12', 'amount': 12}, {'month': '2025-01', 'amount': 12}]}
        some = next(iter(bm.items()))
        views = gen_indirect_views(r, bm) if i % 3 == 1 else gen_views(r, {'txns': section_txns(*some)})
        text = render_views(views)
        nm = r.choice([12, 12, 3])
        out, cfg = impl_views(text, bm, nm)
        if cfg is None:
            continue
        vcases.append((config_json(cfg), bm_to_json(bm), nm))
        impl_out.append(out)
        meta.append((views, text, bm, nm))
    # ---- stream `html`: the same kind of files with generated view NAMES, observed in the HTML report's data (and, like every
    # other views file, through the Lean correspondence and the classify-level oracle below)
    n_html = 160 if ctx.quick else 4000
    hstats, recorded, hops, html_seen = {}, [], {}, {}
    for i in range(n_html):
        txns = gen_transactions(r, dyadic=True)
        bm = by_merchant_of(txns)
        views = gen_named_views(r, bm)
        text = render_views(views)
        f, rec, seen = html_views_oracle(text, txns, hstats)
        prop_fail.extend(f)
        recorded.extend(rec)
        name_stats(views, hstats, hops)
        if i % 2 == 0 and seen is not None:
            nm = stats_num_months(txns)
            out, cfg = impl_views(text, bm, nm)
            if cfg is not None and distinct_names(cfg):
                ids = [[n, observed_view_id(n)] for n in seen['views_with_members']]
                usable = all(x is not None for _, x in ids)
                vcases.append((config_json(cfg), bm_to_json(bm), nm, {'view_ids': ids} if usable else {}))
                impl_out.append(out)
                meta.append((views, text, bm, nm))
                if usable:
                    html_seen[len(vcases) - 1] = (seen, ids, text)
    hstats['name_operators'] = hops
    hstats['observations_of_the_recorded_class_D12g(not flagged)'] = len(recorded)
    if recorded:
        hstats['D12g_example'] = {k: recorded[0][k] for k in ('view', 'recorded_twins', 'required', 'observed', 'html_sections')}
    ctx.notes['html_views_stream'] = hstats

    vdis, n_v, unm, nontriv_v, mout = [], 0, 0, 0, None
    try:
        mout = model_views(vcases)
        for (views, text, bm, nm), m, im in zip(meta, mout, impl_out):
            if m.get('err') == 'unmodelled':
                unm += 1
                continue
            n_v += 1
            mm = {k: v for k, v in m.items() if k not in ('period', 'html')}
            if any('ok' in t[1] and exprs.nan_in(t[1]['ok']) for t in im.get('totals', [])):
                continue
            if m.get('err') == 'expr':
                mm = {'err': 'model-abort-expr'}
            if mm != im:
                vdis.append({'views_text': text, 'merchants': bm_to_json(bm), 'num_months': nm, 'model': mm, 'implementation': im})
            elif 'result' in im and len([1 for _, v in im['result'] if 0 < len(v) < len(bm)]) >= 1 and len(bm) >= 2:
                nontriv_v += 1
    except Exception as e:
        vdis.append({'driver_error': f'{type(e).__name__}: {e}'[:500]})
    ctx.obligation('correspondence:classify_by_sections-vs-View.classifyViews', 'correspondence', not vdis, cases=n_v,
                   error=json.dumps(vdis[0], default=str)[:1500] if vdis else None)
    ctx.notes['views_stream'] = {'cases': n_v, 'unmodelled': unm}
    # the report's sections dictionary against View.htmlSections, with the id function observed on the real report (one view alone);
    # compared where the theorems' hypothesis `distinctIds` holds for the observed ids - where it does not (the recorded class D12g on
    # the unchanged tree) the unrepaired code overwrites like the model, the candidate repair does not: counted, not compared
    hdis, n_h, n_hyp_false, n_overwrites = [], 0, 0, 0
    if mout is not None:
        for k, (seen, ids, text) in html_seen.items():
            m = mout[k]
            if 'html' not in m:
                continue
            real = [[a, b, list(c)] for a, b, c in seen['sections']]
            if len({x for _, x in ids}) < len(ids):
                n_hyp_false += 1
                n_overwrites += (m['html'] == real)
                continue
            n_h += 1
            if m['html'] != real:
                hdis.append({'html_views_text': text, 'observed_ids': ids, 'model': m['html'], 'implementation': real})
    ctx.obligation('correspondence:write_summary_file_vue.sections-vs-View.htmlSections', 'correspondence', mout is not None and not hdis, cases=n_h,
                   error=json.dumps(hdis[0], default=str)[:1500] if hdis else None)
    hstats['files_compared_with_View.htmlSections(ids observed on the real report)'] = n_h
    hstats['files_where_distinctIds_fails_for_the_observed_ids'] = n_hyp_false
    hstats['of_which_the_report_overwrites_exactly_like_the_model'] = n_overwrites

    # ---- the property on the implementation alone
    n_oracle = 0
    ostats = {}
    astats = {}
    for (views, text, bm, nm) in meta:
        prop_fail.extend(views_oracle(views, text, bm, r, nm, ostats))
        if views.get('aggregate'):
            prop_fail.extend(aggregate_views_oracle(views['spec'], text, bm, nm, astats))
        n_oracle += 1
    agg = [(v, bm) for (v, _, bm, _) in meta if v.get('aggregate')]
    flat = lambda d: len(d.get('transactions', [])) >= 2 and len({t['amount'] for t in d['transactions']}) == 1 and \
        not float(d['transactions'][0]['amount']).is_integer()
    ctx.notes['aggregate_views_stream'] = {
        'views_files': len(agg), 'views': sum(len(v['spec']) for v, _ in agg),
        'merchants': sum(len(bm) for _, bm in agg), 'merchants_with_identical_non_integer_payments': sum(1 for _, bm in agg for d in bm.values() if flat(d)),
        'membership_decisions_by_the_exact_specification': astats.get('decisions', 0),
        'of_which_on_an_exact_boundary(stddev == 0, range == 0, count == k, min == amount)': astats.get('exact_boundary_decisions', 0),
        'views_that_list_a_proper_nonempty_subset': astats.get('proper_subsets', 0)}
    ind = [(v, bm, im) for (v, _, bm, _), im in zip(meta, impl_out) if v.get('indirect')]
    split = sum(1 for v, bm, im in ind if 'result' in im and any(0 < len(ms) < len(bm) for _, ms in im['result']))
    ctx.notes['indirect_globals_stream'] = {
        'views_files': len(ind), 'derived_globals': sum(len(v['derived']) for v, _, _ in ind),
        'files_where_a_view_lists_a_proper_nonempty_subset': split,
        'written_out_filter_decisions(all files)': ostats.get('written_out_decisions', 0)}
    for (views, text, bm, nm) in meta[: (60 if ctx.quick else 1500)]:
        prop_fail.extend(error_excludes_oracle(bm, r, nm))
    n_aggctx = 0
    for i in range(150 if ctx.quick else 5000):
        t = gen_ctx_txns(r)
        prop_fail.extend(primitives_oracle(t))
        prop_fail.extend(aggregates_oracle(t))
        for t in (gen_price_ctx_txns(r), gen_price_ctx_txns(r)):
            prop_fail.extend(primitives_oracle(t))
            prop_fail.extend(aggregates_oracle(t))
        n_aggctx += 3
    ctx.notes['aggregate_values_stream'] = {'contexts': n_aggctx, 'of_which_fixed_or_nearly_fixed_price': 2 * n_aggctx // 3,
                                            'aggregate_values_compared_per_context': '6 functions x (payments + by month / year / day buckets) + 6 boundary filters'}
    n_arr = 0
    for (views, text, bm, nm) in [x for x in meta if len(x[0]['sections']) >= 3][: (6 if ctx.quick else 300)]:
        f, k = exhaustive_independence(views, bm, nm)
        prop_fail.extend(f)
        n_arr += k
    ctx.notes['exhaustive_view_arrangements'] = n_arr
    observations(ctx)

    ctx.cov['evaluations'] = n_expr + n_v + nk
    ctx.cov['traces_validated_against_impl'] = n_expr + n_v
    ctx.cov['distinct_nontrivial'] = nontriv_e + nontriv_v
    ctx.cov['rule'] = ('stream expr: operator × type table over 26 representative operands (incl. sets, nested and mixed lists) + the '
                       'reference\'s filters and a list of failing filters on 12 generated contexts + type-directed random filters '
                       '(30 % with planted type errors) on contexts of 0–14 payments (dates on month/year/week boundaries, undated rows, '
                       'negative / int / 2-decimal / dyadic amounts, tags in several letter cases, user variables incl. an unreachable '
                       'upper-case one); outcome compared at the expression body (exception class exact) and at the root. '
                       'stream views: generated views files (globals, locals, reference filters, failing filters, 6 % equal names; every third file is of '
                       'the class "global variable that depends on the merchant only indirectly": 1–4 base globals that mention a primitive '
                       '(total / months, avg(payments), by("month"), tags, category … in varying letter case) and 0–3 real constants, then 1–4 DERIVED '
                       'globals written purely in terms of other variables — chains, max_val / abs / round, aggregates of list / nested / set-valued '
                       'variables, conditional expressions, references in another letter case, 10 % an unreachable upper-case definition, 8 % a use '
                       'before the definition — and views / view-local variables that use the derived ones, thresholds drawn from the merchant set) '
                       'parsed by the real parse_sections × merchant sets produced by the real analyze_transactions (1–6 merchants, '
                       '25 % with special tags in mixed case); result, per-view total and count compared. '
                       'stream aggregates: (a) contexts - generated ones plus twice as many FIXED-PRICE / NEARLY FIXED-PRICE histories (2-36 payments: k '
                       'identical non-integer amounts such as 12 x 15.49 or 3 x 1899.99, identical but for a cent / 1e-9 on one or two payments, two '
                       'prices, payments and their refunds, negative prices, several payments on one day) - every aggregate sum / count / avg / min / '
                       'max / stddev on payments and on the by(month | year | day) buckets against its exact rational value (1e-9 of the data\'s size; '
                       'count / min / max and the deviation of identical values exactly), and the boundary filters stddev(payments) == 0 / > 0 / <= 0 / '
                       'not stddev(payments) / max == min against their exact truth; the same contexts run 15 aggregate filters through the Lean '
                       'correspondence; (b) views files over merchant sets of mostly fixed-price merchants (built by the real analyze_transactions) whose '
                       'filters compare an aggregate term (f(payments), outer(f(by(month | year))), stddev / avg, max - min; bare, through a global or a '
                       'view-local variable, two joined by and / or, negated) with a threshold that is either separated from every merchant\'s exact value '
                       'by >= 1e-6 of the data\'s size (midpoints between merchants, between sample and population deviation) or sits on a boundary whose '
                       'truth is exact (stddev == 0, range == 0, count == k, min == an actual amount): membership == the exact specification\'s verdict '
                       '(counts in notes.aggregate_views_stream / aggregate_values_stream). '
                       'stream html (observation point spendingData.sections): views files whose NAMES are generated - one or two families of a base '
                       'name and names related to it by letter case, space ↔ underscore (the recorded class D12g), punctuation swapped / dropped / added, '
                       'space written as - . NBSP tab or nothing, wrapping, accents added / stripped, NFD form, full-width form, a changed or appended '
                       'digit, long names that differ only after 80 characters, doubled names, plus names without any ASCII letter or digit (CJK, '
                       'Cyrillic, Greek, Arabic, Hebrew, Hangul, Devanagari, Thai, emoji, bare punctuation) - with plain filters drawn from the merchant '
                       'set, rendered by the real write_summary_file_vue; the data script is read back from report.html and every view for which '
                       'classify_by_sections reports members must be there once, found by its title, with exactly those merchants, and no other view; '
                       'half of the files also go through the Lean correspondence (classifyViews, and htmlSections with the id function observed on '
                       'the real report) and the classify-level oracle (counts in notes.html_views_stream). '
                       'non-trivial = expr: value outcome on ≥ 2 payments for a random/fixed/price filter; views: some view lists a proper, '
                       'non-empty subset of ≥ 2 merchants')
    for (views, text, bm, nm), im in list(zip(meta, impl_out))[:3]:
        ctx.sample({'views_text': text, 'merchants': [m['name'] for m in bm_to_json(bm)], 'implementation': im})

    def search():
        out = []
        for i in range(400 if ctx.quick else 4000):
            txns = gen_transactions(r)
            bm = by_merchant_of(txns)
            some = next(iter(bm.items()))
            views = gen_indirect_views(r, bm) if i % 2 else gen_views(r, {'txns': section_txns(*some)}, ill_p=0.3)
            out.extend(views_oracle(views, render_views(views), bm, r))
            out.extend(error_excludes_oracle(bm, r))
            out.extend(primitives_oracle(gen_ctx_txns(r)))
            t = gen_price_ctx_txns(r)
            out.extend(primitives_oracle(t) + aggregates_oracle(t))
            bm = by_merchant_of(gen_price_transactions(r)[0])
            views = gen_aggregate_views(r, bm)
            out.extend(aggregate_views_oracle(views['spec'], render_views(views), bm))
            txns = gen_transactions(r)
            out.extend(html_views_oracle(render_views(gen_named_views(r, by_merchant_of(txns))), txns)[0])
            if out:
                break
        ctx.cov['evaluations'] += 400
        return out

    common.conclude(ctx, prop_fail, search=search, required=required)
    return ctx.finish(extra_trusted=[
        'hand model View.eval / classifyViews of ExpressionEvaluator, ExpressionContext, section_engine.classify_merchants and '
        'analyzer.classify_by_sections, tied by differential correspondence (exception class exact)',
        'View.htmlSections (the sections dictionary of write_summary_file_vue): the id function is an external parameter, observed on the '
        'real report for each view name alone; html.parser + json.loads stand for the browser reading the data script; Vue / '
        'spending_report.js are not modelled',
        'operator semantics reused from Model/Val.lean + Model/Expr.lean (validated against CPython by the C08 operator × type table)',
        'oracle parameters (quantified universally in the theorems): statistics.stdev, float x**2 and x**0.5 (libm pow), round, '
        'float %, str.lower on non-ASCII text; ast.parse',
        'is_excluded_from_spending is the GENERATED Gen/ClassPy definition (translator tie of C06/C13)',
        'spec lemmas total_def / cv_def are over exact (int) amounts; float rounding is modelled away there',
        'aggregate oracle: the exact value is computed by the harness in Fractions (sqrt to 60 digits, decimal); accepted deviation 1e-9 of the '
        'data\'s size, except count / min / max and the deviation of identical values, which must be exact'])
