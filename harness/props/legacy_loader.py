"""The LEGACY CSV RULE LOADER and the MODIFIER TEXT PARSER (extension of C14; model lean/TallyVerif/Model/Legacy.lean).

Correspondence (driver op `legacycsv`):
  parse_pattern_with_modifiers  vs  Legacy.parsePattern     on generated pattern cells
  load_merchant_rules           vs  Legacy.loadRules        on generated rule files (written to disk as UTF-8 bytes)
  re's IGNORECASE / \\s / \\d    vs  Legacy.ciMatch / Csv.isPySpace / (digit table)   — the character classes the scanners assume
CPython primitives only are shipped as oracle tables: float() of every maximal [\\d.]+ run, the decimal value of non-ASCII Nd
characters, strptime of date-shaped texts with a non-ASCII digit, sys.get_int_max_str_digits().

Implementation-only oracles (what `search` runs when a correspondence is broken; they also run on every structured case):
  A2 "only at the END of the pattern string": a cell that does not end with `]` (a block followed by anything, a blank included) is
     returned whole, without conditions                                                            (theorem parse_no_trailing_bracket)
  A  "modifiers are read by structure": a cell = base (no modifier-opening text) + blocks spelled from a list of conditions (every
     form, optional blanks of every kind, ASCII and non-ASCII digits) parses to exactly (base, those conditions); with an invalid
     block (month 13, Feb 30, 1.2.3, empty value …) it raises ModifierParseError                     (theorems parse_render*, …)
  B  "one rule per row, in file order": a table written by csv.writer under a header naming the five columns (any order), cells
     without line breaks, loads to one tuple per row with a non-empty pattern: names as written, tags split on '|', the pattern
     cell read as in A; a ModifierParseError row keeps its whole cell and no conditions               (load_written_table, …)
  C  "comment / blank lines are inert", "CRLF = LF": inserting physical lines that are blank or start with '#', or writing the
     line ends as \\r\\n, never changes what load_merchant_rules returns                               (comment_lines_inert, …)
"""
import csv
import datetime
import io
import json
import os
import re
import sys
import unicodedata

from .. import common


def cps(s):
    return [ord(c) for c in s]


def uncps(l):
    return ''.join(chr(x) for x in l)


# ------------------------------------------------------------------------------------------------ oracle tables (CPython primitives)

def oracle_tables(text):
    """float() / strptime / decimal values for the texts the model may ask about.  Digit runs can only merge through the removal of
    quote characters by csv, so the text without its quotes is scanned too."""
    floats, dates = {}, {}
    for t in {text, text.replace('"', '')}:
        for run in re.findall(r'[\d.]+', t):
            if run not in floats:
                try:
                    v = float(run)
                    floats[run] = [cps(run), common.float_bits(v), cps(repr(v))]
                except ValueError:
                    floats[run] = [cps(run), None, []]
        if not t.isascii():
            for m in re.finditer(r'(?=(\d{4}-\d{2}-\d{2}))', t):
                d = m.group(1)
                if not d.isascii() and d not in dates:
                    try:
                        x = datetime.datetime.strptime(d, '%Y-%m-%d').date()
                        dates[d] = [cps(d), [x.year, x.month, x.day]]
                    except ValueError:
                        dates[d] = [cps(d), None]
    digits = sorted({(ord(c), unicodedata.decimal(c)) for c in text if ord(c) > 127 and c.isdecimal()})
    return {'digits': [list(x) for x in digits], 'floats': list(floats.values()), 'strptime': list(dates.values()),
            'maxdigits': sys.get_int_max_str_digits()}


# ------------------------------------------------------------------------------------------------ the implementation, canonicalised

def canon_conditions(p):
    am, dt = [], []
    for c in p.amount_conditions:
        if c.operator == ':':
            am.append({'op': ':', 'lo': common.float_bits(c.min_value), 'hi': common.float_bits(c.max_value)})
        else:
            am.append({'op': c.operator, 'v': common.float_bits(c.value)})
    for c in p.date_conditions:
        if c.operator == '=':
            dt.append({'op': '=', 'd': [c.value.year, c.value.month, c.value.day]})
        elif c.operator == ':':
            dt.append({'op': ':', 'a': [c.start_date.year, c.start_date.month, c.start_date.day],
                       'b': [c.end_date.year, c.end_date.month, c.end_date.day]})
        elif c.operator == 'month':
            dt.append({'op': 'month', 'm': c.month})
        else:
            dt.append({'op': 'relative', 'n': str(c.relative_days)})
    return am, dt


def impl_parse(cell):
    from tally.modifier_parser import parse_pattern_with_modifiers, ModifierParseError
    try:
        p = parse_pattern_with_modifiers(cell)
    except ModifierParseError:
        return {'err': 'ModifierParseError'}
    except Exception as e:      # noqa
        return {'err': 'Other:' + type(e).__name__}
    am, dt = canon_conditions(p)
    return {'ok': {'pattern': cps(p.regex_pattern), 'amount': am, 'date': dt}}


def opt(s):
    return None if s is None else cps(s)


def impl_load(text, b):
    """load_merchant_rules on a file with exactly these (UTF-8) bytes"""
    from tally import merchant_utils as MU
    path = os.path.join(b.dir, 'legacy_rules.csv')
    with open(path, 'wb') as f:
        f.write(text.encode('utf-8'))
    try:
        rs = MU.load_merchant_rules(path)
    except (AttributeError, KeyError) as e:
        return {'err': type(e).__name__}
    except Exception as e:      # noqa
        return {'err': 'Other:' + type(e).__name__}
    out = []
    for r in rs:
        am, dt = canon_conditions(r[4])
        d = {'pattern': cps(r[0]), 'merchant': opt(r[1]), 'category': opt(r[2]), 'subcategory': opt(r[3]),
             'tags': [cps(t) for t in r[5]], 'amount': am, 'date': dt}
        if r[4].regex_pattern != r[0]:
            d['pattern_of_parsed'] = cps(r[4].regex_pattern)
        out.append(d)
    return {'ok': out}


def model_clean(m):
    m = dict(m)
    m.pop('id', None)
    m.pop('why', None)
    return m


# ------------------------------------------------------------------------------------------------ generators: pattern cells

TOKENS = ['UBER', 'COSTCO', 'NETFLIX', 'AMAZON', 'LYFT', 'TRADER JOE', 'SHELL OIL', 'BESTBUY', 'WHOLEFDS', 'CAFÉ']
BASES = [lambda t: t, lambda t: t.lower(), lambda t: t + r'(?!GAS)', lambda t: r'\b' + t + r'\b', lambda t: t + r'\s*#\d+',
         lambda t: '[A-Z]{3}' + t, lambda t: t + '[0-9]', lambda t: r'\[' + t + r'\]', lambda t: t + '|LYFT', lambda t: '(' + t + ')',
         lambda t: t + '[amo', lambda t: t + ' [ amount>5]', lambda t: t + '[AMOUNT>5]', lambda t: t + '[Date=2025-01-01]',
         lambda t: t + 'amount>5]', lambda t: t + ']', lambda t: '^' + t + '$', lambda t: t + '[mont', lambda t: t + '[dat]',
         lambda t: '', lambda t: t + ' [x]', lambda t: t + '[]', lambda t: '[' + t, lambda t: t + '[amoun t>1]']
ASCII_BLANKS = ['', '', '', ' ', ' ', '  ', '\t']
WILD_BLANKS = [' ', '\t', '\xa0', ' ', '\x1c', '\x1f', '\n', '\x0b', '\x0c', '　', '\x85', ' ', ' ', ' \t ']
NOT_BLANKS = ['​', '﻿', '᠎', '_', '\x00', '\x08']       # look like blanks, are not \s
DIGIT_SETS = ['0123456789', '٠١٢٣٤٥٦٧٨٩', '０１２３４５６７８９', '०१२३४५६७८९', '𝟎𝟏𝟐𝟑𝟒𝟓𝟔𝟕𝟖𝟗']
OPS = ['>', '>=', '<', '<=', '=']


def spell_digits(r, s, wild):
    """ASCII digit text, some or all digits replaced by another Unicode decimal digit set"""
    if not wild or r.random() < 0.6:
        return s
    ds = r.choice(DIGIT_SETS[1:])
    every = r.random() < 0.5
    return ''.join(ds[int(c)] if c.isdigit() and c.isascii() and (every or r.random() < 0.4) else c for c in s)


def gen_num_text(r):
    k = r.random()
    if k < 0.45:
        return str(r.choice([0, 5, 50, 100, 200, 1500, 99999, r.randint(0, 10 ** 6)]))
    if k < 0.8:
        return f'{r.randint(0, 5000)}.{r.randint(0, 99):02d}'
    return r.choice(['.5', '5.', '007', '0.0', '00.50', '12345.67', '9007199254740993', '1' + '0' * 30, '0.1234567'])


BAD_NUM_TEXTS = ['1.2.3', '.', '..', '1..2', '5.5.', '.5.']


def gen_date(r):
    y = r.choice([1, 999, 1900, 2000, 2023, 2024, 2024, 2025, 2025, 2100, 9999])
    m = r.randint(1, 12)
    last = (datetime.date(y + (m == 12), m % 12 + 1, 1) - datetime.timedelta(days=1)).day if y < 9999 or m < 12 else 31
    d = r.choice([1, 15, 28, last, r.randint(1, last)])
    return (y, m, d)


BAD_DATES = [(2024, 2, 30), (2023, 2, 29), (2025, 4, 31), (2024, 13, 1), (2024, 0, 10), (2024, 1, 0), (2024, 1, 32), (0, 1, 1),
             (1900, 2, 29), (2100, 2, 29), (2025, 6, 31), (2025, 11, 31), (2025, 9, 31)]
GOOD_EDGE_DATES = [(2024, 2, 29), (2000, 2, 29), (2400, 2, 29), (2025, 12, 31), (1, 1, 1), (9999, 12, 31), (2025, 1, 31), (2025, 3, 31)]


def iso(d):
    return '%04d-%02d-%02d' % d


def gen_block(r, wild=False, bad=False, breaks=True):
    """One modifier block from structured truth.  Returns (text, truth) where truth = ('amount', cond) | ('date', cond) | None when
    `bad` made the block invalid (then the whole cell must raise)."""
    wb = WILD_BLANKS if breaks else [w for w in WILD_BLANKS if '\n' not in w and '\r' not in w]
    blank = (lambda: r.choice(wb if r.random() < 0.5 else ASCII_BLANKS)) if wild else (lambda: r.choice(ASCII_BLANKS))
    kind = r.choice(['op', 'op', 'op', 'range', 'on', 'drange', 'rel', 'month', 'month'])
    if kind == 'op':
        op = r.choice(OPS)
        t = r.choice(BAD_NUM_TEXTS) if bad else gen_num_text(r)
        ts = spell_digits(r, t, wild)
        text = f'[amount{blank()}{op}{blank()}{ts}{blank()}]'
        return text, None if bad else ('amount', {'op': op, 'v': common.float_bits(float(t))})
    if kind == 'range':
        lo, hi = gen_num_text(r), gen_num_text(r)
        if bad:
            lo, hi = r.choice([(r.choice(BAD_NUM_TEXTS), hi), (lo, r.choice(BAD_NUM_TEXTS))])
        text = f'[amount{blank()}:{blank()}{spell_digits(r, lo, wild)}{blank()}-{blank()}{spell_digits(r, hi, wild)}{blank()}]'
        return text, None if bad else ('amount', {'op': ':', 'lo': common.float_bits(float(lo)), 'hi': common.float_bits(float(hi))})
    if kind == 'on':
        d = r.choice(BAD_DATES) if bad else r.choice(GOOD_EDGE_DATES + [gen_date(r)] * 4)
        text = f'[date{blank()}={blank()}{iso(d)}{blank()}]'
        return text, None if bad else ('date', {'op': '=', 'd': list(d)})
    if kind == 'drange':
        a, b_ = gen_date(r), r.choice(GOOD_EDGE_DATES + [gen_date(r)] * 3)
        if bad:
            a, b_ = r.choice([(r.choice(BAD_DATES), b_), (a, r.choice(BAD_DATES))])
        text = f'[date{blank()}:{blank()}{iso(a)}{blank()}..{blank()}{iso(b_)}{blank()}]'
        return text, None if bad else ('date', {'op': ':', 'a': list(a), 'b': list(b_)})
    if kind == 'rel':
        n = r.choice([0, 7, 30, 365, 100000, r.randint(0, 10 ** 9)])
        ds = r.choice([str(n), '0' + str(n), spell_digits(r, str(n), wild)])
        word = (lambda w: ''.join(r.choice([c, c.upper()]) for c in w)) if r.random() < 0.4 else (lambda w: w)
        last, days = word('last'), word('days')
        if wild and r.random() < 0.3:
            last, days = last.replace('s', 'ſ'), days.replace('s', 'ſ')
        if bad:
            ds = r.choice(['', '-3', '3.0', '٣x'])
        text = f'[date{blank()}:{blank()}{last}{ds}{days}{blank()}]'
        return text, None if bad else ('date', {'op': 'relative', 'n': str(n)})
    m = r.choice([0, 13, 99, 20]) if bad else r.randint(1, 12)
    ms = r.choice([str(m), '%02d' % m]) if m < 100 else str(m)
    text = f'[month{blank()}={blank()}{spell_digits(r, ms, wild)}{blank()}]'
    return text, None if bad else ('date', {'op': 'month', 'm': m})


OPENERS = ('[amount', '[date', '[month')


def gen_base(r):
    while True:
        b = r.choice(BASES)(r.choice(TOKENS))
        if not any(o in b for o in OPENERS):
            return b


def gen_structured_cell(r, wild=False, p_bad=0.0, breaks=True):
    """(cell, expected) with expected = {'ok': {...}} | {'err': 'ModifierParseError'} computed from the generator's truth"""
    base = gen_base(r)
    n = r.choice([0, 1, 1, 1, 2, 2, 3, 4])
    am, dt, text, any_bad = [], [], '', False
    bad_at = r.randrange(n) if n and r.random() < p_bad else None
    for i in range(n):
        t, truth = gen_block(r, wild=wild, bad=(i == bad_at), breaks=breaks)
        text += t
        if truth is None:
            any_bad = True
        elif truth[0] == 'amount':
            am.append(truth[1])
        else:
            dt.append(truth[1])
    cell = base + text
    exp = {'err': 'ModifierParseError'} if any_bad else {'ok': {'pattern': cps(base), 'amount': am, 'date': dt}}
    return cell, exp


HOSTILE_CELLS = [
    'X[amount[amount>5]', 'X[amount>5]Y', 'X[amount>5][zzz]', 'X[amount>5]]', 'X[amount>5] ', 'X[amount>5]\n', '[amount>5]', '[month=3]',
    'X[amount', 'X[amount>5', 'X[date', 'X[month=1][amount', 'X[amount>5][amount', 'X[amount][amount>5]', 'X[date][month=2]',
    'X[amount>5][date=2024-02-30]', 'X[date=2024-02-30][amount>5]', 'X[month=13][amount>5]', 'X[amount>5][month=13]',
    'X[amount>1.2.3]', 'X[amount>]', 'X[amount]', 'X[date]', 'X[month]', 'X[month=]', 'X[month=012]', 'X[month=1 2]', 'X[amount>5 5]',
    'X[AMOUNT>5]', 'X[Amount>5]', 'X[amount>5][DATE=2025-01-01]', 'X[DATE=2025-01-01][amount>5]', 'X[amountx>5]', 'X[months=1]', 'X[dates=2025-01-01]',
    'X[amount>=5]', 'X[amount> =5]', 'X[amount=>5]', 'X[amount=<5]', 'X[amount==5]', 'X[amount<>5]', 'X[amount:5]', 'X[amount:5-]', 'X[amount:-5-6]',
    'X[amount:5--6]', 'X[amount:5-6-7]', 'X[amount>-5]', 'X[amount>+5]', 'X[amount>5e3]', 'X[amount>1_000]', 'X[amount>1,000]', 'X[amount>inf]', 'X[amount>nan]',
    'X[amount>0x10]', 'X[amount>５]', 'X[amount>٥.٥]', 'X[amount>²]', 'X[amount>½]', 'X[amount>Ⅷ]', 'X[amount>5​]', 'X[amount﻿>5]',
    'X[date=2024-1-15]', 'X[date=24-01-15]', 'X[date=2024/01/15]', 'X[date=2024-01-15T00:00]', 'X[date=20240115]', 'X[date= 2024-01-15 ]',
    'X[date=٢٠٢٤-01-15]', 'X[date=2024-٠١-15]', 'X[date=2024-01-1٥]', 'X[date=2024-01-٠5]', 'X[date=2024-1٠-15]', 'X[date=0000-01-01]', 'X[date=2024-00-01]',
    'X[date:2024-01-01..2024-12-31]', 'X[date:2024-01-01...2024-12-31]', 'X[date:2024-01-01.2024-12-31]', 'X[date:2024-01-01 .. 2024-12-31]',
    'X[date:2024-01-01. .2024-12-31]', 'X[date:2024-12-31..2024-01-01]', 'X[date:2024-02-30..2024-12-31]', 'X[date:2024-01-01..2024-02-30]',
    'X[date:last30days]', 'X[date:LAST30DAYS]', 'X[date:laſt30dayſ]', 'X[date:last 30 days]', 'X[date:last30 days]', 'X[date:last30day]', 'X[date:lastdays]',
    'X[date:last٣٠days]', 'X[date:last' + '9' * 4300 + 'days]', 'X[date:last' + '9' * 4301 + 'days]', 'X[date:last' + '0' * 4400 + '1days]', 'X[date:last-3days]',
    'X[date:KaSt30days]', 'X[date:last30dayS]', 'X[date:laſt30days]', 'X[date:last30dayſ]', 'X[date=last30days]', 'X[date:Kast30days]',
    'X[month=1]', 'X[month=12]', 'X[month=01]', 'X[month=00]', 'X[month=0]', 'X[month=13]', 'X[month=99]', 'X[month=٣]', 'X[month=１２]', 'X[month=1٢]', 'X[month:3]',
    'X[amount>5][amount>6][amount>7][amount>8][amount>9]', 'X[month=1][month=2]', 'X[amount>5\n]', 'X[amount\n>5]', 'X[amo\nunt>5]', 'X[amount>5]\r',
    'X[amount>' + '9' * 400 + ']', 'X[amount>' + '0' * 400 + '.5]', 'X[amount>5][amount>' + '1' * 310 + ']', 'X]', ']', '[', '[]', '[[]]', 'X[]',
    'X[amount>5]][month=1]', 'X[[amount>5]', 'X[amount>5[month=1]]', 'X[amount>5][month=1]]', 'X[date=2025-01-01][x][month=1]', '[amount>1][date=2025-01-01]',
    'X\\[amount>5]', 'X[amount>5\\]', 'X[amount>5\\][month=1]', 'X[^amount>5]', 'X[amount>5]?', 'X[amount>5]*', '(X[amount>5])', 'X|Y[amount>5]',
    ' X[amount>5]', 'X [amount>5]', 'X[ amount>5]', 'X[amount >5]', 'X[amount> 5]', 'X[amount>5 ]', 'X[amount>5] [month=1]', 'X[amount>5]\t[month=1]',
    '', ' ', 'X', 'amount>5', '[amount>5][amount>5]', '[date=2025-01-01]', 'X[date=2025-01-01', 'X[month=1', 'X[amount>5][month=1', 'X[month=1][date=2025-01-01',
]
HOSTILE_ALPHABET = list('[]amountdatemonthlastdays><=:.-0123456789 ') + ['[amount', '[date', '[month', ']', '[', '..', '>=', '<=', 'last', 'days', '2024-02-29',
                                                                          '2025-01-15', '\t', '\n', '\xa0', '٣', 'ſ', 'A', 'X', '\\', '"', ',', '|', '#', ' ']


def mutate(r, s):
    if not s:
        return r.choice(HOSTILE_ALPHABET)
    i = r.randrange(len(s))
    k = r.random()
    if k < 0.35:
        return s[:i] + s[i + 1:]
    if k < 0.7:
        return s[:i] + r.choice(HOSTILE_ALPHABET) + s[i:]
    if k < 0.85:
        return s[:i] + r.choice(HOSTILE_ALPHABET) + s[i + 1:]
    j = r.randrange(len(s))
    i, j = min(i, j), max(i, j)
    return s[:i] + s[j:] + s[i:j]


def gen_hostile_cell(r):
    k = r.random()
    if k < 0.35:
        c, _ = gen_structured_cell(r, wild=r.random() < 0.5, p_bad=0.3)
        for _ in range(r.choice([1, 1, 2, 3])):
            c = mutate(r, c)
        return c
    if k < 0.6:
        return ''.join(r.choice(HOSTILE_ALPHABET) for _ in range(r.randint(0, 14)))
    if k < 0.8:       # a block in the middle / swallowed / nested
        a, _ = gen_structured_cell(r)
        b_, _ = gen_block(r)
        return r.choice([a + 'Y' + b_, a + '[amount' + b_, '[date' + a, a + ']' + b_, a + b_[:-1], b_ + a, a.replace(']', '', 1) + b_])
    if k < 0.9:
        t, _ = gen_block(r, wild=True)
        return 'X' + t.replace(r.choice(WILD_BLANKS), r.choice(NOT_BLANKS), 1) if any(w in t for w in WILD_BLANKS) else 'X' + r.choice(NOT_BLANKS) + t
    return r.choice(HOSTILE_CELLS)


# ------------------------------------------------------------------------------------------------ generators: rule files

STD = ['Pattern', 'Merchant', 'Category', 'Subcategory', 'Tags']
NAMES = ['Uber', 'Costco Wholesale', "Joe's Diner", 'A & B: Co', 'Shop #1', ' padded ', 'Café', '', 'x,y', 'say "hi"', '#hash', 'a|b', '100%', 'Ünï']
CATS = [('Transport', 'Rideshare'), ('Food', 'Grocery'), ('Shopping', ''), ('', ''), ('Bills', 'Utilities'), (' Food ', ' Sub')]
TAG_WORDS = ['business', 'Travel', 'x y', 'income', '{field.type}', 'RECURRING', 'a,b', 'ü', '#t']


def gen_tags(r):
    """(cell text, expected list)"""
    words = r.sample(TAG_WORDS, r.choice([0, 0, 1, 2, 3]))
    parts = []
    for w in words:
        parts.append(r.choice(['', ' ', '\t', '\xa0']) + w + r.choice(['', ' ', '  ']))
        if r.random() < 0.15:
            parts.append(r.choice(['', ' ', ' ']))        # an empty piece: dropped
    cell = '|'.join(parts)
    if r.random() < 0.15:
        cell = r.choice(['|', ' |', '| ']) + cell
    if r.random() < 0.2:
        cell = ' ' + cell + ' '
    return cell, [w.strip() for w in words]


def gen_table_case(r, wild=False):
    """A table under a header naming the five standard columns (+ maybe others), one generated rule per row; expected tuples from the
    generator's truth (oracle B).  Cells contain no line breaks; no row is blank or comment-looking as a physical line."""
    cols = list(STD)
    k = r.random()
    if k < 0.25:
        r.shuffle(cols)
    if r.random() < 0.15:
        cols.insert(r.randrange(len(cols) + 1), r.choice(['Notes', 'pattern', 'Tag', 'Pattern ', '']))
    if r.random() < 0.12:
        cols.remove('Tags')
    rows, exp = [], []
    for _ in range(r.choice([0, 1, 2, 3, 3, 4, 6])):
        if r.random() < 0.08:
            cell, truth = r.choice(['', ' ', '\t ']), None                      # empty pattern: the row is skipped
        else:
            cell, truth = gen_structured_cell(r, wild=wild, p_bad=0.15, breaks=False)
            if r.random() < 0.2:
                cell = r.choice([' ', '  ', '\t']) + cell + r.choice(['', ' '])
            if not cell.strip():
                truth = None
        merchant = r.choice(NAMES)
        cat, sub = r.choice(CATS)
        tcell, tags = gen_tags(r)
        vals = {'Pattern': cell, 'Merchant': merchant, 'Category': cat, 'Subcategory': sub, 'Tags': tcell}
        row = [vals.get(c, r.choice(['', 'note', 'UBER[amount>1]'])) for c in cols]
        if r.random() < 0.1:
            row += [r.choice(['extra', '', 'x,y'])]                               # a long row: the extra cells are ignored
        if row[0].lstrip().startswith('#') or not ''.join(row).strip():
            continue
        rows.append(row)
        if truth is None:
            continue
        if 'err' in truth:
            core = {'pattern': cps(cell.strip()), 'amount': [], 'date': []}      # ModifierParseError: the whole cell, no conditions
        else:
            core = truth['ok']
        exp.append(dict(core, merchant=cps(merchant), category=cps(cat), subcategory=cps(sub),
                        tags=[cps(t) for t in tags] if 'Tags' in cols else []))
    return cols, rows, {'ok': exp}


def write_table(r, cols, rows, eol='\n', quoting=csv.QUOTE_MINIMAL):
    buf = io.StringIO()
    w = csv.writer(buf, lineterminator=eol, quoting=quoting)
    w.writerow(cols)
    for row in rows:
        w.writerow(row)
    return buf.getvalue()


INERT_LINES = ['# comment', '#', '', '  ', '\t', '   # indented, with, commas', '#"unbalanced', '\xa0#nbsp first', '\x0b', '\x0c\x1c', '# [amount>5]',
               '#Pattern,Merchant,Category,Subcategory,Tags', '　', ' #x']


def insert_inert(r, text, eol='\n', n=None):
    """insert blank / comment physical lines at line boundaries of `text` (whose line ends are `eol`).  A last line without line end
    stays last and stays without line end (a line inserted behind it would change IT: it would gain a line end — inside an
    unterminated quoted cell that is data)."""
    lines = text.split(eol)
    last_open = lines[-1] != ''          # no final newline
    body = lines if last_open else lines[:-1]
    n = r.choice([1, 1, 2, 4]) if n is None else n
    slots = len(body) if last_open else len(body) + 1
    if slots == 0:
        return text
    spots = sorted(r.randrange(slots) for _ in range(n))
    out = []
    for i, l in enumerate(body + [None]):
        while spots and spots[0] == i:
            spots.pop(0)
            out.append(r.choice(INERT_LINES))
        if l is not None:
            out.append(l)
    return eol.join(out) if last_open else eol.join(out) + eol


HOSTILE_FILES = [
    '', '\n', '\n\n', '# only a comment\n', 'Pattern,Merchant,Category,Subcategory,Tags\n', 'Pattern,Merchant,Category,Subcategory,Tags',
    '﻿Pattern,Merchant,Category,Subcategory,Tags\nUBER,Uber,Transport,Ride,a|b\n',
    'Pattern,Merchant,Category,Subcategory,Tags\nUBER,Uber\n', 'Pattern,Merchant,Category,Subcategory,Tags\nUBER\n',
    'Pattern,Merchant,Category,Subcategory,Tags,Pattern\nUBER,Uber,T,R,a,LYFT\n', 'Pattern,Merchant,Category,Subcategory,Tags,Pattern\nUBER,Uber,T,R,a\n',
    'Pattern,Merchant,Category,Subcategory,Tags,Pattern\n,Uber,T,R,a,\nX,Y,Z,W,,V\n',
    'Pattern,Category,Subcategory\nUBER,T,R\n', 'Pattern,Category,Subcategory\n,T,R\n', 'Merchant,Category,Subcategory\nUBER,T,R\n',
    'Pattern,Merchant,Category\nUBER,U,T\n', 'Pattern,Merchant,Subcategory\nUBER,U,T\n', 'Pattern\nUBER\n', 'Pattern,Merchant\n,x\n',
    'Merchant,Pattern,Tags,Subcategory,Category\nUber,UBER[amount>5],x|y,R,T\n', 'pattern,merchant,category,subcategory,tags\nUBER,Uber,T,R,\n',
    'Pattern, Merchant,Category,Subcategory,Tags\nA,B,C,D,E\n', '"Pattern","Merchant","Category","Subcategory","Tags"\nA,B,C,D,E\n',
    'Pattern,Merchant,Category,Subcategory,Tags\n"UB\nER",Uber,T,R,\n', 'Pattern,Merchant,Category,Subcategory,Tags\n"UB\n#ER,x\nY",Uber,T,R,\n',
    'Pattern,Merchant,Category,Subcategory,Tags\n"UB\n\nY",Uber,"T\n   \nZ",R,\n', 'Pattern,Merchant,Category,Subcategory,Tags\n"UBER,Uber,T,R,\nLYFT,Lyft,T,R,\n',
    'Pattern,Merchant,Category,Subcategory,Tags\n"X[amount>5\n#]\n]",M,C,S,\n', 'Pattern,Merchant,Category,Subcategory,Tags\n"X[amount>5\n  \n]",M,C,S,"a\n#b\n|c"\n',
    'Pattern,Merchant,Category,Subcategory,Tags\r\nUBER,Uber,T,R,a|b\r\nLYFT,Lyft,T,R,\r\n', 'Pattern,Merchant,Category,Subcategory,Tags\rUBER,Uber,T,R,a|b\rLYFT,Lyft,T,R,\r',
    'Pattern,Merchant,Category,Subcategory,Tags\nA\rB,C,D,E,F\n', 'Pattern,Merchant,Category,Subcategory,Tags\n"A\rB",C,D,E,F\n',
    'Pattern,Merchant,Category,Subcategory,Tags\nA,B,C,D,E\r\r\nF,G,H,I,J\n', 'Pattern,Merchant,Category,Subcategory,Tags\n"A\r\nB",C,D,E,F\n',
    'Pattern,Merchant,Category,Subcategory,Tags\r\n#c\r\n\r\nA,B,C,D,E', 'Pattern,Merchant,Category,Subcategory,Tags\n\x0b\nA,B,C,D,E\n\x1c#x,y,z,w,\n\x85\n',
    'Pattern,Merchant,Category,Subcategory,Tags\nUB\x00ER,Uber,T,R,\n', 'Pattern,Merchant,Category,Subcategory,Tags\nA"B,C""D,"E"F,"G""H",\n',
    'Pattern,Merchant,Category,Subcategory,Tags\n"5"6,"a" b,"",,\n', 'Pattern,Merchant,Category,Subcategory,Tags\nX[amount>"5"6],M,C,S,\n',
    'Pattern,Merchant,Category,Subcategory,Tags\nX[month=13],M,C,S,\nY[date=2024-02-30][amount>5],M2,C,S,t\n',
    'Pattern,Merchant,Category,Subcategory,Tags\n  UBER[amount>5]  , Uber ,T,R,  a | | b|  \n', 'Pattern,Merchant,Category,Subcategory,Tags\nUBER,Uber,T,R\n',
    'Pattern,Merchant,Category,Subcategory,Tags\nUBER,Uber,T,R,a,extra,more\n', 'Pattern,Merchant,Category,Subcategory,Tags\n,\nUBER,Uber,T,R,\n',
    'Pattern,Merchant,Category,Subcategory,Tags\nUBER,Uber,T,R,\nX\n', 'Pattern,Merchant,Category,Subcategory,Tags\n A#,B,C,D,E\n #A,B,C,D,E\n',
    '# header comes later\n\nPattern,Merchant,Category,Subcategory,Tags\nA,B,C,D,E\n', 'UBER,Uber,T,R,\nPattern,Merchant,Category,Subcategory,Tags\n',
    'Pattern,Merchant,Category,Subcategory,Tags\n"",B,C,D,E\n""\nA,B,C,D,E\n', 'Pattern,Merchant,Category,Subcategory,Tags\n"\n",B,C,D,E\nA,B,C,D,E\n',
    'Pattern,Merchant,Category,Subcategory,Tags\nA,B,C,D,"x|""y""|#z"\n', 'Pattern,Pattern,Merchant,Category,Subcategory\nA,,M,C,S\n,B,M,C,S\n',
    'Pattern,Merchant,Category,Subcategory,Tags\n"A,B,C,D,E\n', 'Pattern,Merchant,Category,Subcategory,Tags\nA,B,C,D,"E\n', '"Pattern,Merchant\nA,B\n',
    '"\n', '"', '""\n', ',\n', ',,,,\n,,,,\n', 'Pattern\n\n\nA\n', 'Pattern,Merchant,Category,Subcategory\n"A"\n',
]


def gen_hostile_file(r):
    k = r.random()
    if k < 0.2:
        return r.choice(HOSTILE_FILES)
    cols, rows, _ = gen_table_case(r, wild=r.random() < 0.3)
    # hostile cells, line breaks inside cells, short / long rows, header damage
    for row in rows:
        if r.random() < 0.3:
            row[r.randrange(len(row))] = gen_hostile_cell(r)
        if r.random() < 0.15:
            i = r.randrange(len(row))
            row[i] = row[i] + r.choice(['\n', '\n#x\n', '\n \n', '\r', '\r\n', '\n"', '\n,']) + r.choice(['', 'tail', '#tail', ' '])
        if r.random() < 0.12:
            del row[r.randrange(1, len(row) + 1) - 1:]
        elif r.random() < 0.1:
            row += ['extra'] * r.randint(1, 3)
    if r.random() < 0.3:
        j = r.random()
        if j < 0.3 and len(cols) > 1:
            del cols[r.randrange(len(cols))]
        elif j < 0.6:
            cols.insert(r.randrange(len(cols) + 1), r.choice(STD))
        elif j < 0.8:
            i = r.randrange(len(cols))
            cols[i] = r.choice([cols[i].lower(), ' ' + cols[i], cols[i] + ' ', '﻿' + cols[i], cols[i] + '\n'])
        else:
            cols = []
    eol = r.choice(['\n', '\n', '\n', '\r\n', '\r'])
    text = write_table(r, cols, [row for row in rows if row] if r.random() < 0.9 else rows, eol=eol,
                       quoting=r.choice([csv.QUOTE_MINIMAL, csv.QUOTE_MINIMAL, csv.QUOTE_ALL, csv.QUOTE_NONNUMERIC]))
    if r.random() < 0.5:
        text = insert_inert(r, text, eol=eol)
    j = r.random()
    if j < 0.1:
        text = '﻿' + text
    elif j < 0.25 and text.endswith(eol):
        text = text[:-len(eol)]
    elif j < 0.4:
        for _ in range(r.choice([1, 2, 3])):
            text = mutate_file(r, text)
    return text


def mutate_file(r, s):
    if not s:
        return r.choice(['"', ',', '\n', '#'])
    i = r.randrange(len(s))
    k = r.random()
    if k < 0.4:
        return s[:i] + r.choice(['"', '""', ',', '\n', '\r', '\r\n', '#', ' ', '|', '\n#', '\n\n', '"\n', ',"']) + s[i:]
    if k < 0.8:
        return s[:i] + s[i + 1:]
    return s[:i] + r.choice(['"', ',', '\n']) + s[i + 1:]


# ------------------------------------------------------------------------------------------------ implementation-only oracles

def oracle_A(cell, exp):
    got = impl_parse(cell)
    if got != exp:
        return {'class': 'legacy.modifier-cell-not-read-by-structure', 'legacy_oracle': 'A', 'cell': cell, 'observed': show(got), 'required': show(exp),
                'failure': 'parse_pattern_with_modifiers does not return the pattern and the conditions the cell is spelled from'}
    return None


TEXT_KEYS = {'pattern', 'merchant', 'category', 'subcategory', 'pattern_of_parsed'}


TAILS = ['Y', ' ', '\n', '?', '*', ')', '[x', '$', '\t', '[amount', '[amount>5', ' [', '\xa0', ']x', '].', '\\']


def oracle_A2(cell):
    """a cell that does not end with `]` carries no modifiers"""
    if cell.endswith(']'):
        return None
    got = impl_parse(cell)
    exp = {'ok': {'pattern': cps(cell), 'amount': [], 'date': []}}
    if got != exp:
        return {'class': 'legacy.modifier-not-at-the-end-was-read', 'legacy_oracle': 'A', 'cell': cell, 'observed': show(got), 'required': show(exp),
                'failure': 'a cell that does not end with ] is not returned whole and without conditions'}
    return None


def show(x, key=None):
    """decode code point lists for the replay file"""
    if isinstance(x, dict):
        return {k: show(v, k) for k, v in x.items()}
    if isinstance(x, list):
        if key in TEXT_KEYS:
            return uncps(x)
        if key == 'tags':
            return [uncps(t) for t in x]
        return [show(i) for i in x]
    return x


def oracle_B(text, exp, b):
    got = impl_load(text, b)
    if got != exp:
        return {'class': 'legacy.written-table-not-loaded-row-by-row', 'legacy_oracle': 'B', 'file_text': text, 'observed': show(got), 'required': show(exp),
                'failure': 'load_merchant_rules does not return one tuple per written row with a non-empty pattern (names as written, '
                           'tags split on |, modifiers read by structure, a ModifierParseError row keeping its whole cell)'}
    return None


def kept_physical_lines(text):
    """the hypothesis of `comment_lines_inert`, computed here: the physical lines (after newline translation) that are neither blank
    nor comments"""
    t = text.replace('\r\n', '\n').replace('\r', '\n')
    return [l for l in re.findall(r'[^\n]*\n|[^\n]+', t) if l.strip() and not l.strip().startswith('#')]


def inert_variant(text, variant):
    """is `variant` = `text` with blank / comment physical lines inserted (or CRLF line ends on a CR-free text)?"""
    if '\r' not in text and variant == text.replace('\n', '\r\n'):
        return True
    return kept_physical_lines(text) == kept_physical_lines(variant)


def oracle_C(r, text, b, eol='\n'):
    """metamorphic: inert physical lines, CRLF"""
    base = impl_load(text, b)
    if str(base.get('err', '')).startswith('Other:'):
        return None
    t2 = insert_inert(r, text, eol=eol)
    if not inert_variant(text, t2):
        return None         # (cannot happen; guards the oracle against a generator that alters a kept line)
    got = impl_load(t2, b)
    if got != base:
        return {'class': 'legacy.comment-or-blank-line-not-inert', 'legacy_oracle': 'C', 'file_text': text, 'variant_text': t2, 'observed': show(got),
                'required': show(base), 'failure': 'inserting blank / comment lines changed what load_merchant_rules returns'}
    if '\r' not in text:
        t3 = text.replace('\n', '\r\n')
        got = impl_load(t3, b)
        if got != base:
            return {'class': 'legacy.crlf-differs-from-lf', 'legacy_oracle': 'C', 'file_text': text, 'variant_text': t3, 'observed': show(got),
                    'required': show(base), 'failure': 'the same file with CRLF line ends loads differently'}
    return None


def replay(ce, b):
    """re-execute a stored counterexample of one of the oracles above; returns the failure (dict) or None"""
    import random
    kind = ce.get('legacy_oracle')
    if kind == 'A':
        return oracle_A(ce['cell'], unshow_expected(ce['required']))
    if kind == 'B':
        return oracle_B(ce['file_text'], unshow_expected(ce['required']), b)
    if kind == 'C':
        if not inert_variant(ce['file_text'], ce['variant_text']):
            print('replay: the stored variant is not the file with blank / comment lines inserted (stale replay of a generator defect)')
            return None
        base = impl_load(ce['file_text'], b)
        got = impl_load(ce['variant_text'], b)
        if got != base:
            return dict(ce, observed=show(got), required=show(base))
        return None
    return None


def unshow_expected(x, key=None):
    """inverse of `show`"""
    if isinstance(x, dict):
        return {k: unshow_expected(v, k) for k, v in x.items()}
    if isinstance(x, str) and key in TEXT_KEYS:
        return cps(x)
    if isinstance(x, list):
        if key == 'tags':
            return [cps(t) for t in x]
        return [unshow_expected(i) for i in x]
    return x


# ------------------------------------------------------------------------------------------------ the streams

def char_class_stream(ctx):
    """the character classes the scanners assume, against CPython's re over ALL code points"""
    allchars = ''.join(chr(c) for c in range(0x110000) if not 0xD800 <= c <= 0xDFFF)
    d = common.Driver()
    m = d.batch([{'op': 'legacycsv', 'kind': 'ciset'}, {'op': 'spaces'}])
    bad = []
    for a in 'lastdy':
        py = sorted(ord(c) for c in re.findall('(?i)' + a, allchars))
        if py != m[0][a]:
            bad.append({'letter': a, 'cpython': py[:12], 'model': m[0][a][:12]})
    py_s = sorted(ord(c) for c in re.findall(r'\s', allchars))
    mo_s = sorted(m[1].get('spaces', m[1].get('set', [])))
    if py_s != mo_s:
        bad.append({'class': '\\s', 'cpython': py_s, 'model': mo_s})
    py_d = [c for c in re.findall(r'\d', allchars)]
    if any(not c.isdecimal() for c in py_d) or len(py_d) != sum(1 for c in allchars if c.isdecimal()):
        bad.append({'class': '\\d is not str.isdecimal'})
    for c in py_d:
        try:
            ok = float(c) == unicodedata.decimal(c) == int(c)
        except ValueError:
            ok = False
        if not ok:
            bad.append({'class': '\\d', 'char': ord(c), 'what': 'int()/float() do not read its decimal value'})
            break
    ctx.obligation('correspondence:re-IGNORECASE/\\s/\\d-vs-Legacy.ciMatch/Csv.isPySpace/digit-table', 'correspondence', not bad,
                   cases=6 + 2, error=json.dumps(bad[0])[:600] if bad else None)
    both = [ord(c) for c in py_d if c.isspace()] + [c for c in py_s if chr(c).isdecimal()]
    ctx.obligation('hypothesis:Legacy.H_space(no-\\s-character-is-a-decimal-digit; CPython tables, all code points)', 'assumption-test', not both,
                   cases=len(py_d) + len(py_s), error=json.dumps(both[:5]) if both else None)
    return 8


def pattern_stream(ctx, r, cells):
    d = common.Driver()
    model = d.batch([dict({'op': 'legacycsv', 'kind': 'pattern', 'text': cps(c)}, **oracle_tables(c)) for c in cells])
    bad, stats = [], {'cells': len(cells), 'ok_with_conditions': 0, 'ok_two_or_more_conditions': 0, 'ModifierParseError': 0,
                      'block_text_left_in_the_pattern': 0, 'non_ascii_digit_or_blank': 0}
    for c, mo in zip(cells, model):
        im = impl_parse(c)
        if model_clean(mo) != im:
            bad.append({'cell': c, 'implementation': show(im), 'model': show(model_clean(mo))})
        if 'ok' in im:
            n = len(im['ok']['amount']) + len(im['ok']['date'])
            stats['ok_with_conditions'] += n > 0
            stats['ok_two_or_more_conditions'] += n > 1
            stats['block_text_left_in_the_pattern'] += any(o in uncps(im['ok']['pattern']) for o in OPENERS)
        else:
            stats['ModifierParseError'] += 1
        stats['non_ascii_digit_or_blank'] += not c.isascii()
    ctx.obligation('correspondence:parse_pattern_with_modifiers-vs-Legacy.parsePattern', 'correspondence', not bad, cases=len(cells),
                   error=json.dumps(bad[0], default=str)[:1200] if bad else None)
    return stats, bad


def file_stream(ctx, r, texts, b):
    d = common.Driver()
    model = d.batch([dict({'op': 'legacycsv', 'kind': 'file', 'text': cps(t)}, **oracle_tables(t)) for t in texts])
    bad, stats = [], {'files': len(texts), 'rules_loaded': 0, 'files_with_two_or_more_rules': 0, 'AttributeError': 0, 'KeyError': 0,
                      'files_with_a_None_name(short row)': 0, 'files_with_conditions': 0, 'files_with_CR': 0, 'files_with_quoted_line_break': 0,
                      'empty_result': 0}
    for t, mo in zip(texts, model):
        im = impl_load(t, b)
        if model_clean(mo) != im:
            bad.append({'file_text': t, 'implementation': show(im), 'model': show(model_clean(mo))})
        if 'ok' in im:
            rs = im['ok']
            stats['rules_loaded'] += len(rs)
            stats['files_with_two_or_more_rules'] += len(rs) > 1
            stats['files_with_a_None_name(short row)'] += any(x['merchant'] is None or x['category'] is None or x['subcategory'] is None for x in rs)
            stats['files_with_conditions'] += any(x['amount'] or x['date'] for x in rs)
            stats['empty_result'] += not rs
        elif im['err'] in stats:
            stats[im['err']] += 1
        stats['files_with_CR'] += '\r' in t
        stats['files_with_quoted_line_break'] += bool(re.search(r'"[^"\n]*\n', t))
    ctx.obligation('correspondence:load_merchant_rules-vs-Legacy.loadRules', 'correspondence', not bad, cases=len(texts),
                   error=json.dumps(bad[0], default=str)[:1500] if bad else None)
    return stats, bad


def structured_oracles(r, n_cells, n_tables, b, n_hostile=0):
    """oracles A, A2, B, C on freshly generated structured cases (C also on `n_hostile` hostile files without carriage returns: the
    theorems comment_lines_inert / crlf_is_lf hold for EVERY text); returns (failures, evaluations, nontrivial)"""
    fails, ev, nontrivial = [], 0, 0
    for _ in range(n_hostile):
        text = gen_hostile_file(r)
        if '\r' in text:
            continue
        pf = oracle_C(r, text, b)
        ev += 3
        if pf:
            fails.append(pf)
    for i in range(n_cells):
        cell, exp = gen_structured_cell(r, wild=i % 3 == 0, p_bad=0.2)
        pf = oracle_A(cell, exp)
        ev += 1
        nontrivial += 'err' in exp or len(exp['ok']['amount']) + len(exp['ok']['date']) > 0
        if pf:
            fails.append(pf)
        if i % 3 == 1:
            pf = oracle_A2(cell + r.choice(TAILS)) or oracle_A2(gen_hostile_cell(r))
            ev += 2
            if pf:
                fails.append(pf)
    for i in range(n_tables):
        cols, rows, exp = gen_table_case(r, wild=i % 4 == 0)
        eol = r.choice(['\n', '\n', '\r\n', '\r'])
        text = write_table(r, cols, rows, eol=eol, quoting=r.choice([csv.QUOTE_MINIMAL, csv.QUOTE_MINIMAL, csv.QUOTE_ALL]))
        if r.random() < 0.4:
            text = insert_inert(r, text, eol=eol)
        pf = oracle_B(text, exp, b) or oracle_C(r, text, b, eol=eol)
        ev += 3
        nontrivial += len(exp['ok']) > 1
        if pf:
            fails.append(pf)
    return fails, ev, nontrivial


def gen_cells(r, n):
    cells = list(HOSTILE_CELLS)
    for i in range(n):
        if i % 2 == 0:
            cells.append(gen_structured_cell(r, wild=i % 6 == 0, p_bad=0.2)[0])
        else:
            cells.append(gen_hostile_cell(r))
    return [c for c in dict.fromkeys(cells) if not any(0xD800 <= ord(ch) <= 0xDFFF for ch in c)]


def gen_files(r, n):
    texts = list(HOSTILE_FILES)
    for i in range(n):
        if i % 2 == 0:
            cols, rows, _ = gen_table_case(r, wild=i % 6 == 0)
            eol = r.choice(['\n', '\n', '\r\n', '\r'])
            t = write_table(r, cols, rows, eol=eol)
            if r.random() < 0.5:
                t = insert_inert(r, t, eol=eol)
            texts.append(t)
        else:
            texts.append(gen_hostile_file(r))
    return list(dict.fromkeys(texts))


def run_streams(ctx, r, b):
    """all legacy-loader streams of a normal run; returns (property failures, evaluations)"""
    quick = ctx.quick
    ev = 0
    try:
        ev += char_class_stream(ctx)
        cells = gen_cells(r, 2500 if quick else 120000)
        pstats, _ = pattern_stream(ctx, r, cells)
        texts = gen_files(r, 700 if quick else 30000)
        fstats, _ = file_stream(ctx, r, texts, b)
        ev += len(cells) + len(texts)
    except Exception:
        import traceback
        ctx.obligation('correspondence:legacy-loader-driver', 'correspondence', False, error=traceback.format_exc()[-1500:])
        pstats = fstats = {}
    fails, n, nontrivial = structured_oracles(r, 1500 if quick else 60000, 400 if quick else 15000, b, n_hostile=500 if quick else 20000)
    ev += n
    ctx.notes['legacy_loader_streams'] = {'pattern_cells': pstats, 'rule_files': fstats,
                                          'structured_oracle_cases(A cells, B+C tables)': n, 'of_which_nontrivial': nontrivial}
    return fails, ev, (pstats.get('ok_with_conditions', 0) + pstats.get('ModifierParseError', 0) + fstats.get('files_with_two_or_more_rules', 0))


def search(ctx, r, b):
    """bigger budget of the implementation-only oracles (called when an obligation is broken)"""
    fails, n, _ = structured_oracles(r, 20000 if ctx.quick else 200000, 4000 if ctx.quick else 40000, b, n_hostile=6000 if ctx.quick else 60000)
    ctx.cov['evaluations'] += n
    return fails[:1]
