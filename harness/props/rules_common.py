"""Shared correspondence + oracles for the rule-list properties C01, C02, C09.

Correspondence ("mbits" tie): the per-rule evaluation `ev` (did lets+match evaluate truthy, what do
the tags resolve to, what do the field directives give) is computed with the implementation's OWN
primitives (engine._evaluate_let_bindings, expr_parser.matches_transaction, engine._resolve_tags …);
the list algorithm (loop guard, first match, max by key, tag union) is the Lean model
`Rules.matchEngine` / `Rules.legacy`; the result is compared with `MerchantEngine.match` /
`normalize_merchant`.  The theorems hold for every `ev`.
"""
import copy
import json
import os
import re
import shutil
import tempfile

from .. import common, regen
from ..gen import rules as G


def canon_val(v):
    from .. import exprs
    return exprs.canon_field(v)


def txn_for_engine(txn):
    t = {'description': txn['description'], 'amount': txn['amount'] or 0, 'field': copy.deepcopy(txn.get('field')),
         'source': txn.get('source'), 'location': txn.get('location')}
    if txn.get('date'):
        t['date'] = txn['date']
    return t


class Raised(Exception):
    pass


def engine_observe(text, mode, txn, data_sources=None):
    """Run the real engine. Returns (impl_canon, model_case) or raises Raised(cls) if a non-ExpressionError escaped."""
    from tally import merchant_engine as ME, expr_parser as EP
    eng = ME.parse_merchants(text, match_mode=mode)
    t = txn_for_engine(txn)
    by_name = {}
    for r in eng.rules:
        by_name.setdefault(r.name, r.line_number)
    try:
        res = eng.match(copy.deepcopy(t), data_sources=data_sources)
        gv = eng._evaluate_variables(copy.deepcopy(t), data_sources)
        evs = []
        for rule in eng.rules:
            try:
                variables = eng._evaluate_let_bindings(rule, copy.deepcopy(t), gv, data_sources) if rule.let_bindings else gv
                hit = bool(EP.matches_transaction(rule.match_expr, copy.deepcopy(t), variables, data_sources))
            except EP.ExpressionError:
                hit, variables = False, gv
            tags, fields = [], []
            if hit:
                tags = sorted(eng._resolve_tags(rule, copy.deepcopy(t), variables, data_sources))
                if rule.fields:
                    fields = [[k, canon_val(v)] for k, v in eng._evaluate_fields(rule, copy.deepcopy(t), variables, data_sources).items()]
            evs.append({'hit': hit, 'tags': tags, 'fields': fields})
    except EP.ExpressionError:
        raise
    except Exception as e:  # D8 territory (C08): a Python exception escaped the engine
        raise Raised(type(e).__name__)
    impl = {
        'matched': res.matched, 'merchant': res.merchant, 'category': res.category, 'subcategory': res.subcategory,
        'tags': sorted(res.tags),
        'matched_rule': res.matched_rule.line_number if res.matched_rule else None,
        'merchant_rule': res.merchant_rule.line_number if res.merchant_rule else None,
        'subcategory_rule': res.subcategory_rule.line_number if res.subcategory_rule else None,
        'all_matching': [r.line_number for r in res.all_matching_rules],
        'extra_fields': [[k, canon_val(v)] for k, v in res.extra_fields.items()],
        'tag_sources': sorted([[tag, src['rule']] for tag, src in res.tag_sources.items()]),
        'keys': [list(ME.calculate_specificity(r)) for r in eng.rules],
    }
    case = {'op': 'match', 'mode': mode,
            'rules': [{'line': r.line_number, 'name': r.name, 'merchant': r.merchant, 'category': r.category,
                       'subcategory': r.subcategory, 'priority': r.priority, 'match': r.match_expr} for r in eng.rules],
            'evs': evs}
    return impl, case, eng


def model_view(model, case):
    """The model names the source rule of a tag by its line; MatchResult.tag_sources names it by rule name."""
    if 'tag_sources' not in model:
        return model
    name_of = {r['line']: r['name'] for r in case['rules']}
    return dict(model, tag_sources=sorted([[t, name_of.get(l, l)] for t, l in model['tag_sources']]))


def compare_engine(impl, model, case=None):
    if case is not None:
        model = model_view(model, case)
    diffs = []
    for k, v in impl.items():
        if model.get(k) != v:
            diffs.append(k)
    return diffs


# ------------------------------------------------------------------ normalize_merchant wrapper (+ transforms)

class Budget:
    """Scratch directory outside /repo and /verif."""
    def __enter__(self):
        self.dir = tempfile.mkdtemp(prefix='tvrules_')
        return self

    def __exit__(self, *a):
        shutil.rmtree(self.dir, ignore_errors=True)

    def write(self, name, text):
        p = os.path.join(self.dir, name)
        with open(p, 'w', encoding='utf-8', newline='') as f:
            f.write(text)
        return p


def normalize_via_file(path, mode, txn, data_sources=None, clear=True):
    from tally import merchant_utils as MU
    if clear:
        MU.clear_engine_cache()
    rules = MU.get_all_rules(path, match_mode=mode)
    transforms = MU.get_transforms(path, match_mode=mode)
    try:
        out = MU.normalize_merchant(txn['description'], rules, amount=txn['amount'], txn_date=txn.get('date'),
                                    field=copy.deepcopy(txn.get('field')), data_source=txn.get('source'),
                                    transforms=transforms, location=txn.get('location'), data_sources=data_sources)
    finally:
        if clear:
            MU.clear_engine_cache()
    return out, rules, transforms


def transformed_txn(txn, transforms):
    """What the implementation's apply_transforms makes of the transaction, plus the per-step values (for the model)."""
    from tally import merchant_utils as MU, expr_parser as EP
    t = txn_for_engine(txn)
    steps = []
    for field_path, expr in transforms:
        # one transform at a time, observing the value the implementation computed
        before = copy.deepcopy(t)
        MU.apply_transforms(t, [(field_path, expr)])
        name = field_path[6:]
        try:
            ctx = EP.TransactionContext.from_transaction(before)
            val = str(EP.TransactionEvaluator(ctx).evaluate(EP.parse_expression(expr)))
        except Exception:
            val = None
        steps.append([name, val])
    return t, steps


# ------------------------------------------------------------------ legacy CSV loop

def legacy_observe(path, txn):
    """normalize_merchant on a legacy CSV file: implementation result + per-tuple outcomes from its own primitives."""
    from tally import merchant_utils as MU, expr_parser as EP
    from tally.modifier_parser import check_all_conditions
    (m, c, s, info), rules, _ = normalize_via_file(path, 'first_match', txn)
    t = txn_for_engine(txn)
    evs, lrules = [], []
    for i, rule in enumerate(rules):
        pattern, merchant, category, subcategory, parsed, source, tags = rule
        outcome = 'noMatch'
        try:
            use_regex = not MU._is_expression_pattern(pattern)
            hit = False
            if not use_regex:
                try:
                    hit = EP.matches_transaction(pattern, copy.deepcopy(t))
                except EP.ExpressionError:
                    use_regex = True      # (after the D1 repair) not an expression after all: it is a regex
            if use_regex:
                if re.search(pattern, t['description'].upper(), re.IGNORECASE):
                    if parsed and (parsed.amount_conditions or parsed.date_conditions):
                        hit = check_all_conditions(parsed, txn['amount'], txn.get('date'))
                    else:
                        hit = True
            outcome = 'matched' if hit else 'noMatch'
        except (re.error, EP.ExpressionError):
            outcome = 'skipped'
        rtags = MU._resolve_dynamic_tags(tags, copy.deepcopy(t)) if (outcome == 'matched' and tags) else []
        evs.append({'outcome': outcome, 'tags': rtags})
        lrules.append({'idx': i, 'pattern': pattern, 'merchant': merchant, 'category': category,
                       'subcategory': subcategory, 'source': source})
    fallback = MU.extract_merchant_name(t['description'])
    impl = {'merchant': m, 'category': c, 'subcategory': s,
            'tags': (info or {}).get('tags', []),
            'rule': None}
    if info and info.get('pattern') is not None:
        # identify the winning tuple by pattern text (first tuple with that pattern, category and merchant)
        for lr in lrules:
            if lr['pattern'] == info['pattern'] and lr['merchant'] == m and lr['category'] == c:
                impl['rule'] = lr['idx']
                break
    case = {'op': 'legacy', 'rules': lrules, 'evs': evs, 'fallback': fallback}
    return impl, case, rules


def legacy_spec_truth(rule, txn):
    """The property's reading of a legacy CSV rule: its pattern is a regular expression searched
    (case-insensitively) in the description, and all its amount/date/month modifiers hold."""
    from tally.modifier_parser import check_all_conditions
    pattern, merchant, category, subcategory, parsed, source, tags = rule
    try:
        # the CSV path's documented reading (D14h): the pattern is searched, ignoring case, in the UPPER-CASED description
        # (so `STRASSE` finds `Hauptstraße`); for ASCII descriptions the same as searching the description itself
        if not re.search(parsed.regex_pattern, txn['description'].upper(), re.IGNORECASE):
            return False
    except re.error:
        return None
    if parsed.amount_conditions or parsed.date_conditions:
        return bool(check_all_conditions(parsed, txn['amount'], txn.get('date')))
    return True


# ------------------------------------------------------------------ implementation-only oracles

def spec_resolve_tags(eng, rule, t, variables, data_sources=None, written=None):
    """C02's wording, written independently of _resolve_tags. `written` = the tags as the FILE states them (the loader's
    own copy, rule.tags, is used only when the caller has nothing else)."""
    from tally import expr_parser as EP
    out = set()
    for tag in (rule.tags if written is None else written):
        tag = tag.strip()
        if not tag:
            continue
        if tag.startswith('{') and tag.endswith('}'):
            e = tag[1:-1].strip()
            if not e:
                continue
            try:
                v = EP.evaluate_transaction(e, copy.deepcopy(t), variables=variables, data_sources=data_sources)
            except EP.ExpressionError:
                continue
            vals = v if isinstance(v, list) else [v]
            for x in vals:
                if x:
                    s = str(x).strip().lower()
                    if s:
                        out.add(s)
        else:
            out.add(tag.lower())
    return out


def spec_globals(f, t, data_sources=None):
    """the file's top-level variables, evaluated in file order by the harness itself (a variable that cannot be evaluated for this
    transaction stays undefined) — independent of which variables the engine chooses to evaluate"""
    from tally import expr_parser as EP
    vs = {}
    for name, expr in f.get('variables', {}).items():
        try:
            vs[name.lower()] = EP.evaluate_transaction(expr, copy.deepcopy(t), variables=dict(vs), data_sources=data_sources)
        except EP.ExpressionError:
            pass
    return vs


def rule_truth(eng, rule, t, gv, data_sources=None):
    from tally import expr_parser as EP
    try:
        variables = eng._evaluate_let_bindings(rule, copy.deepcopy(t), gv, data_sources) if rule.let_bindings else gv
        return bool(EP.matches_transaction(rule.match_expr, copy.deepcopy(t), variables, data_sources)), variables
    except EP.ExpressionError:
        return False, gv


def file_with(f, rules):
    g = dict(f)
    g['rules'] = rules
    return g


def mcs_of(text, mode, txn):
    from tally import merchant_engine as ME
    res = ME.parse_merchants(text, match_mode=mode).match(txn_for_engine(txn))
    return (res.merchant, res.category, res.subcategory)


def oracle_c01(f, txn, r):
    """first matching categorising rule decides; non-matching rules irrelevant; later rules irrelevant."""
    from tally import merchant_engine as ME
    fails = []
    text = G.render_rules(f)
    eng = ME.parse_merchants(text, 'first_match')
    t = txn_for_engine(txn)
    gv = spec_globals(f, t)            # the file's variables evaluated by the harness (undefined where they cannot be evaluated)
    truth = [rule_truth(eng, rule, t, gv)[0] for rule in eng.rules]
    # conditions whose truth the harness knows WITHOUT the evaluator: a range over the amount / the month written as a comparison chain of
    # numeric literals is true exactly when Python's own chain over the same numbers is
    for i, rule in enumerate(eng.rules):
        if re.fullmatch(r'-?[\d.]+(e-?\d+)? (<|<=|>|>=) (amount|month) (<|<=|>|>=) -?[\d.]+(e-?\d+)?( (<|<=|>|>=) -?[\d.]+(e-?\d+)?)?', rule.match_expr) \
                and (txn.get('date') or 'month' not in rule.match_expr):
            own = bool(eval(rule.match_expr, {'__builtins__': {}}, {'amount': t.get('amount') or 0, 'month': txn['date'].month if txn.get('date') else 0}))
            if own != truth[i]:
                fails.append({'class': 'condition-misjudged', 'rules': text, 'txn': jtxn(txn), 'rule': rule.name, 'condition': rule.match_expr,
                              'observed (the evaluator)': truth[i], 'required (the same comparison chain over the same numbers)': own})
            truth[i] = own
    res = eng.match(copy.deepcopy(t))
    win = next((i for i, rule in enumerate(eng.rules) if truth[i] and rule.category), None)
    want = (eng.rules[win].merchant, eng.rules[win].category, eng.rules[win].subcategory) if win is not None else ('', '', '')
    if win is not None and len(eng.rules) == len(f['rules']) and all(x.name == y['name'] for x, y in zip(eng.rules, f['rules'])):
        # what the FILE states for the winning section (not the loader's copy of it): free text to the end of the line
        w = f['rules'][win]
        want = (w.get('merchant', w['name']), w.get('category', ''), w.get('subcategory', ''))
    got = (res.merchant, res.category, res.subcategory)
    if got != want:
        fails.append({'class': 'first-match', 'rules': text, 'txn': jtxn(txn), 'observed': got, 'required': want})
    # delete the non-matching rules: nothing may change
    kept = [rule for rule, tr in zip(f['rules'], truth) if tr]
    if len(kept) != len(f['rules']):
        res2 = ME.parse_merchants(G.render_rules(file_with(f, kept)), 'first_match').match(copy.deepcopy(t))
        a = (res.merchant, res.category, res.subcategory, sorted(res.tags), [x.name for x in res.all_matching_rules],
             sorted(res.extra_fields.items(), key=str))
        b = (res2.merchant, res2.category, res2.subcategory, sorted(res2.tags), [x.name for x in res2.all_matching_rules],
             sorted(res2.extra_fields.items(), key=str))
        if a != b:
            fails.append({'class': 'nonmatching-rule-influences', 'rules': text, 'txn': jtxn(txn), 'observed': b, 'required': a})
    # replace everything after the winner
    if win is not None:
        tail = G.gen_rules_file(r, txn, n=r.choice([0, 1, 3]))['rules']
        for i, x in enumerate(tail):
            x['name'] = f'Late{i}'
        res3 = ME.parse_merchants(G.render_rules(file_with(f, f['rules'][:win + 1] + tail)), 'first_match').match(copy.deepcopy(t))
        if (res3.merchant, res3.category, res3.subcategory) != got:
            fails.append({'class': 'later-rule-influences', 'rules': text, 'txn': jtxn(txn),
                          'tail': [x['match'] for x in tail],
                          'observed': (res3.merchant, res3.category, res3.subcategory), 'required': got})
    return fails


def oracle_c02(f, txn, r):
    from tally import merchant_engine as ME
    fails = []
    text = G.render_rules(f)
    t = txn_for_engine(txn)
    results = {}
    for mode in ('first_match', 'most_specific'):
        eng = ME.parse_merchants(text, mode)
        gv = spec_globals(f, t)
        want = set()
        aligned = len(eng.rules) == len(f['rules']) and all(x.name == y['name'] for x, y in zip(eng.rules, f['rules']))
        sg = spec_globals(f, t)
        for k, rule in enumerate(eng.rules):
            tr, variables = rule_truth(eng, rule, t, gv)
            if tr:
                want |= spec_resolve_tags(eng, rule, t, dict(sg, **variables), written=f['rules'][k].get('tags', []) if aligned else None)
        res = eng.match(copy.deepcopy(t))
        results[mode] = res
        if set(res.tags) != want:
            fails.append({'class': 'tags-not-union', 'mode': mode, 'rules': text, 'txn': jtxn(txn),
                          'observed': sorted(res.tags), 'required': sorted(want)})
        # permutation: same tag set
        perm = list(f['rules'])
        r.shuffle(perm)
        res_p = ME.parse_merchants(G.render_rules(file_with(f, perm)), mode).match(copy.deepcopy(t))
        if set(res_p.tags) != set(res.tags):
            fails.append({'class': 'tags-order-dependent', 'mode': mode, 'rules': text, 'txn': jtxn(txn),
                          'permuted': [x['name'] for x in perm], 'observed': sorted(res_p.tags), 'required': sorted(res.tags)})
        # a rule without category (and without subcategory) inserted anywhere never changes merchant/category/subcategory
        base = [x for x in f['rules']]
        tagrule = {'name': 'InsertedTag', 'match': G.gen_match(r, txn, tuple(f['variables'])), 'tags': ['zz']}
        if r.random() < 0.5:
            tagrule['match'] = 'amount == amount'     # always true
        if r.random() < 0.3:
            tagrule['priority'] = 100
        pos = r.randint(0, len(base))
        res_i = ME.parse_merchants(G.render_rules(file_with(f, base[:pos] + [tagrule] + base[pos:])), mode).match(copy.deepcopy(t))
        if (res_i.merchant, res_i.category, res_i.subcategory) != (res.merchant, res.category, res.subcategory):
            fails.append({'class': 'tag-only-rule-categorises', 'mode': mode, 'rules': text, 'txn': jtxn(txn),
                          'inserted': tagrule, 'position': pos,
                          'observed': (res_i.merchant, res_i.category, res_i.subcategory),
                          'required': (res.merchant, res.category, res.subcategory)})
    if set(results['first_match'].tags) != set(results['most_specific'].tags):
        fails.append({'class': 'tags-mode-dependent', 'rules': text, 'txn': jtxn(txn)})
    return fails


PINNED_FUNCS = ['contains(', 'regex(', 'normalized(', 'startswith(', 'fuzzy(', 'anyof(']
PINNED_KWS = ['amount', 'date', 'month', 'year', 'day', 'weekday', 'source', 'field.']


def spec_key(rule, written_priority=None):
    """The ranking the property states, computed without calling calculate_specificity:
    (explicit priority — as WRITTEN in the file when the caller knows it, default 50 —, number of pattern conditions, number of
    constraint kinds, total pattern length)."""
    e = rule.match_expr.lower()
    pats = sum(e.count(f) for f in PINNED_FUNCS)
    kinds = sum(1 for k in PINNED_KWS if k in e)
    length = sum(len(x) for x in re.findall(r'"([^"]*)"', rule.match_expr)) + \
        sum(len(x) for x in re.findall(r"'([^']*)'", rule.match_expr))
    return (rule.priority if written_priority is None else written_priority, pats, kinds, length)


def oracle_c09(f, txn, r):
    from tally import merchant_engine as ME
    fails = []
    text = G.render_rules(f)
    t = txn_for_engine(txn)
    eng = ME.parse_merchants(text, 'most_specific')
    gv = spec_globals(f, t)
    truth = [rule_truth(eng, rule, t, gv)[0] for rule in eng.rules]
    res = eng.match(copy.deepcopy(t))
    aligned = len(eng.rules) == len(f['rules']) and all(x.name == y['name'] for x, y in zip(eng.rules, f['rules']))
    keys = [spec_key(rule, f['rules'][k].get('priority', 50) if aligned else None) for k, rule in enumerate(eng.rules)]
    cands = [i for i, rule in enumerate(eng.rules) if truth[i] and rule.category]
    if cands:
        best = cands[0]
        for i in cands[1:]:
            if keys[i] > keys[best]:
                best = i
        if res.matched_rule is not eng.rules[best] or res.category != eng.rules[best].category:
            fails.append({'class': 'winner-not-most-specific', 'rules': text, 'txn': jtxn(txn),
                          'observed': res.category, 'required': eng.rules[best].category,
                          'keys': {eng.rules[i].name: keys[i] for i in cands}})
    elif res.matched:
        fails.append({'class': 'category-without-matching-rule', 'rules': text, 'txn': jtxn(txn)})
    subs = [i for i, rule in enumerate(eng.rules) if truth[i] and rule.subcategory]
    if subs:
        best = subs[0]
        for i in subs[1:]:
            if keys[i] > keys[best]:
                best = i
        if res.subcategory != eng.rules[best].subcategory:
            fails.append({'class': 'subcategory-not-most-specific', 'rules': text, 'txn': jtxn(txn),
                          'observed': res.subcategory, 'required': eng.rules[best].subcategory})
    # permutation invariance when the candidate keys are pairwise different
    if len({keys[i] for i in cands}) == len(cands) and len(cands) >= 2:
        perm = list(f['rules'])
        r.shuffle(perm)
        res_p = ME.parse_merchants(G.render_rules(file_with(f, perm)), 'most_specific').match(copy.deepcopy(t))
        if res_p.category != res.category:
            fails.append({'class': 'order-dependent', 'rules': text, 'txn': jtxn(txn),
                          'permuted': [x['name'] for x in perm], 'observed': res_p.category, 'required': res.category})
    return fails


UNICODE_DESCRIPTIONS = ['Bäckerei Müller Hauptstraße 5', 'Grosse Strasse 7 STORE', 'ﬁne foods ACME', 'ofﬁce depot 0042', 'Maße und Gewichte',
                        'Gießerei Weiß GmbH', 'ǆungla bar', 'Caﬀè Roma', 'straße']


def oracle_legacy(rows, txn):
    """legacy CSV file through get_all_rules + normalize_merchant against the property's reading. The rule list the
    property talks about is the FILE's rows (as generated), not whatever list the loader hands back."""
    from tally.modifier_parser import parse_pattern_with_modifiers
    fails = []
    with Budget() as b:
        path = b.write('merchant_categories.csv', G.render_csv_rules(rows))
        (m, c, s, info), rules, _ = normalize_via_file(path, 'first_match', txn)
    file_rules = []
    for row in rows:
        if G.render_csv_rules([row]).split('\n')[1].strip().startswith('#'):
            continue                      # a line that starts with '#' is a comment of the CSV rule format
        pat, merchant, category, subcategory = row[0], row[1], row[2], row[3]
        parsed = parse_pattern_with_modifiers(pat)
        file_rules.append((parsed.regex_pattern, merchant, category, subcategory, parsed, 'user', []))
    truths = [legacy_spec_truth(rule, txn) for rule in file_rules]
    if any(t is None for t in truths):
        return fails
    win = next((i for i, rule in enumerate(file_rules) if truths[i] and rule[2]), None)
    from tally import merchant_utils as MU
    if win is not None:
        want = (file_rules[win][1], file_rules[win][2], file_rules[win][3])
    else:
        want = (MU.extract_merchant_name(txn['description']), 'Unknown', 'Unknown')
    if (m, c, s) != want:
        fails.append({'class': 'legacy-first-match', 'csv_rules': [list(x) for x in rows], 'txn': jtxn(txn),
                      'observed': (m, c, s), 'required': want,
                      'pattern_of_required_rule': file_rules[win][0] if win is not None else None})
    return fails


CHAINED_VALUES = ['TX-PRJ-OPS', 'A:B:C', 'REF-REF-7731', 'xx-yy-zz', 'PROJ:ABC1 x', 'card']
STEP_TRANSFORMS = [('field.memo', 'regex_replace(field.memo, "^[A-Za-z]+[:-]", "")'), ('field.code', 'regex_replace(field.code, "^(.)", "")'),
                   ('field.memo', 'field.memo + "!"'), ('field.type', 'lowercase(field.type) + "."'), ('field.description', 'regex_replace(field.description, "^[A-Z]+ ", "")')]


def cli_path_failures(r, b, n):
    """The statement file read the way `tally up` reads it (parse_generic_csv with the rules file's transforms): every row is classified
    as the same row handed to normalize_merchant directly — transforms applied ONCE, in file order, to a copy of the row's own columns."""
    from tally import parsers, format_parser, merchant_utils as MU
    fails, rows_seen = [], 0
    for i in range(n):
        txn = G.gen_txn(r)
        lines, txns = [], []
        for t in [txn] + txn_variants(r, txn, k=3):
            if not t.get('date') or not t['amount']:
                continue
            cols = {k: r.choice(CHAINED_VALUES) if r.random() < 0.6 else v for k, v in ((k, (t.get('field') or {}).get(k, r.choice(CHAINED_VALUES))) for k in ('memo', 'type', 'code'))}
            if any(c in str(x) for x in [t['description']] + list(cols.values()) for c in ',"\n'):
                continue
            txns.append((t, cols))
            lines.append(f"{t['date'].isoformat()},{t['description']},{t['amount']!r},{cols['memo']},{cols['type']},{cols['code']}")
        if not txns:
            continue
        f = G.gen_rules_file(r, txn, n=r.choice([2, 3, 4]))
        f['transforms'] = r.sample(STEP_TRANSFORMS, r.choice([1, 2, 3]))
        word = (cols['memo'].replace(':', '-').split('-') + ['x'])[1 if '-' in cols['memo'] or ':' in cols['memo'] else 0]
        f['rules'].insert(0, {'name': 'ByColumn', 'match': r.choice([f'startswith(field.memo, "{word}")', f'contains(field.memo, "{word}")',
                                                                       f'field.code == "{cols["code"][1:]}"', f'endswith_x' if False else f'contains(field.type, ".")']),
                              'category': 'Column', 'subcategory': 'C', 'tags': ['{field.memo}']})
        path = b.write(f'cli{i % 4}.rules', G.render_rules(f))
        data = b.write(f'stmt{i % 4}.csv', 'Date,Description,Amount,Memo,Type,Code\n' + '\n'.join(lines) + '\n')
        MU.clear_engine_cache()
        try:
            rules = MU.get_all_rules(path)
            transforms = MU.get_transforms(path)
            spec = format_parser.parse_format_string('{date:%Y-%m-%d},{description},{amount},{memo},{type},{code}')
            got = parsers.parse_generic_csv(data, spec, rules, source_name='Bank', transforms=transforms)
            if len(got) != len(txns):
                continue                  # a row the parser rejects is C05's business
            for g, (t, cols) in zip(got, txns):
                rows_seen += 1
                m, c, s2, info = MU.normalize_merchant(t['description'], rules, amount=t['amount'], txn_date=t['date'], field=dict(cols),
                                                       data_source='Bank', transforms=transforms, location=g.get('location'))
                want = (m, c, s2, sorted((info or {}).get('tags', [])))
                have = (g['merchant'], g['category'], g['subcategory'], sorted(g.get('tags') or []))
                if want != have:
                    fails.append({'class': 'statement-row-classified-differently-from-the-same-row-alone', 'rules': G.render_rules(f),
                                  'statement': 'Date,Description,Amount,Memo,Type,Code\n' + '\n'.join(lines) + '\n', 'row': jtxn(dict(t, field=cols)),
                                  'observed (parse_generic_csv)': have, 'required (normalize_merchant on the row)': want})
                    break
        except Exception as e:       # noqa
            if type(e).__name__ not in ('MerchantParseError',):
                fails.append({'class': 'statement-path-raises', 'exception': type(e).__name__, 'message': str(e)[:200], 'rules': G.render_rules(f)})
        finally:
            MU.clear_engine_cache()
        if fails:
            break
    return fails, rows_seen


def txn_variants(r, txn, k=8):
    """Near-duplicates of one statement line: the same transaction with ONE attribute changed (amount, date,
    a custom field, source, location, description). A classification that is remembered under a key that
    leaves one of them out shows up as a difference between a long-lived engine and a fresh one."""
    import datetime
    a = txn['amount'] or 0
    out = []
    for na in r.sample([0.0, 50.0, 99.99, 100.0, 150.0, 250.0, 600.0, -a, a + 0.01, a * 2 + 1, -300.0], 3):
        out.append(dict(txn, amount=na))
    d = txn.get('date')
    if d:
        for nd in r.sample([d + datetime.timedelta(days=1), d + datetime.timedelta(days=31), d - datetime.timedelta(days=3),
                            d + datetime.timedelta(days=5), datetime.date(d.year + 1, d.month, d.day),
                            datetime.date(d.year, (d.month % 12) + 1, d.day)], 2):
            out.append(dict(txn, date=nd))
        out.append({k2: v for k2, v in txn.items() if k2 != 'date'})
    else:
        out.append(dict(txn, date=datetime.date(2024, r.choice([1, 6, 12]), r.choice([1, 6, 15]))))
    f = txn.get('field')
    if f:
        name = r.choice(sorted(f))
        out.append(dict(txn, field=dict(f, **{name: r.choice([v for v in G.FIELD_VALUES if v != f[name]])})))
        out.append(dict(txn, field={k2: v for k2, v in f.items() if k2 != name} or None))
        missing = [n for n in G.FIELD_NAMES if n not in f]
        if missing:
            out.append(dict(txn, field=dict(f, **{missing[0]: r.choice(G.FIELD_VALUES)})))
    else:
        out.append(dict(txn, field={r.choice(G.FIELD_NAMES): r.choice(G.FIELD_VALUES)}))
    out.append(dict(txn, source=r.choice([x for x in G.SOURCES if x != txn.get('source')])))
    out.append(dict(txn, location=r.choice([x for x in (None, 'WA', 'CA') if x != txn.get('location')])))
    out.append(dict(txn, description=G.gen_txn(r)['description']))
    r.shuffle(out)
    return out[:k]


def discriminating_rule(r, txn, variant, idx=0):
    """A rule whose condition is true for `txn` and not for its near-duplicate `variant` (or the other way round),
    written on the attribute in which they differ — directly, through a top-level variable, or through a let binding.
    Returns (rule dict, {variable: expr}) or None."""
    a, b = txn, variant
    if r.random() < 0.3:
        a, b = b, a
    cond = None
    if a['amount'] != b['amount']:
        x, y = a['amount'] or 0, b['amount'] or 0
        mid = (x + y) / 2
        cond = r.choice([f'amount == {x!r}', f'amount > {mid!r}' if x > y else f'amount < {mid!r}'])
    elif a.get('date') != b.get('date'):
        da, db = a.get('date'), b.get('date')
        if da is None:
            cond = 'year == 0'
        else:
            opts = [f'date == "{da.isoformat()}"']
            if db is None or da.month != db.month:
                opts.append(f'month == {da.month}')
            if db is None or da.weekday() != db.weekday():
                opts.append(f'weekday == {da.weekday()}')
            if db is None or da.year != db.year:
                opts.append(f'year == {da.year}')
            if db is None or da.day != db.day:
                opts.append(f'day == {da.day}')
            cond = r.choice(opts)
    elif (a.get('field') or {}) != (b.get('field') or {}):
        fa, fb = a.get('field') or {}, b.get('field') or {}
        name = next((n for n in sorted(fa) if fa.get(n) != fb.get(n)), None)
        if name is None:
            return None                    # b has an extra column only: nothing true of a and false of b to write
        cond = f'field.{name} == "{fa[name]}"'
    elif a.get('source') != b.get('source'):
        cond = f'source == "{a.get("source") or ""}"'
    elif a.get('location') != b.get('location'):
        if a.get('location') is None:
            a, b = b, a
        cond = f'{r.choice(["txn", "field", "Txn", "FIELD"])}.location == "{a["location"]}"'
    elif a['description'] != b['description']:
        wa = [w for w in a['description'].upper().split() if w not in b['description'].upper().split() and '"' not in w]
        if not wa:
            return None
        cond = f'contains("{r.choice(wa)}")'
    if cond is None:
        return None
    # every documented spelling of a transaction attribute: bare, txn.<name>, field.<name> (built-ins), any letter case
    if r.random() < 0.35:
        m = re.match(r'(amount|date|source|month|year|day|weekday)\b', cond)
        if m:
            n = m.group(1)
            prefixes = ['txn.', 'TXN.', 'Txn.'] + (['field.', 'Field.'] if n in ('amount', 'date', 'source') else [])
            cond = r.choice(prefixes) + r.choice([n, n.upper(), n.capitalize()]) + cond[len(n):]
    variables = {}
    rule = {'name': f'Disc{idx}', 'match': cond, 'category': f'Disc{idx}', 'subcategory': 'D', 'tags': [f'disc{idx}']}
    k = r.random()
    if cond.startswith('field.') and r.random() < 0.4:
        k = 0.0          # a top-level variable over a captured column: undefined for the lines that lack the column
    words = txn['description'].upper().split()
    if k < 0.3:
        variables[f'v_disc{idx}'] = cond
        rule['match'] = f'contains("{words[0]}") and v_disc{idx}' if words and '"' not in words[0] and r.random() < 0.6 else f'v_disc{idx}'
    elif k < 0.45:
        rule['lets'] = [('hit', cond)]
        rule['match'] = 'hit'
    elif k < 0.75 and words and '"' not in words[0]:
        rule['match'] = f'contains("{words[0]}") and {cond}'
    return rule, variables


def with_discriminators(f, txn, variants, r):
    """The rules file plus, near the top, rules that tell the base transaction from some of its near-duplicates."""
    g = dict(f, variables=dict(f['variables']), rules=list(f['rules']))
    picks = r.sample(range(len(variants)), min(len(variants), r.choice([1, 2, 3])))
    for j, i in enumerate(picks):
        dr = discriminating_rule(r, txn, variants[i], idx=j)
        if dr is None:
            continue
        rule, variables = dr
        g['variables'].update(variables)
        g['rules'].insert(r.randint(0, min(1, len(g['rules']))), rule)
    return g


def result_summary(res):
    return {'merchant': res.merchant, 'category': res.category, 'subcategory': res.subcategory,
            'tags': sorted({re.sub(r' at 0x[0-9a-f]+', '', x) for x in res.tags}),
            'all_matching': [x.line_number for x in res.all_matching_rules],
            'extra_fields': [[k, canon_val(v)] for k, v in res.extra_fields.items()]}


def oracle_batch(f, txn, mode, r, data_sources=None):
    """One long-lived engine classifies a run of near-duplicate transactions (as `tally up` does for a statement);
    every answer must equal the answer of an engine freshly parsed from the same text for that transaction alone."""
    from tally import merchant_engine as ME
    variants = txn_variants(r, txn)
    f = with_discriminators(f, txn, variants, r)
    text = G.render_rules(f)
    eng = ME.parse_merchants(text, mode)
    seq = [txn] + variants + [txn]
    if r.random() < 0.5:
        r.shuffle(seq)
    fails = []
    for i, tv in enumerate(seq):
        t = txn_for_engine(tv)
        got = result_summary(eng.match(copy.deepcopy(t), data_sources=data_sources))
        want = result_summary(ME.parse_merchants(text, mode).match(copy.deepcopy(t), data_sources=data_sources))
        if got != want:
            differs = [k for k in got if got[k] != want[k]]
            fails.append({'class': 'depends-on-earlier-transactions', 'differs_in': differs, 'rules': text, 'mode': mode,
                          'sequence': [jtxn(x) for x in seq[:i + 1]], 'txn': jtxn(tv), 'position': i, 'file': f,
                          'observed (same engine, after the earlier transactions)': got, 'required (fresh engine)': want})
            break
    return fails


BATCH_RELEVANT = {'C01': ('merchant', 'category', 'subcategory', 'all_matching', 'extra_fields'),
                  'C02': ('tags', 'merchant', 'category', 'subcategory'),
                  'C09': ('merchant', 'category', 'subcategory')}


def jtxn(txn):
    t = dict(txn)
    if t.get('date'):
        t['date'] = t['date'].isoformat()
    return t


def untxn(t):
    import datetime
    t = dict(t)
    if t.get('date'):
        t['date'] = datetime.date.fromisoformat(t['date'])
    return t


# ------------------------------------------------------------------ the check shared by C01 / C02 / C09

ORACLES = {'C01': oracle_c01, 'C02': oracle_c02, 'C09': oracle_c09}
REQUIRED = {
    'C01': 'first-match mode: merchant/category/subcategory come from the first rule (file order) with a category whose '
           'condition is true after transforms; non-matching rules have no influence; rules after the winner cannot change it; '
           'no such rule ⇒ Unknown/Unknown under a name that depends only on the description (also for legacy CSV rules)',
    'C02': 'the tag set is the union of the resolved tags of every matching rule, in either mode and any order; a rule '
           'without category never changes merchant/category/subcategory',
    'C09': 'most_specific: category from the matching categorising rule ranking highest by (priority, #pattern conditions, '
           '#constraint kinds, pattern length), ties to the earlier rule, independent of order otherwise',
}


def nontrivial(prop, impl, case):
    hits = [i for i, e in enumerate(case['evs']) if e['hit']]
    if prop == 'C01':
        return len(hits) >= 2 and impl['matched_rule'] is not None and impl['matched_rule'] != case['rules'][0]['line']
    if prop == 'C02':
        tagged = [i for i in hits if case['evs'][i]['tags']]
        return len(tagged) >= 2 and any(not case['rules'][i]['category'] for i in hits)
    cands = [i for i in hits if case['rules'][i]['category']]
    return len(cands) >= 2


def run(ctx, prop):
    from tally import expr_parser as EP
    lo = common.lean_phase(ctx, f'TallyVerif.Props.{prop}', regen.regen_specificity)
    r = ctx.rng
    n = {'C01': 700, 'C02': 500, 'C09': 600}[prop] if ctx.quick else 30000
    items = []       # (f, txn, mode)
    corpus_fail = []
    replay_seq = None
    if ctx.replay:
        rp = json.loads(common.read(ctx.replay))
        ce = rp.get('counterexample', {})
        if ce.get('class') == 'statement-row-classified-differently-from-the-same-row-alone':
            from tally import parsers, format_parser, merchant_utils as MU
            with Budget() as b:
                path = b.write('replay.rules', ce['rules'])
                data = b.write('replay.csv', ce['statement'])
                MU.clear_engine_cache()
                rules, transforms = MU.get_all_rules(path), MU.get_transforms(path)
                spec = format_parser.parse_format_string('{date:%Y-%m-%d},{description},{amount},{memo},{type},{code}')
                for g in parsers.parse_generic_csv(data, spec, rules, source_name='Bank', transforms=transforms):
                    raw = next(l for l in ce['statement'].split('\n')[1:] if l.split(',')[1] == g['raw_description'] and l.startswith(g['date'].strftime('%Y-%m-%d')))
                    c = raw.split(',')
                    m, cc, s2, info = MU.normalize_merchant(c[1], rules, amount=float(c[2]), txn_date=g['date'].date(),
                                                            field={'memo': c[3], 'type': c[4], 'code': c[5]}, data_source='Bank',
                                                            transforms=transforms, location=g.get('location'))
                    if (m, cc, s2, sorted((info or {}).get('tags', []))) != (g['merchant'], g['category'], g['subcategory'], sorted(g.get('tags') or [])):
                        corpus_fail.append(dict(ce))
                        break
                MU.clear_engine_cache()
        elif ce.get('class') == 'mode-argument-ignored-after-an-earlier-read-of-the-file':
            from tally import merchant_engine as ME, merchant_utils as MU
            with Budget() as b:
                path = b.write('replay.rules', ce['rules'])
                txn = untxn(ce['txn'])
                for order in (('t',), ('r',), ('t', 'r')):
                    MU.clear_engine_cache()
                    for first in order:
                        (MU.get_transforms(path) if first == 't' else MU.get_all_rules(path))
                    (m, c, s_, info), _, _ = normalize_via_file(path, 'most_specific', txn, clear=False)
                    MU.clear_engine_cache()
                    t2, _ = transformed_txn(txn, ME.parse_merchants(ce['rules'], 'most_specific').transforms)
                    res = ME.parse_merchants(ce['rules'], 'most_specific').match(copy.deepcopy(t2))
                    if res.category and (m, c, s_) != (res.merchant, res.category, res.subcategory):
                        corpus_fail.append(dict(ce, observed=[m, c, s_]))
                        break
        elif 'sequence' in ce and 'file' in ce:
            replay_seq = (ce['file'], [untxn(x) for x in ce['sequence']], ce.get('mode', 'first_match'))
        elif 'file' in ce:
            items.append((ce['file'], untxn(ce['txn']), ce.get('mode', 'first_match')))
    else:
        corpus = json.loads(common.read(os.path.join(common.VERIF, 'harness', 'corpus', f'{prop}.json')))
        for c in corpus['engine']:         # minimised past failures / fixed witnesses always run first
            items.append((c['file'], untxn(c['txn']), c['mode']))
        for c in corpus['legacy']:
            if prop == 'C01':
                for pf in oracle_legacy([tuple(x) for x in c['rows']], untxn(c['txn'])):
                    pf['corpus'] = True
                    corpus_fail.append(pf)
        for i in range(n):
            txn = G.gen_txn(r)
            f = G.gen_rules_file(r, txn, force_ties=(prop == 'C09' and i % 2 == 0), dup_names=(i % 3 == 0), let_twins=(i % 4 == 1), long_patterns=(prop == 'C09' and i % 4 == 2), walrus_twins=(i % 5 == 3), odd_values=(i % 6 == 5))
            f['transforms'] = f['transforms'] if prop == 'C01' else []
            mode = 'most_specific' if prop == 'C09' else ('first_match' if prop == 'C01' else r.choice(['first_match', 'most_specific']))
            items.append((f, txn, mode))
    cases, impls, metas, prop_fail, corr_fail = [], [], [], list(corpus_fail), []
    full_cases = []
    raised = 0
    oracle = ORACLES[prop]
    nbatch = 0
    if replay_seq:
        from tally import merchant_engine as ME
        f, seq, mode = replay_seq
        text = G.render_rules(f)
        eng = ME.parse_merchants(text, mode)
        for i, tv in enumerate(seq):
            t = txn_for_engine(tv)
            got = result_summary(eng.match(copy.deepcopy(t)))
            want = result_summary(ME.parse_merchants(text, mode).match(copy.deepcopy(t)))
            if any(got[k] != want[k] for k in BATCH_RELEVANT[prop]):
                prop_fail_replay = {'class': 'depends-on-earlier-transactions', 'file': f, 'mode': mode, 'sequence': [jtxn(x) for x in seq[:i + 1]],
                                    'observed': got, 'required': want}
                prop_fail.append(prop_fail_replay)
                break
    for f, txn, mode in items:
        text = G.render_rules(f)
        try:
            # the engine sees the transaction AFTER the file's transforms
            from tally import merchant_engine as ME
            eng0 = ME.parse_merchants(text, mode)
            t2, steps = transformed_txn(txn, eng0.transforms)
            impl, case, eng = engine_observe(text, mode, t2)
        except Raised:
            raised += 1
            continue
        cases.append(case); impls.append(impl); metas.append((f, txn, mode))
        from .. import exprs as X
        full_cases.append(X.engine_case(eng, t2, mode))
        try:
            for pf in oracle(dict(f, transforms=[]), t2, r):
                pf['file'] = f; pf['mode'] = pf.get('mode', mode)
                prop_fail.append(pf)
            if not ctx.replay:
                nbatch += 1
                for pf in oracle_batch(dict(f, transforms=[]), t2, mode, r):
                    if any(k in BATCH_RELEVANT[prop] for k in pf['differs_in']):
                        prop_fail.append(pf)
        except Exception as e:
            if type(e).__name__ in ('TypeError', 'AttributeError', 'StopIteration', 'error', 'ValueError'):
                raised += 1       # D8 territory (C08), not this property
            else:
                raise
    # --- normalize_merchant wrapper, transforms and the legacy CSV loop (C01; C02 uses the legacy tags too)
    wrapper_cases, wrapper_impl = [], []
    legacy_cases, legacy_impl = [], []
    legacy_texts = []
    if prop in ('C01', 'C02') and not ctx.replay:
        m = 120 if ctx.quick else 4000
        with Budget() as b:
            for i in range(m):
                txn = G.gen_txn(r)
                f = G.gen_rules_file(r, txn)
                text = G.render_rules(f)
                path = b.write(f'm{i % 8}.rules', text)
                try:
                    (mm, cc, ss, info), rules, transforms = normalize_via_file(path, 'first_match', txn)
                    t2, steps = transformed_txn(txn, transforms)
                    impl, case, eng = engine_observe(text, 'first_match', t2)
                except Raised:
                    raised += 1
                    continue
                from tally import merchant_utils as MU
                case = dict(case, fallback=MU.extract_merchant_name(t2['description']))
                wrapper_cases.append(case); wrapper_impl.append([mm, cc, ss])
                # transforms model
                wrapper_cases.append({'op': 'transforms', 'description': txn['description'],
                                      'fields': [[k, v] for k, v in (txn.get('field') or {}).items()], 'steps': steps})
                wrapper_impl.append({'description': t2['description'],
                                     'fields': [[k, v] for k, v in (t2.get('field') or {}).items()],
                                     'raw': [[k, v] for k, v in t2.items() if k.startswith('_raw_')]})
                ltxn = txn
                if r.random() < 0.15:
                    # descriptions whose upper-casing is longer than the text (ß, ligatures): the CSV path searches description.upper()
                    ltxn = dict(txn, description=r.choice(UNICODE_DESCRIPTIONS))
                rows = G.gen_csv_rules_grouped(r, ltxn) if i % 3 == 2 else G.gen_csv_rules(r, ltxn)
                cpath = b.write(f'c{i % 8}.csv', G.render_csv_rules(rows))
                legacy_texts.append(G.render_csv_rules(rows))
                try:
                    limpl, lcase, _ = legacy_observe(cpath, ltxn)
                    legacy_cases.append(lcase); legacy_impl.append(limpl)
                    if prop == 'C01':
                        for pf in oracle_legacy(rows, ltxn):
                            prop_fail.append(pf)
                except Exception as e:
                    if type(e).__name__ in ('TypeError', 'AttributeError'):
                        raised += 1
                    else:
                        raise
    if prop in ('C01', 'C02') and not ctx.replay:
        with Budget() as b:
            cf, nrows = cli_path_failures(r, b, 40 if ctx.quick else 1500)
        prop_fail.extend(cf)
        ctx.notes['statement_rows_through_parse_generic_csv_vs_normalize_merchant'] = nrows
    if prop == 'C01' and not ctx.replay and legacy_texts:
        # the legacy CSV files of this run, from their TEXT: load_merchant_rules against the loader model (Legacy.loadRules, C14 §8)
        from . import legacy_loader as LL
        with Budget() as b:
            try:
                lstats, _ = LL.file_stream(ctx, r, list(dict.fromkeys(legacy_texts)), b)
                ctx.notes['legacy_csv_files_loaded_by_the_loader_model'] = lstats
            except Exception as e:      # noqa
                ctx.obligation('correspondence:load_merchant_rules-vs-Legacy.loadRules', 'correspondence', False,
                               error=f'{type(e).__name__}: {e}'[:600])
    # --- run the model
    try:
        d = common.Driver()
        model = d.batch(cases)
        for i, (mo, im) in enumerate(zip(model, impls)):
            diffs = compare_engine(im, mo, cases[i])
            if diffs:
                f, txn, mode = metas[i]
                corr_fail.append({'stream': 'engine', 'differs_in': diffs, 'file': f, 'txn': jtxn(txn), 'mode': mode,
                                  'model': {k: mo.get(k) for k in diffs}, 'implementation': {k: im[k] for k in diffs}})
        # full stack: the same cases with the per-rule evaluation computed by the evaluator MODEL
        from .. import exprs as X
        fm = X.model_eval(full_cases, op='engine')
        full_compared = 0
        for i, (mo, im) in enumerate(zip(fm, impls)):
            if mo.get('err') == 'unmodelled':
                continue
            full_compared += 1
            im2 = {k: v for k, v in im.items() if k != 'keys'}
            mo = model_view(mo, cases[i])
            diffs = [k for k, v in im2.items() if mo.get(k) != v]
            if diffs:
                f, txn, mode = metas[i]
                corr_fail.append({'stream': 'full-stack', 'differs_in': diffs, 'file': f, 'txn': jtxn(txn), 'mode': mode,
                                  'model': {k: mo.get(k) for k in diffs} if 'err' not in mo else mo,
                                  'implementation': {k: im2[k] for k in diffs}})
        ctx.notes['cases_on_full_evaluator_model'] = full_compared
        ctx.notes['cases_on_per_rule_bits'] = len(cases)
        wm = d.batch(wrapper_cases)
        for mo, im, ca in zip(wm, wrapper_impl, wrapper_cases):
            if ca['op'] == 'match':
                if mo.get('norm') != im:
                    corr_fail.append({'stream': 'normalize_merchant', 'model': mo.get('norm'), 'implementation': im, 'case': ca})
            else:
                got = {k: mo.get(k) for k in ('description', 'fields', 'raw')}
                if got != im:
                    corr_fail.append({'stream': 'apply_transforms', 'model': got, 'implementation': im, 'case': ca})
        lm = d.batch(legacy_cases)
        for mo, im, ca in zip(lm, legacy_impl, legacy_cases):
            keys = ['merchant', 'category', 'subcategory', 'tags']
            if any(mo.get(k) != im[k] for k in keys) or (im['rule'] is not None and mo.get('rule') != im['rule']):
                corr_fail.append({'stream': 'legacy', 'model': {k: mo.get(k) for k in keys + ['rule']}, 'implementation': im, 'case': ca})
    except Exception as e:
        corr_fail.append({'driver_error': str(e)[:800]})
    ctx.obligation('correspondence:MerchantEngine.match-vs-Rules.matchEngine', 'correspondence',
                   not [c for c in corr_fail if c.get('stream') in ('engine', None)], cases=len(cases),
                   error=json.dumps(corr_fail[0], default=str)[:2000] if corr_fail else None)
    ctx.obligation('correspondence:MerchantEngine.match-vs-Engine.matchTxn(full evaluator model)', 'correspondence',
                   not [c for c in corr_fail if c.get('stream') == 'full-stack'], cases=ctx.notes.get('cases_on_full_evaluator_model', 0),
                   error=next((json.dumps(c, default=str)[:2000] for c in corr_fail if c.get('stream') == 'full-stack'), None))
    if prop in ('C01', 'C02'):
        ctx.obligation('correspondence:normalize_merchant+apply_transforms+legacy-loop-vs-model', 'correspondence',
                       not [c for c in corr_fail if c.get('stream') in ('normalize_merchant', 'apply_transforms', 'legacy')],
                       cases=len(wrapper_cases) + len(legacy_cases),
                       error=next((json.dumps(c, default=str)[:2000] for c in corr_fail if c.get('stream') in ('normalize_merchant', 'apply_transforms', 'legacy')), None))
    ctx.cov['evaluations'] = len(cases) + len(wrapper_cases) + len(legacy_cases)
    ctx.cov['traces_validated_against_impl'] = ctx.cov['evaluations']
    ctx.cov['distinct_nontrivial'] = len({json.dumps([c['rules'], c['evs']], sort_keys=True) for c, im in zip(cases, impls) if nontrivial(prop, im, c)})
    ctx.cov['rule'] = ('generated .rules files (1–8 rules, ≈30 % tag-only, conditions built from the transaction\'s own words, amounts, dates, '
                       'fields, source; variables, lets, field directives, priorities, dynamic tags, transforms) × transactions; per-rule '
                       'evaluation from the implementation\'s own primitives, list algorithm from the Lean model, compared with '
                       'MerchantEngine.match (all MatchResult fields + specificity keys), normalize_merchant, apply_transforms and the legacy CSV '
                       'loop; the implementation-only oracle applies the property\'s metamorphic relations; every file also classifies a run of near-duplicate '
                       'transactions (one attribute changed at a time) through ONE engine, each answer compared with a freshly parsed engine; a third of the files '
                       'repeat rule names. Non-trivial: '
                       + {'C01': '≥ 2 rules match and the winner is not the first rule of the file',
                          'C02': '≥ 2 matching rules contribute tags and a tag-only rule matches',
                          'C09': '≥ 2 matching categorising rules compete'}[prop])
    ctx.notes['cases_where_a_python_exception_escaped (C08 territory, skipped here)'] = raised
    hist = {}
    for c in cases:
        k = sum(1 for e in c['evs'] if e['hit'])
        hist[k] = hist.get(k, 0) + 1
    ctx.notes['matching_rules_histogram'] = hist
    if prop == 'C09' and not ctx.replay:
        # the rule MODE is an argument of every reader of the file: the same unchanged file asked for under the default (first-match) mode
        # first - `get_transforms(path)`, `get_all_rules(path)` - and then under most_specific must classify as most_specific
        from tally import merchant_engine as ME, merchant_utils as MU
        nmode = 0
        with Budget() as b:
            for i in range(40 if ctx.quick else 1200):
                txn = G.gen_txn(r)
                words = [w for w in txn['description'].upper().split() if w.isalnum()]
                if not words:
                    continue
                f = G.gen_rules_file(r, txn, n=r.choice([1, 2, 3]), force_ties=True)
                w = r.choice(words)
                f = dict(f, rules=[{'name': 'General', 'match': f'contains("{w}")', 'category': 'ByOrder', 'subcategory': 'G'},
                                   {'name': 'Specific', 'match': f'contains("{w}") and amount == amount', 'category': 'BySpecificity'}] + f['rules'])
                text = G.render_rules(f)
                path = b.write(f'mode{i % 4}.rules', text)
                try:
                    MU.clear_engine_cache()
                    for first in r.choice([('t',), ('r',), ('t', 'r'), ('r', 't')]):
                        (MU.get_transforms(path) if first == 't' else MU.get_all_rules(path))
                    (m, c, s_, info), _, _ = normalize_via_file(path, 'most_specific', txn, clear=False)
                    t2, _ = transformed_txn(txn, ME.parse_merchants(text, 'most_specific').transforms)
                    res = ME.parse_merchants(text, 'most_specific').match(copy.deepcopy(t2))
                except Exception as e:
                    if type(e).__name__ in ('TypeError', 'AttributeError', 'StopIteration', 'error', 'ValueError'):
                        continue
                    raise
                finally:
                    MU.clear_engine_cache()
                nmode += 1
                want = (res.merchant, res.category, res.subcategory) if res.category else None
                if want and (m, c, s_) != want:
                    prop_fail.append({'class': 'mode-argument-ignored-after-an-earlier-read-of-the-file', 'rules': text, 'txn': jtxn(txn), 'mode': 'most_specific',
                                      'file': f, 'observed': [m, c, s_], 'required (a fresh most_specific engine)': list(want)})
                    break
        ctx.notes['same_file_read_under_the_default_mode_first_then_most_specific'] = nmode
    ctx.notes['runs_of_near_duplicate_transactions_through_one_engine (each answer vs a fresh engine)'] = nbatch
    ctx.notes['files_with_repeated_rule_names'] = sum(1 for f, _, _ in metas if len({x['name'] for x in f['rules']}) < len(f['rules']))
    for c, (f, txn, mode) in list(zip(cases, metas))[:3]:
        ctx.sample({'rules': G.render_rules(f), 'txn': jtxn(txn), 'mode': mode})

    def classify(pf):
        return None

    def search():
        out = []
        for i in range(4000):
            txn = G.gen_txn(r)
            f = G.gen_rules_file(r, txn, n=r.choice([2, 3, 4]), force_ties=(prop == "C09"), dup_names=(i % 2 == 0), let_twins=(i % 3 == 0), long_patterns=(prop == "C09" and i % 3 == 1), walrus_twins=(i % 4 == 3), odd_values=(i % 5 == 4))
            f['transforms'] = []
            try:
                for pf in oracle(f, txn_for_engine(txn), r):
                    pf['file'] = f
                    out.append(pf)
                mode_b = 'most_specific' if prop == 'C09' else 'first_match'
                for pf in oracle_batch(f, txn_for_engine(txn), mode_b, r):
                    if any(k in BATCH_RELEVANT[prop] for k in pf['differs_in']):
                        out.append(pf)
                if prop == 'C01' and i % 4 == 0:
                    lt = dict(txn, description=r.choice(UNICODE_DESCRIPTIONS)) if i % 8 == 0 else txn
                    out.extend(oracle_legacy(G.gen_csv_rules(r, lt), lt))
            except Exception:
                continue
            if out:
                break
        ctx.cov['evaluations'] += 4000
        return out

    common.conclude(ctx, prop_fail, classify=classify, search=search, required=REQUIRED[prop])
    return ctx.finish(extra_trusted=[
        'per-rule evaluation (does a rule match, what do its tags / fields evaluate to) is an arbitrary function in the theorems; in the '
        'correspondence it is taken from the implementation\'s own primitives (the expression evaluator is modelled separately, C04/C08)',
        'specificity key tables regenerated from calculate_specificity; the text scanner (str.count, `in`, quoted-string regexes) is a hand model tied by comparing keys on every case',
        'ast/regex/str methods of CPython'])
