"""Shared correspondence + oracles for the rule-list properties C01, C02, C09.

Correspondence ("mbits" tie): the per-rule evaluation `ev` (did lets+match evaluate truthy, what do
the tags resolve to, what do the field directives give) is computed with the implementation's OWN
primitives (engine._evaluate_let_bindings, expr_parser.matches_transaction, engine._resolve_tags …);
the list algorithm (loop guard, first match, max by key, tag union) is the Lean model
`Rules.matchEngine` / `Rules.legacy`; the result is compared with `MerchantEngine.match` /
`normalize_merchant`.  The theorems hold for every `ev`.
"""
import copy
import json
import os
import re
import shutil
import tempfile

from .. import common, regen
from ..gen import rules as G


def canon_val(v):
    from .. import exprs
    return exprs.canon_field(v)


def txn_for_engine(txn):
    t = {'description': txn['description'], 'amount': txn['amount'] or 0, 'field': copy.deepcopy(txn.get('field')),
         'source': txn.get('source'), 'location': txn.get('location')}
    if txn.get('date'):
        t['date'] = txn['date']
    return t


class Raised(Exception):
    pass


def engine_observe(text, mode, txn, data_sources=None):
    """Run the real engine. Returns (impl_canon, model_case) or raises Raised(cls) if a non-ExpressionError escaped."""
    from tally import merchant_engine as ME, expr_parser as EP
    eng = ME.parse_merchants(text, match_mode=mode)
    t = txn_for_engine(txn)
    by_name = {}
    for r in eng.rules:
        by_name.setdefault(r.name, r.line_number)
    try:
        res = eng.match(copy.deepcopy(t), data_sources=data_sources)
        gv = eng._evaluate_variables(copy.deepcopy(t), data_sources)
        evs = []
        for rule in eng.rules:
            try:
                variables = eng._evaluate_let_bindings(rule, copy.deepcopy(t), gv, data_sources) if rule.let_bindings else gv
                hit = bool(EP.matches_transaction(rule.match_expr, copy.deepcopy(t), variables, data_sources))
            except EP.ExpressionError:
                hit, variables = False, gv
            tags, fields = [], []
            if hit:
                tags = sorted(eng._resolve_tags(rule, copy.deepcopy(t), variables, data_sources))
                if rule.fields:
                    fields = [[k, canon_val(v)] for k, v in eng._evaluate_fields(rule, copy.deepcopy(t), variables, data_sources).items()]
            evs.append({'hit': hit, 'tags': tags, 'fields': fields})
    except EP.ExpressionError:
        raise
    except Exception as e:  # D8 territory (C08): a Python exception escaped the engine
        raise Raised(type(e).__name__)
    impl = {
        'matched': res.matched, 'merchant': res.merchant, 'category': res.category, 'subcategory': res.subcategory,
        'tags': sorted(res.tags),
        'matched_rule': res.matched_rule.line_number if res.matched_rule else None,
        'merchant_rule': res.merchant_rule.line_number if res.merchant_rule else None,
        'subcategory_rule': res.subcategory_rule.line_number if res.subcategory_rule else None,
        'all_matching': [r.line_number for r in res.all_matching_rules],
        'extra_fields': [[k, canon_val(v)] for k, v in res.extra_fields.items()],
        'tag_sources': sorted([[tag, by_name[src['rule']]] for tag, src in res.tag_sources.items()]),
        'keys': [list(ME.calculate_specificity(r)) for r in eng.rules],
    }
    case = {'op': 'match', 'mode': mode,
            'rules': [{'line': r.line_number, 'name': r.name, 'merchant': r.merchant, 'category': r.category,
                       'subcategory': r.subcategory, 'priority': r.priority, 'match': r.match_expr} for r in eng.rules],
            'evs': evs}
    return impl, case, eng


def compare_engine(impl, model):
    diffs = []
    for k, v in impl.items():
        if model.get(k) != v:
            diffs.append(k)
    return diffs


# ------------------------------------------------------------------ normalize_merchant wrapper (+ transforms)

class Budget:
    """Scratch directory outside /repo and /verif."""
    def __enter__(self):
        self.dir = tempfile.mkdtemp(prefix='tvrules_')
        return self

    def __exit__(self, *a):
        shutil.rmtree(self.dir, ignore_errors=True)

    def write(self, name, text):
        p = os.path.join(self.dir, name)
        with open(p, 'w', encoding='utf-8', newline='') as f:
            f.write(text)
        return p


def normalize_via_file(path, mode, txn, data_sources=None, clear=True):
    from tally import merchant_utils as MU
    if clear:
        MU.clear_engine_cache()
    rules = MU.get_all_rules(path, match_mode=mode)
    transforms = MU.get_transforms(path, match_mode=mode)
    try:
        out = MU.normalize_merchant(txn['description'], rules, amount=txn['amount'], txn_date=txn.get('date'),
                                    field=copy.deepcopy(txn.get('field')), data_source=txn.get('source'),
                                    transforms=transforms, location=txn.get('location'), data_sources=data_sources)
    finally:
        if clear:
            MU.clear_engine_cache()
    return out, rules, transforms


def transformed_txn(txn, transforms):
    """What the implementation's apply_transforms makes of the transaction, plus the per-step values (for the model)."""
    from tally import merchant_utils as MU, expr_parser as EP
    t = txn_for_engine(txn)
    steps = []
    for field_path, expr in transforms:
        # one transform at a time, observing the value the implementation computed
        before = copy.deepcopy(t)
        MU.apply_transforms(t, [(field_path, expr)])
        name = field_path[6:]
        try:
            ctx = EP.TransactionContext.from_transaction(before)
            val = str(EP.TransactionEvaluator(ctx).evaluate(EP.parse_expression(expr)))
        except Exception:
            val = None
        steps.append([name, val])
    return t, steps


# ------------------------------------------------------------------ legacy CSV loop

def legacy_observe(path, txn):
    """normalize_merchant on a legacy CSV file: implementation result + per-tuple outcomes from its own primitives."""
    from tally import merchant_utils as MU, expr_parser as EP
    from tally.modifier_parser import check_all_conditions
    (m, c, s, info), rules, _ = normalize_via_file(path, 'first_match', txn)
    t = txn_for_engine(txn)
    evs, lrules = [], []
    for i, rule in enumerate(rules):
        pattern, merchant, category, subcategory, parsed, source, tags = rule
        outcome = 'noMatch'
        try:
            use_regex = not MU._is_expression_pattern(pattern)
            hit = False
            if not use_regex:
                try:
                    hit = EP.matches_transaction(pattern, copy.deepcopy(t))
                except EP.ExpressionError:
                    use_regex = True      # (after the D1 repair) not an expression after all: it is a regex
            if use_regex:
                if re.search(pattern, t['description'].upper(), re.IGNORECASE):
                    if parsed and (parsed.amount_conditions or parsed.date_conditions):
                        hit = check_all_conditions(parsed, txn['amount'], txn.get('date'))
                    else:
                        hit = True
            outcome = 'matched' if hit else 'noMatch'
        except (re.error, EP.ExpressionError):
            outcome = 'skipped'
        rtags = MU._resolve_dynamic_tags(tags, copy.deepcopy(t)) if (outcome == 'matched' and tags) else []
        evs.append({'outcome': outcome, 'tags': rtags})
        lrules.append({'idx': i, 'pattern': pattern, 'merchant': merchant, 'category': category,
                       'subcategory': subcategory, 'source': source})
    fallback = MU.extract_merchant_name(t['description'])
    impl = {'merchant': m, 'category': c, 'subcategory': s,
            'tags': (info or {}).get('tags', []),
            'rule': None}
    if info and info.get('pattern') is not None:
        # identify the winning tuple by pattern text (first tuple with that pattern, category and merchant)
        for lr in lrules:
            if lr['pattern'] == info['pattern'] and lr['merchant'] == m and lr['category'] == c:
                impl['rule'] = lr['idx']
                break
    case = {'op': 'legacy', 'rules': lrules, 'evs': evs, 'fallback': fallback}
    return impl, case, rules


def legacy_spec_truth(rule, txn):
    """The property's reading of a legacy CSV rule: its pattern is a regular expression searched
    (case-insensitively) in the description, and all its amount/date/month modifiers hold."""
    from tally.modifier_parser import check_all_conditions
    pattern, merchant, category, subcategory, parsed, source, tags = rule
    try:
        if not re.search(parsed.regex_pattern, txn['description'], re.IGNORECASE):
            return False
    except re.error:
        return None
    if parsed.amount_conditions or parsed.date_conditions:
        return bool(check_all_conditions(parsed, txn['amount'], txn.get('date')))
    return True


# ------------------------------------------------------------------ implementation-only oracles

def spec_resolve_tags(eng, rule, t, variables, data_sources=None):
    """C02's wording, written independently of _resolve_tags."""
    from tally import expr_parser as EP
    out = set()
    for tag in rule.tags:
        tag = tag.strip()
        if not tag:
            continue
        if tag.startswith('{') and tag.endswith('}'):
            e = tag[1:-1].strip()
            if not e:
                continue
            try:
                v = EP.evaluate_transaction(e, copy.deepcopy(t), variables=variables, data_sources=data_sources)
            except EP.ExpressionError:
                continue
            vals = v if isinstance(v, list) else [v]
            for x in vals:
                if x:
                    s = str(x).strip().lower()
                    if s:
                        out.add(s)
        else:
            out.add(tag.lower())
    return out


def rule_truth(eng, rule, t, gv, data_sources=None):
    from tally import expr_parser as EP
    try:
        variables = eng._evaluate_let_bindings(rule, copy.deepcopy(t), gv, data_sources) if rule.let_bindings else gv
        return bool(EP.matches_transaction(rule.match_expr, copy.deepcopy(t), variables, data_sources)), variables
    except EP.ExpressionError:
        return False, gv


def file_with(f, rules):
    g = dict(f)
    g['rules'] = rules
    return g


def mcs_of(text, mode, txn):
    from tally import merchant_engine as ME
    res = ME.parse_merchants(text, match_mode=mode).match(txn_for_engine(txn))
    return (res.merchant, res.category, res.subcategory)


def oracle_c01(f, txn, r):
    """first matching categorising rule decides; non-matching rules irrelevant; later rules irrelevant."""
    from tally import merchant_engine as ME
    fails = []
    text = G.render_rules(f)
    eng = ME.parse_merchants(text, 'first_match')
    t = txn_for_engine(txn)
    gv = eng._evaluate_variables(copy.deepcopy(t))
    truth = [rule_truth(eng, rule, t, gv)[0] for rule in eng.rules]
    res = eng.match(copy.deepcopy(t))
    win = next((i for i, rule in enumerate(eng.rules) if truth[i] and rule.category), None)
    want = (eng.rules[win].merchant, eng.rules[win].category, eng.rules[win].subcategory) if win is not None else ('', '', '')
    got = (res.merchant, res.category, res.subcategory)
    if got != want:
        fails.append({'class': 'first-match', 'rules': text, 'txn': jtxn(txn), 'observed': got, 'required': want})
    # delete the non-matching rules: nothing may change
    kept = [rule for rule, tr in zip(f['rules'], truth) if tr]
    if len(kept) != len(f['rules']):
        res2 = ME.parse_merchants(G.render_rules(file_with(f, kept)), 'first_match').match(copy.deepcopy(t))
        a = (res.merchant, res.category, res.subcategory, sorted(res.tags), [x.name for x in res.all_matching_rules],
             sorted(res.extra_fields.items(), key=str))
        b = (res2.merchant, res2.category, res2.subcategory, sorted(res2.tags), [x.name for x in res2.all_matching_rules],
             sorted(res2.extra_fields.items(), key=str))
        if a != b:
            fails.append({'class': 'nonmatching-rule-influences', 'rules': text, 'txn': jtxn(txn), 'observed': b, 'required': a})
    # replace everything after the winner
    if win is not None:
        tail = G.gen_rules_file(r, txn, n=r.choice([0, 1, 3]))['rules']
        for i, x in enumerate(tail):
            x['name'] = f'Late{i}'
        res3 = ME.parse_merchants(G.render_rules(file_with(f, f['rules'][:win + 1] + tail)), 'first_match').match(copy.deepcopy(t))
        if (res3.merchant, res3.category, res3.subcategory) != got:
            fails.append({'class': 'later-rule-influences', 'rules': text, 'txn': jtxn(txn),
                          'tail': [x['match'] for x in tail],
                          'observed': (res3.merchant, res3.category, res3.subcategory), 'required': got})
    return fails


def oracle_c02(f, txn, r):
    from tally import merchant_engine as ME
    fails = []
    text = G.render_rules(f)
    t = txn_for_engine(txn)
    results = {}
    for mode in ('first_match', 'most_specific'):
        eng = ME.parse_merchants(text, mode)
        gv = eng._evaluate_variables(copy.deepcopy(t))
        want = set()
        for rule in eng.rules:
            tr, variables = rule_truth(eng, rule, t, gv)
            if tr:
                want |= spec_resolve_tags(eng, rule, t, variables)
        res = eng.match(copy.deepcopy(t))
        results[mode] = res
        if set(res.tags) != want:
            fails.append({'class': 'tags-not-union', 'mode': mode, 'rules': text, 'txn': jtxn(txn),
                          'observed': sorted(res.tags), 'required': sorted(want)})
        # permutation: same tag set
        perm = list(f['rules'])
        r.shuffle(perm)
        res_p = ME.parse_merchants(G.render_rules(file_with(f, perm)), mode).match(copy.deepcopy(t))
        if set(res_p.tags) != set(res.tags):
            fails.append({'class': 'tags-order-dependent', 'mode': mode, 'rules': text, 'txn': jtxn(txn),
                          'permuted': [x['name'] for x in perm], 'observed': sorted(res_p.tags), 'required': sorted(res.tags)})
        # a rule without category (and without subcategory) inserted anywhere never changes merchant/category/subcategory
        base = [x for x in f['rules']]
        tagrule = {'name': 'InsertedTag', 'match': G.gen_match(r, txn, tuple(f['variables'])), 'tags': ['zz']}
        if r.random() < 0.5:
            tagrule['match'] = 'amount == amount'     # always true
        if r.random() < 0.3:
            tagrule['priority'] = 100
        pos = r.randint(0, len(base))
        res_i = ME.parse_merchants(G.render_rules(file_with(f, base[:pos] + [tagrule] + base[pos:])), mode).match(copy.deepcopy(t))
        if (res_i.merchant, res_i.category, res_i.subcategory) != (res.merchant, res.category, res.subcategory):
            fails.append({'class': 'tag-only-rule-categorises', 'mode': mode, 'rules': text, 'txn': jtxn(txn),
                          'inserted': tagrule, 'position': pos,
                          'observed': (res_i.merchant, res_i.category, res_i.subcategory),
                          'required': (res.merchant, res.category, res.subcategory)})
    if set(results['first_match'].tags) != set(results['most_specific'].tags):
        fails.append({'class': 'tags-mode-dependent', 'rules': text, 'txn': jtxn(txn)})
    return fails


PINNED_FUNCS = ['contains(', 'regex(', 'normalized(', 'startswith(', 'fuzzy(', 'anyof(']
PINNED_KWS = ['amount', 'date', 'month', 'year', 'day', 'weekday', 'source', 'field.']


def spec_key(rule):
    """The ranking the property states, computed without calling calculate_specificity:
    (explicit priority, number of pattern conditions, number of constraint kinds, total pattern length)."""
    e = rule.match_expr.lower()
    pats = sum(e.count(f) for f in PINNED_FUNCS)
    kinds = sum(1 for k in PINNED_KWS if k in e)
    length = sum(len(x) for x in re.findall(r'"([^"]*)"', rule.match_expr)) + \
        sum(len(x) for x in re.findall(r"'([^']*)'", rule.match_expr))
    return (rule.priority, pats, kinds, length)


def oracle_c09(f, txn, r):
    from tally import merchant_engine as ME
    fails = []
    text = G.render_rules(f)
    t = txn_for_engine(txn)
    eng = ME.parse_merchants(text, 'most_specific')
    gv = eng._evaluate_variables(copy.deepcopy(t))
    truth = [rule_truth(eng, rule, t, gv)[0] for rule in eng.rules]
    res = eng.match(copy.deepcopy(t))
    keys = [spec_key(rule) for rule in eng.rules]
    cands = [i for i, rule in enumerate(eng.rules) if truth[i] and rule.category]
    if cands:
        best = cands[0]
        for i in cands[1:]:
            if keys[i] > keys[best]:
                best = i
        if res.matched_rule is not eng.rules[best] or res.category != eng.rules[best].category:
            fails.append({'class': 'winner-not-most-specific', 'rules': text, 'txn': jtxn(txn),
                          'observed': res.category, 'required': eng.rules[best].category,
                          'keys': {eng.rules[i].name: keys[i] for i in cands}})
    elif res.matched:
        fails.append({'class': 'category-without-matching-rule', 'rules': text, 'txn': jtxn(txn)})
    subs = [i for i, rule in enumerate(eng.rules) if truth[i] and rule.subcategory]
    if subs:
        best = subs[0]
        for i in subs[1:]:
            if keys[i] > keys[best]:
                best = i
        if res.subcategory != eng.rules[best].subcategory:
            fails.append({'class': 'subcategory-not-most-specific', 'rules': text, 'txn': jtxn(txn),
                          'observed': res.subcategory, 'required': eng.rules[best].subcategory})
    # permutation invariance when the candidate keys are pairwise different
    if len({keys[i] for i in cands}) == len(cands) and len(cands) >= 2:
        perm = list(f['rules'])
        r.shuffle(perm)
        res_p = ME.parse_merchants(G.render_rules(file_with(f, perm)), 'most_specific').match(copy.deepcopy(t))
        if res_p.category != res.category:
            fails.append({'class': 'order-dependent', 'rules': text, 'txn': jtxn(txn),
                          'permuted': [x['name'] for x in perm], 'observed': res_p.category, 'required': res.category})
    return fails


def oracle_legacy(rows, txn):
    """legacy CSV file through get_all_rules + normalize_merchant against the property's reading."""
    fails = []
    with Budget() as b:
        path = b.write('merchant_categories.csv', G.render_csv_rules(rows))
        (m, c, s, info), rules, _ = normalize_via_file(path, 'first_match', txn)
    truths = [legacy_spec_truth(rule, txn) for rule in rules]
    if any(t is None for t in truths):
        return fails
    win = next((i for i, rule in enumerate(rules) if truths[i] and rule[2]), None)
    from tally import merchant_utils as MU
    if win is not None:
        want = (rules[win][1], rules[win][2], rules[win][3])
    else:
        want = (MU.extract_merchant_name(txn['description']), 'Unknown', 'Unknown')
    if (m, c, s) != want:
        fails.append({'class': 'legacy-first-match', 'csv_rules': [list(x) for x in rows], 'txn': jtxn(txn),
                      'observed': (m, c, s), 'required': want,
                      'pattern_of_required_rule': rules[win][0] if win is not None else None})
    return fails


def jtxn(txn):
    t = dict(txn)
    if t.get('date'):
        t['date'] = t['date'].isoformat()
    return t


def untxn(t):
    import datetime
    t = dict(t)
    if t.get('date'):
        t['date'] = datetime.date.fromisoformat(t['date'])
    return t


# ------------------------------------------------------------------ the check shared by C01 / C02 / C09

ORACLES = {'C01': oracle_c01, 'C02': oracle_c02, 'C09': oracle_c09}
REQUIRED = {
    'C01': 'first-match mode: merchant/category/subcategory come from the first rule (file order) with a category whose '
           'condition is true after transforms; non-matching rules have no influence; rules after the winner cannot change it; '
           'no such rule ⇒ Unknown/Unknown under a name that depends only on the description (also for legacy CSV rules)',
    'C02': 'the tag set is the union of the resolved tags of every matching rule, in either mode and any order; a rule '
           'without category never changes merchant/category/subcategory',
    'C09': 'most_specific: category from the matching categorising rule ranking highest by (priority, #pattern conditions, '
           '#constraint kinds, pattern length), ties to the earlier rule, independent of order otherwise',
}


def nontrivial(prop, impl, case):
    hits = [i for i, e in enumerate(case['evs']) if e['hit']]
    if prop == 'C01':
        return len(hits) >= 2 and impl['matched_rule'] is not None and impl['matched_rule'] != case['rules'][0]['line']
    if prop == 'C02':
        tagged = [i for i in hits if case['evs'][i]['tags']]
        return len(tagged) >= 2 and any(not case['rules'][i]['category'] for i in hits)
    cands = [i for i in hits if case['rules'][i]['category']]
    return len(cands) >= 2


def run(ctx, prop):
    from tally import expr_parser as EP
    lo = common.lean_phase(ctx, f'TallyVerif.Props.{prop}', regen.regen_specificity)
    r = ctx.rng
    n = {'C01': 700, 'C02': 500, 'C09': 600}[prop] if ctx.quick else 30000
    items = []       # (f, txn, mode)
    corpus_fail = []
    if ctx.replay:
        rp = json.loads(common.read(ctx.replay))
        ce = rp.get('counterexample', {})
        if 'file' in ce:
            items.append((ce['file'], untxn(ce['txn']), ce.get('mode', 'first_match')))
    else:
        corpus = json.loads(common.read(os.path.join(common.VERIF, 'harness', 'corpus', f'{prop}.json')))
        for c in corpus['engine']:         # minimised past failures / fixed witnesses always run first
            items.append((c['file'], untxn(c['txn']), c['mode']))
        for c in corpus['legacy']:
            if prop == 'C01':
                for pf in oracle_legacy([tuple(x) for x in c['rows']], untxn(c['txn'])):
                    pf['corpus'] = True
                    corpus_fail.append(pf)
        for i in range(n):
            txn = G.gen_txn(r)
            f = G.gen_rules_file(r, txn, force_ties=(prop == 'C09' and i % 2 == 0))
            f['transforms'] = f['transforms'] if prop == 'C01' else []
            mode = 'most_specific' if prop == 'C09' else ('first_match' if prop == 'C01' else r.choice(['first_match', 'most_specific']))
            items.append((f, txn, mode))
    cases, impls, metas, prop_fail, corr_fail = [], [], [], list(corpus_fail), []
    full_cases = []
    raised = 0
    oracle = ORACLES[prop]
    for f, txn, mode in items:
        text = G.render_rules(f)
        try:
            # the engine sees the transaction AFTER the file's transforms
            from tally import merchant_engine as ME
            eng0 = ME.parse_merchants(text, mode)
            t2, steps = transformed_txn(txn, eng0.transforms)
            impl, case, eng = engine_observe(text, mode, t2)
        except Raised:
            raised += 1
            continue
        cases.append(case); impls.append(impl); metas.append((f, txn, mode))
        from .. import exprs as X
        full_cases.append(X.engine_case(eng, t2, mode))
        try:
            for pf in oracle(dict(f, transforms=[]), t2, r):
                pf['file'] = f; pf['mode'] = pf.get('mode', mode)
                prop_fail.append(pf)
        except Exception as e:
            if type(e).__name__ in ('TypeError', 'AttributeError', 'StopIteration', 'error', 'ValueError'):
                raised += 1       # D8 territory (C08), not this property
            else:
                raise
    # --- normalize_merchant wrapper, transforms and the legacy CSV loop (C01; C02 uses the legacy tags too)
    wrapper_cases, wrapper_impl = [], []
    legacy_cases, legacy_impl = [], []
    if prop in ('C01', 'C02') and not ctx.replay:
        m = 120 if ctx.quick else 4000
        with Budget() as b:
            for i in range(m):
                txn = G.gen_txn(r)
                f = G.gen_rules_file(r, txn)
                text = G.render_rules(f)
                path = b.write(f'm{i % 8}.rules', text)
                try:
                    (mm, cc, ss, info), rules, transforms = normalize_via_file(path, 'first_match', txn)
                    t2, steps = transformed_txn(txn, transforms)
                    impl, case, eng = engine_observe(text, 'first_match', t2)
                except Raised:
                    raised += 1
                    continue
                from tally import merchant_utils as MU
                case = dict(case, fallback=MU.extract_merchant_name(t2['description']))
                wrapper_cases.append(case); wrapper_impl.append([mm, cc, ss])
                # transforms model
                wrapper_cases.append({'op': 'transforms', 'description': txn['description'],
                                      'fields': [[k, v] for k, v in (txn.get('field') or {}).items()], 'steps': steps})
                wrapper_impl.append({'description': t2['description'],
                                     'fields': [[k, v] for k, v in (t2.get('field') or {}).items()],
                                     'raw': [[k, v] for k, v in t2.items() if k.startswith('_raw_')]})
                rows = G.gen_csv_rules(r, txn)
                cpath = b.write(f'c{i % 8}.csv', G.render_csv_rules(rows))
                try:
                    limpl, lcase, _ = legacy_observe(cpath, txn)
                    legacy_cases.append(lcase); legacy_impl.append(limpl)
                    if prop == 'C01':
                        for pf in oracle_legacy(rows, txn):
                            prop_fail.append(pf)
                except Exception as e:
                    if type(e).__name__ in ('TypeError', 'AttributeError'):
                        raised += 1
                    else:
                        raise
    # --- run the model
    try:
        d = common.Driver()
        model = d.batch(cases)
        for i, (mo, im) in enumerate(zip(model, impls)):
            diffs = compare_engine(im, mo)
            if diffs:
                f, txn, mode = metas[i]
                corr_fail.append({'stream': 'engine', 'differs_in': diffs, 'file': f, 'txn': jtxn(txn), 'mode': mode,
                                  'model': {k: mo.get(k) for k in diffs}, 'implementation': {k: im[k] for k in diffs}})
        # full stack: the same cases with the per-rule evaluation computed by the evaluator MODEL
        from .. import exprs as X
        fm = X.model_eval(full_cases, op='engine')
        full_compared = 0
        for i, (mo, im) in enumerate(zip(fm, impls)):
            if mo.get('err') == 'unmodelled':
                continue
            full_compared += 1
            im2 = {k: v for k, v in im.items() if k != 'keys'}
            diffs = [k for k, v in im2.items() if mo.get(k) != v]
            if diffs:
                f, txn, mode = metas[i]
                corr_fail.append({'stream': 'full-stack', 'differs_in': diffs, 'file': f, 'txn': jtxn(txn), 'mode': mode,
                                  'model': {k: mo.get(k) for k in diffs} if 'err' not in mo else mo,
                                  'implementation': {k: im2[k] for k in diffs}})
        ctx.notes['cases_on_full_evaluator_model'] = full_compared
        ctx.notes['cases_on_per_rule_bits'] = len(cases)
        wm = d.batch(wrapper_cases)
        for mo, im, ca in zip(wm, wrapper_impl, wrapper_cases):
            if ca['op'] == 'match':
                if mo.get('norm') != im:
                    corr_fail.append({'stream': 'normalize_merchant', 'model': mo.get('norm'), 'implementation': im, 'case': ca})
            else:
                got = {k: mo.get(k) for k in ('description', 'fields', 'raw')}
                if got != im:
                    corr_fail.append({'stream': 'apply_transforms', 'model': got, 'implementation': im, 'case': ca})
        lm = d.batch(legacy_cases)
        for mo, im, ca in zip(lm, legacy_impl, legacy_cases):
            keys = ['merchant', 'category', 'subcategory', 'tags']
            if any(mo.get(k) != im[k] for k in keys) or (im['rule'] is not None and mo.get('rule') != im['rule']):
                corr_fail.append({'stream': 'legacy', 'model': {k: mo.get(k) for k in keys + ['rule']}, 'implementation': im, 'case': ca})
    except Exception as e:
        corr_fail.append({'driver_error': str(e)[:800]})
    ctx.obligation('correspondence:MerchantEngine.match-vs-Rules.matchEngine', 'correspondence',
                   not [c for c in corr_fail if c.get('stream') in ('engine', None)], cases=len(cases),
                   error=json.dumps(corr_fail[0], default=str)[:2000] if corr_fail else None)
    ctx.obligation('correspondence:MerchantEngine.match-vs-Engine.matchTxn(full evaluator model)', 'correspondence',
                   not [c for c in corr_fail if c.get('stream') == 'full-stack'], cases=ctx.notes.get('cases_on_full_evaluator_model', 0),
                   error=next((json.dumps(c, default=str)[:2000] for c in corr_fail if c.get('stream') == 'full-stack'), None))
    if prop in ('C01', 'C02'):
        ctx.obligation('correspondence:normalize_merchant+apply_transforms+legacy-loop-vs-model', 'correspondence',
                       not [c for c in corr_fail if c.get('stream') in ('normalize_merchant', 'apply_transforms', 'legacy')],
                       cases=len(wrapper_cases) + len(legacy_cases),
                       error=next((json.dumps(c, default=str)[:2000] for c in corr_fail if c.get('stream') in ('normalize_merchant', 'apply_transforms', 'legacy')), None))
    ctx.cov['evaluations'] = len(cases) + len(wrapper_cases) + len(legacy_cases)
    ctx.cov['traces_validated_against_impl'] = ctx.cov['evaluations']
    ctx.cov['distinct_nontrivial'] = len({json.dumps([c['rules'], c['evs']], sort_keys=True) for c, im in zip(cases, impls) if nontrivial(prop, im, c)})
    ctx.cov['rule'] = ('generated .rules files (1–8 rules, ≈30 % tag-only, conditions built from the transaction\'s own words, amounts, dates, '
                       'fields, source; variables, lets, field directives, priorities, dynamic tags, transforms) × transactions; per-rule '
                       'evaluation from the implementation\'s own primitives, list algorithm from the Lean model, compared with '
                       'MerchantEngine.match (all MatchResult fields + specificity keys), normalize_merchant, apply_transforms and the legacy CSV '
                       'loop; the implementation-only oracle applies the property\'s metamorphic relations. Non-trivial: '
                       + {'C01': '≥ 2 rules match and the winner is not the first rule of the file',
                          'C02': '≥ 2 matching rules contribute tags and a tag-only rule matches',
                          'C09': '≥ 2 matching categorising rules compete'}[prop])
    ctx.notes['cases_where_a_python_exception_escaped (C08 territory, skipped here)'] = raised
    hist = {}
    for c in cases:
        k = sum(1 for e in c['evs'] if e['hit'])
        hist[k] = hist.get(k, 0) + 1
    ctx.notes['matching_rules_histogram'] = hist
    for c, (f, txn, mode) in list(zip(cases, metas))[:3]:
        ctx.sample({'rules': G.render_rules(f), 'txn': jtxn(txn), 'mode': mode})

    def classify(pf):
        return None

    def search():
        out = []
        for i in range(4000):
            txn = G.gen_txn(r)
            f = G.gen_rules_file(r, txn, n=r.choice([2, 3, 4]), force_ties=(prop == 'C09'))
            f['transforms'] = []
            try:
                for pf in oracle(f, txn_for_engine(txn), r):
                    pf['file'] = f
                    out.append(pf)
            except Exception:
                continue
            if out:
                break
        ctx.cov['evaluations'] += 4000
        return out

    common.conclude(ctx, prop_fail, classify=classify, search=search, required=REQUIRED[prop])
    return ctx.finish(extra_trusted=[
        'per-rule evaluation (does a rule match, what do its tags / fields evaluate to) is an arbitrary function in the theorems; in the '
        'correspondence it is taken from the implementation\'s own primitives (the expression evaluator is modelled separately, C04/C08)',
        'specificity key tables regenerated from calculate_specificity; the text scanner (str.count, `in`, quoted-string regexes) is a hand model tied by comparing keys on every case',
        'ast/regex/str methods of CPython'])
