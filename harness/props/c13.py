"""C13 — the report's in-browser classification equals the command-line classification.

Decided by: Lean theorems `categorize_eq`, `excluded_eq`, `cashflow_eq`, `is_*_eq` over the two
GENERATED models (Gen/ClassPy.lean, Gen/ClassJs.lean), for every NumLike and tag list.
Tie: both translators run on every call; their output is validated by executing the generated
Lean definitions, the Python source and the JS block (node) on the same grid.
"""
import itertools
import json
import math
import os
import subprocess

from .. import common, regen
from ..common import float_bits, bits_float

SPECIAL = ['income', 'transfer', 'investment']

NODE_RUNNER = r'''
%(block)s
const fs = require('fs');
const cases = JSON.parse(fs.readFileSync(0, 'utf8'));
const buf = new DataView(new ArrayBuffer(8));
function fromBits(s) { buf.setBigUint64(0, BigInt(s)); return buf.getFloat64(0); }
function toBits(x) { if (Number.isNaN(x)) return 'nan'; buf.setFloat64(0, x); return buf.getBigUint64(0).toString(); }
const out = [];
for (const c of cases) {
  const a = fromBits(c.amount), b = fromBits(c.b), cc = fromBits(c.c);
  const tags = c.tags === null ? (c.undef ? undefined : null) : c.tags;
  const r = categorizeAmount(a, tags);
  out.push({cat: {income: toBits(r.income), investment: toBits(r.investment), transfer_in: toBits(r.transferIn),
                  transfer_out: toBits(r.transferOut), spending: toBits(r.spending), credits: toBits(r.credits)},
            keys: Object.keys(r).sort(),
            excluded: isExcludedFromSpending(tags), income: isIncome(tags), transfer: isTransfer(tags),
            investment: isInvestment(tags), cashflow: toBits(calculateCashFlow(a, b, cc))});
}
process.stdout.write(JSON.stringify(out));
'''


def fbits(x):
    return 'nan' if (isinstance(x, float) and math.isnan(x)) else float_bits(x)


def py_side(cases):
    import importlib
    import tally.classification as C
    importlib.reload(C)
    out = []
    for c in cases:
        a, b, cc = bits_float(c['amount']), bits_float(c['b']), bits_float(c['c'])
        tags = c['tags']
        r = C.categorize_amount(a, tags)
        out.append({'cat': {k: fbits(v) for k, v in r.items()}, 'keys': sorted(r.keys()),
                    'excluded': C.is_excluded_from_spending(tags), 'income': C.is_income(tags),
                    'transfer': C.is_transfer(tags), 'investment': C.is_investment(tags),
                    'cashflow': fbits(C.calculate_cash_flow(a, b, cc)),
                    'norm': fbits(C.normalize_amount(a, tags)), 'net': fbits(C.calculate_transfers_net(a, b))})
    return out


def node_side(cases):
    from ..translate import js_classification
    block = js_classification.extract_block(common.read(os.path.join(common.SRC, 'spending_report.js')))
    script = NODE_RUNNER % {'block': block}
    p = subprocess.run(['node', '-e', script], input=json.dumps(cases), capture_output=True, text=True, timeout=600)
    if p.returncode != 0:
        raise RuntimeError('node failed: ' + p.stderr[-1500:])
    return json.loads(p.stdout)


def canon_keys(keys):
    m = {'transferIn': 'transfer_in', 'transferOut': 'transfer_out'}
    return sorted(m.get(k, k) for k in keys)


def case_variants(tag):
    return [tag, tag.upper(), tag.capitalize(), tag[0] + tag[1:].upper()]


def grid(ctx, thorough):
    amounts = [-1e15, -1234.56, -1.5, -0.01, -0.0, 0.0, 0.01, 1.0, 99.99, 1e15, float('nan'), float('inf'), float('-inf'), 5e-324]
    if thorough:
        amounts += [ctx.rng.uniform(-5000, 5000) for _ in range(40)] + [round(ctx.rng.uniform(-500, 500), 2) for _ in range(40)]
    ordinary = [[], ['groceries'], ['Refund', 'x'], ['incomes'], ['transfers', 'in'], ['']]
    taglists = [None, []]
    for k in range(0, 4):
        for sub in itertools.combinations(SPECIAL, k):
            variants = itertools.product(*[case_variants(t) for t in sub]) if thorough else \
                [tuple(sub), tuple(t.upper() for t in sub), tuple(t.capitalize() for t in sub)]
            for v in variants:
                for o in (ordinary if thorough else ordinary[:3]):
                    for order in ((list(v) + o), (o + list(v)[::-1])):
                        taglists.append(order)
    # non-ASCII tags: Python/node agreement only (trusted base sampling of lower-casing)
    nonascii = [['İncome'], ['ıncome'], ['INCOMÉ'], ['ｉｎｃｏｍｅ'], ['Straße', 'TRANSFER'], ['ÉPARGNE', 'Investment']]
    seen, cases = set(), []
    others = [(0.0, 0.0), (12.5, 3.25), (-7.0, 1e9)]
    for a in amounts:
        for t in taglists + nonascii:
            key = (fbits(a), json.dumps(t))
            if key in seen:
                continue
            seen.add(key)
            b, c = others[len(cases) % 3]
            cases.append({'op': 'classify', 'amount': fbits(a) if not math.isnan(a) else float_bits(a), 'tags': t,
                          'b': float_bits(b), 'c': float_bits(c), 'ascii': t is None or all(s.isascii() for s in t)})
    return cases


def compare(cases, py, js, lean):
    """Returns (property_failures, translator_failures)."""
    prop_fail, tr_fail = [], []
    for i, c in enumerate(cases):
        p, j = py[i], js[i]
        diffs = []
        if canon_keys(j['keys']) != canon_keys(p['keys']):
            diffs.append(('keys', p['keys'], j['keys']))
        for k in ('cat', 'excluded', 'income', 'transfer', 'investment', 'cashflow'):
            if p[k] != j[k]:
                diffs.append((k, p[k], j[k]))
        if diffs:
            prop_fail.append({'case': c, 'python': p, 'javascript': j, 'differs_in': [d[0] for d in diffs]})
        if lean is not None and c['ascii']:
            l = lean[i]
            for side, real in (('py', p), ('js', j)):
                for k in l[side]:
                    if l[side][k] != real[k]:
                        tr_fail.append({'case': c, 'side': side, 'key': k, 'generated_lean': l[side][k], 'source': real[k]})
    return prop_fail, tr_fail


def nontrivial(c):
    t = c['tags'] or []
    return any(x.lower() in SPECIAL for x in t) or not (bits_float(c['amount']) > 0)


def run(ctx):
    thorough = not ctx.quick
    with common.Lock():
        st = {}
        regen.regen_classification(st)
        for name, s in st.items():
            ctx.obligation(f'translator:{name}', 'translator', s['ok'], error=s.get('error'))
        ctx.notes['translators'] = st
        lo = common.lean_obligations('TallyVerif.Props.C13')
        ctx.add_obligations(lo['obligations'])
        if lo['forbidden']:
            ctx.obligation('audit:forbidden-tokens', 'audit', False, error='; '.join(lo['forbidden']))
        ctx.notes['build_ok'] = not lo.get('build_failed', False)
    cases = [json.loads(ctx.replay_case)] if getattr(ctx, 'replay_case', None) else grid(ctx, thorough)
    if ctx.replay:
        rp = json.loads(common.read(ctx.replay))
        if 'case' in rp.get('counterexample', {}):
            cases = [rp['counterexample']['case']]
    py = py_side(cases)
    js = node_side(cases)
    lean = None
    try:
        lean = common.Driver().batch(cases)
    except Exception as e:  # driver unavailable: the translator validation obligation is broken
        ctx.obligation('driver', 'correspondence', False, error=str(e)[:500])
    prop_fail, tr_fail = compare(cases, py, js, lean)
    ctx.cov['evaluations'] = len(cases) * (3 if lean is not None else 2)
    ctx.cov['distinct_nontrivial'] = len({(c['amount'], json.dumps(c['tags'])) for c in cases if nontrivial(c)})
    ctx.cov['rule'] = ('grid: amounts {±large, ±fraction, ±0, NaN, ±inf, denormal, random} × tag lists '
                       '{missing, empty, every subset of the special tags in several letter cases and orders, '
                       'mixed with ordinary tags, non-ASCII look-alikes}; each case run on classification.py, on the '
                       'JS block under node, and on both generated Lean models; non-trivial = has a special tag or amount not > 0')
    ctx.cov['exhaustive'] = False
    ctx.cov['traces_validated_against_impl'] = len(cases)
    ctx.cov['programs'] = 2
    for c in cases[:3] + cases[len(cases) // 2: len(cases) // 2 + 2]:
        ctx.sample({'amount': bits_float(c['amount']) if c['amount'] != 'nan' else 'nan', 'tags': c['tags']})
    ctx.obligation('correspondence:generated-lean-vs-sources', 'correspondence', lean is not None and not tr_fail,
                   cases=len(cases), error=(json.dumps(tr_fail[0]) if tr_fail else None))
    # verdict
    if prop_fail:
        ce = prop_fail[0]
        ctx.violation('counterexample', {'counterexample': ce,
                                         'required': 'JavaScript and Python classification agree on every amount and tag list',
                                         'failures_in_grid': len(prop_fail),
                                         'broken_obligations': [o['name'] for o in ctx.broken()]})
    elif ctx.broken():
        # search with the thorough grid before giving up
        big = grid(ctx, True)
        pf, _ = compare(big, py_side(big), node_side(big), None)
        ctx.cov['evaluations'] += 2 * len(big)
        if pf:
            ctx.violation('counterexample', {'counterexample': pf[0], 'failures_in_grid': len(pf),
                                             'broken_obligations': [o['name'] for o in ctx.broken()]})
        else:
            ctx.violation('broken-obligation',
                          {'broken_obligations': ctx.broken(), 'lean_log': lo['log'][-3000:],
                           'translator_disagreement': tr_fail[:3],
                           'searched': f'{len(big)} grid cases on node vs Python without a difference'}, nofail=True)
    return ctx.finish(extra_trusted=[
        'py→Lean and js→Lean translators (harness/translate), validated each run against Python and node on the grid',
        'str.lower (Python) and toLowerCase (JS) are one shared abstract function in the theorem; agreement sampled on non-ASCII tags',
        'key renaming transferIn↔transfer_in, transferOut↔transfer_out'])
