"""C13 — the report's in-browser classification equals the command-line classification.

Decided by: Lean theorems `categorize_eq`, `excluded_eq`, `cashflow_eq`, `is_*_eq` over the two
GENERATED models (Gen/ClassPy.lean, Gen/ClassJs.lean), for every NumLike and tag list, with one shared
lower-casing function; and `*_eq_of_specialAgree` with the two languages' lower-casing functions kept
APART, under the decidable hypothesis `specialAgree` (they agree about which tags become a special word).
Tie: both translators run on every call; their output is validated by executing the generated
Lean definitions (each with the recorded images of its own language's lower-casing), the Python source
and the JS block (node) on the same grid + the Unicode look-alike stream (`lookalikes`, `unicode_stream`:
the special words with letters replaced by every code point that a case mapping or normalisation of either
runtime sends to that letter, or on which the two runtimes disagree; invisible characters attached).
"""
import itertools
import json
import math
import os
import subprocess

from .. import common, regen
from ..common import float_bits, bits_float

SPECIAL = ['income', 'transfer', 'investment']

NODE_RUNNER = r'''
%(block)s
const fs = require('fs');
const cases = JSON.parse(fs.readFileSync(0, 'utf8'));
const buf = new DataView(new ArrayBuffer(8));
function fromBits(s) { buf.setBigUint64(0, BigInt(s)); return buf.getFloat64(0); }
function toBits(x) { if (Number.isNaN(x)) return 'nan'; buf.setFloat64(0, x); return buf.getBigUint64(0).toString(); }
const out = [];
for (const c of cases) {
  const a = fromBits(c.amount), b = fromBits(c.b), cc = fromBits(c.c);
  const tags = c.tags === null ? (c.undef ? undefined : null) : c.tags;
  const r = categorizeAmount(a, tags);
  out.push({cat: {income: toBits(r.income), investment: toBits(r.investment), transfer_in: toBits(r.transferIn),
                  transfer_out: toBits(r.transferOut), spending: toBits(r.spending), credits: toBits(r.credits)},
            keys: Object.keys(r).sort(),
            excluded: isExcludedFromSpending(tags), income: isIncome(tags), transfer: isTransfer(tags),
            investment: isInvestment(tags), cashflow: toBits(calculateCashFlow(a, b, cc)),
            // the harness's own call of the language's lower-casing (NOT the code under test): shipped to the Lean model
            lowered: (tags || []).map(t => [t, t.toLowerCase()])});
}
process.stdout.write(JSON.stringify(out));
'''


def fbits(x):
    return 'nan' if (isinstance(x, float) and math.isnan(x)) else float_bits(x)


def py_side(cases):
    import importlib
    import tally.classification as C
    importlib.reload(C)
    out = []
    for c in cases:
        a, b, cc = bits_float(c['amount']), bits_float(c['b']), bits_float(c['c'])
        tags = c['tags']
        r = C.categorize_amount(a, tags)
        out.append({'cat': {k: fbits(v) for k, v in r.items()}, 'keys': sorted(r.keys()),
                    'excluded': C.is_excluded_from_spending(tags), 'income': C.is_income(tags),
                    'transfer': C.is_transfer(tags), 'investment': C.is_investment(tags),
                    'cashflow': fbits(C.calculate_cash_flow(a, b, cc)),
                    'norm': fbits(C.normalize_amount(a, tags)), 'net': fbits(C.calculate_transfers_net(a, b))})
    return out


def node_side(cases):
    from ..translate import js_classification
    block = js_classification.extract_block(common.read(os.path.join(common.SRC, 'spending_report.js')))
    script = NODE_RUNNER % {'block': block}
    p = subprocess.run(['node', '-e', script], input=json.dumps(cases), capture_output=True, text=True, timeout=600)
    if p.returncode != 0:
        raise RuntimeError('node failed: ' + p.stderr[-1500:])
    return json.loads(p.stdout)


def canon_keys(keys):
    m = {'transferIn': 'transfer_in', 'transferOut': 'transfer_out'}
    return sorted(m.get(k, k) for k in keys)


def case_variants(tag):
    return [tag, tag.upper(), tag.capitalize(), tag[0] + tag[1:].upper()]


def grid(ctx, thorough):
    amounts = [-1e15, -1234.56, -1.5, -0.01, -0.0, 0.0, 0.01, 1.0, 99.99, 1e15, float('nan'), float('inf'), float('-inf'), 5e-324]
    if thorough:
        amounts += [ctx.rng.uniform(-5000, 5000) for _ in range(40)] + [round(ctx.rng.uniform(-500, 500), 2) for _ in range(40)]
    ordinary = [[], ['groceries'], ['Refund', 'x'], ['incomes'], ['transfers', 'in'], ['']]
    taglists = [None, []]
    for k in range(0, 4):
        for sub in itertools.combinations(SPECIAL, k):
            variants = itertools.product(*[case_variants(t) for t in sub]) if thorough else \
                [tuple(sub), tuple(t.upper() for t in sub), tuple(t.capitalize() for t in sub)]
            for v in variants:
                for o in (ordinary if thorough else ordinary[:3]):
                    for order in ((list(v) + o), (o + list(v)[::-1])):
                        taglists.append(order)
    # non-ASCII tags: Python/node agreement only (trusted base sampling of lower-casing)
    nonascii = [['İncome'], ['ıncome'], ['INCOMÉ'], ['ｉｎｃｏｍｅ'], ['Straße', 'TRANSFER'], ['ÉPARGNE', 'Investment']]
    # lists that coincide once they are SERIALISED (joined by a separator, concatenated): [w + sep + o] against [w, o], [w[:2], w[2:]]
    # against [w] - both sides classify a LIST of tags; each pair in both orders (with fresh companion words, so that whichever list a
    # long-lived cache meets first, the other one follows it in the same JavaScript context / Python process)
    collide = []
    n = 0
    for w in SPECIAL:
        for sep in [',', ' ', '|', ';', '\n', '\t', ', ', '\x00']:
            for first in (0, 1):
                n += 1
                o = f'k{n}'
                pair = [[w + sep + o], [w, o]] if first == 0 else [[o, w], [o + sep + w]]
                collide += pair
        collide += [[w[:2], w[2:]], [w], [w.upper()[:3] + 'x', 'y'], [w.upper()[:3] + 'xy']]
    seen, cases = set(), []
    others = [(0.0, 0.0), (12.5, 3.25), (-7.0, 1e9)]
    for t in collide:
        for a in (-25.0, 40.0):
            b, c = others[len(cases) % 3]
            cases.append({'op': 'classify', 'amount': fbits(a), 'tags': t, 'b': float_bits(b), 'c': float_bits(c), 'ascii': True})
            seen.add((fbits(a), json.dumps(t)))
    for a in amounts:
        for t in taglists + nonascii:
            key = (fbits(a), json.dumps(t))
            if key in seen:
                continue
            seen.add(key)
            b, c = others[len(cases) % 3]
            cases.append({'op': 'classify', 'amount': fbits(a) if not math.isnan(a) else float_bits(a), 'tags': t,
                          'b': float_bits(b), 'c': float_bits(c), 'ascii': t is None or all(s.isascii() for s in t)})
    return cases


# ---------------------------------------------------------------------------------------------
# Unicode look-alikes of the special words.
#
# The property quantifies over ALL tag lists; the two programs lower-case with two different
# library functions (str.lower / toLowerCase).  Any other normalisation on one side only (casefold,
# upper().lower(), toLocaleLowerCase, NFKC/NFKD, accent folding, trimming) and any skew between the
# two runtimes' Unicode tables shows on tags that are NOT a special word under one function and ARE
# one under another.  The characters that can do that are computed, not listed: every code point is
# pushed through the case mappings / normalisations of BOTH runtimes and kept when some image is (a
# 1-3 letter piece of) a special word, or when the two runtimes disagree about its lower/upper case.

NODE_SCAN = r"""
const SUBS = new Set(JSON.parse(require('fs').readFileSync(0, 'utf8')));
const MARK = /\p{M}/gu;
const fold = s => s.replace(MARK, '').toLowerCase();
const caseImg = [], compatImg = [], cased = [];
for (let cp = 0x80; cp < 0x110000; cp++) {
  if (cp >= 0xD800 && cp <= 0xDFFF) continue;
  const c = String.fromCodePoint(cp);
  const lo = c.toLowerCase(), up = c.toUpperCase();
  if (lo !== c || up !== c) {
    cased.push([cp, lo, up]);
    const a = new Set();
    for (const x of [lo, up, c.toLocaleLowerCase('tr'), c.toLocaleUpperCase('tr'), c.toLocaleLowerCase('lt'), up.toLowerCase(), lo.toUpperCase()]) {
      const f = fold(x); if (SUBS.has(f)) a.add(f);
    }
    if (a.size) caseImg.push([cp, [...a]]);
  }
  const k = c.normalize('NFKD');
  if (k !== c) {
    const b = new Set();
    for (const x of [k, c.normalize('NFKC')]) { const f = fold(x); if (SUBS.has(f)) b.add(f); }
    if (b.size) compatImg.push([cp, [...b]]);
  }
}
process.stdout.write(JSON.stringify({cased, caseImg, compatImg, unicode: process.versions.unicode}));
"""

# invisible / white-space / combining characters: a side that starts trimming or stripping them
# (str.strip() and String.trim() do not even strip the same set) turns ' income' into a special tag
INVISIBLE = [' ', '\t', '\n', '\x1c', '\x85', '\u00a0', '\u00ad', '\u180e', '\u200b', '\u200c', '\u200d', '\u2009', '\u2028',
             '\u2060', '\u3000', '\ufeff', '\u0301', '\u0307', '\u034f', '\ufe0f']


def special_pieces():
    return sorted({w[i:i + n] for w in SPECIAL for n in (1, 2, 3) for i in range(len(w) - n + 1)})


def _fold(x):
    import unicodedata
    return ''.join(ch for ch in x if not unicodedata.combining(ch)).lower()


def lookalikes():
    """{'case': {piece: [chars]}, 'compat': {piece: [chars]}, 'differ': [chars], 'unicode': (py, js)}

    case   : some CASE mapping of the character (Python lower/upper/casefold/title/swapcase and round trips;
             JavaScript toLowerCase/toUpperCase/toLocale{Lower,Upper}Case('tr'|'lt') and round trips), combining
             marks dropped, is the piece  (ſ→s, ı→I→i, İ→i̇, ﬆ→st, K→k, …)
    compat : its NFKC/NFKD form (either runtime), marks dropped, lower-cased/case-folded, is the piece
             (full-width, mathematical, circled, superscript letters; accented letters)
    differ : Python and JavaScript disagree about its lower- or upper-case form (Unicode-version skew)
    """
    import unicodedata as U
    pieces = special_pieces()
    sub = set(pieces)
    p = subprocess.run(['node', '-e', NODE_SCAN], input=json.dumps(pieces), capture_output=True, text=True, timeout=600)
    if p.returncode != 0:
        raise RuntimeError('node scan failed: ' + p.stderr[-1500:])
    js = json.loads(p.stdout)
    js_cased = {cp: (lo, up) for cp, lo, up in js['cased']}
    case, compat, differ = {}, {}, []
    for cp, ims in js['caseImg']:
        for x in ims:
            case.setdefault(x, set()).add(chr(cp))
    for cp, ims in js['compatImg']:
        for x in ims:
            compat.setdefault(x, set()).add(chr(cp))
    for cp in range(0x80, 0x110000):
        if 0xD800 <= cp <= 0xDFFF:
            continue
        c = chr(cp)
        lo, up = c.lower(), c.upper()
        jlo, jup = js_cased.get(cp, (c, c))
        if lo != jlo or up != jup:
            differ.append(c)
        dec = U.decomposition(c)
        if lo == c and up == c and not dec:
            continue
        for x in (lo, up, c.casefold(), c.title(), c.swapcase(), up.lower(), lo.upper(), up.casefold()):
            f = _fold(x)
            if f in sub:
                case.setdefault(f, set()).add(c)
        if dec:
            for x in (U.normalize('NFKD', c), U.normalize('NFKC', c)):
                for f in (_fold(x), _fold(x.casefold())):
                    if f in sub:
                        compat.setdefault(f, set()).add(c)
    for k in list(compat):
        compat[k] -= case.get(k, set())
    return {'case': {k: sorted(v) for k, v in case.items()}, 'compat': {k: sorted(v) for k, v in compat.items() if v},
            'differ': differ, 'unicode': (U.unidata_version, js.get('unicode'))}


def _upper_ascii(s):
    return ''.join(ch.upper() if ch.isascii() else ch for ch in s)


def substituted(word, piece, ch):
    """every spelling of `word` with one occurrence of `piece` replaced by `ch` (rest lower / rest UPPER)."""
    out, start = [], 0
    while True:
        i = word.find(piece, start)
        if i < 0:
            return out
        t = word[:i] + ch + word[i + len(piece):]
        out += [t, _upper_ascii(t)]
        start = i + 1


def unicode_stream(ctx, thorough, look=None):
    """(cases, stats): tag lists around the special words that only a Unicode-aware comparison separates."""
    look = look or lookalikes()
    rng = ctx.rng
    tags = {}          # tag -> class (first class wins, in this order)

    def add(t, cls):
        tags.setdefault(t, cls)

    for piece, chars in sorted(look['case'].items()):
        for ch in chars:
            for w in SPECIAL:
                for t in substituted(w, piece, ch):
                    add(t, 'case')
    # two substitutions at once (e.g. ıNVEſTMENT) for the case class
    for w in SPECIAL:
        pos = [(i, ch) for i, l in enumerate(w) for ch in look['case'].get(l, [])]
        for (i, a), (j, b) in itertools.combinations(pos, 2):
            if i != j:
                t = ''.join(a if k == i else b if k == j else l for k, l in enumerate(w))
                add(t, 'case'); add(_upper_ascii(t), 'case')
    compat = [(piece, ch) for piece, chars in sorted(look['compat'].items()) for ch in chars]
    if not thorough:
        compat = rng.sample(compat, min(len(compat), 160))
    for piece, ch in compat:
        for w in SPECIAL:
            for t in substituted(w, piece, ch):
                add(t, 'compat')
    differ = list(look['differ'])
    if not thorough:
        differ = rng.sample(differ, min(len(differ), 24))
    for ch in differ:
        w = rng.choice(SPECIAL)
        i = rng.randrange(len(w))
        for t in (ch, w + ch, ch + w, w[:i] + ch + w[i + 1:], _upper_ascii(w[:i] + ch + w[i + 1:])):
            add(t, 'differ')
    for ch in INVISIBLE:
        for w in (SPECIAL if thorough else [rng.choice(SPECIAL)]):
            i = rng.randrange(1, len(w))
            for t in (w + ch, ch + w, w[:i] + ch + w[i:], ch + w.upper() + ch):
                add(t, 'invisible')
    amounts = [-1.5, 19.99] + ([0.0, -0.0, float('nan'), 1e15] if thorough else [])
    others = [(0.0, 0.0), (12.5, 3.25), (-7.0, 1e9)]
    cases, stats = [], {}
    for t, cls in tags.items():
        stats[cls] = stats.get(cls, 0) + 1
        lists = [[t]]
        if thorough:
            lists += [[t, 'groceries'], ['x', t], [t, rng.choice(SPECIAL)], [rng.choice(SPECIAL).upper(), t]]
        elif rng.random() < 0.25:
            lists.append(rng.choice([[t, 'groceries'], ['Refund', t], [t, rng.choice(SPECIAL)]]))
        for tl in lists:
            for a in amounts:
                b, c = others[len(cases) % 3]
                cases.append({'op': 'classify', 'amount': float_bits(a), 'tags': tl, 'b': float_bits(b), 'c': float_bits(c),
                              'ascii': False, 'class': 'unicode:' + cls})
    stats['characters'] = {'case': sorted({ch for v in look['case'].values() for ch in v}),
                           'compat_pool': sum(len(v) for v in look['compat'].values()),
                           'differ_pool': len(look['differ']), 'unicode_versions': look['unicode']}
    return cases, stats


def with_lower_tables(cases, js):
    """copies of the cases carrying what EACH language's own lower-casing returned for every tag of the case
    (Python: str.lower called here; JavaScript: toLowerCase called by the node runner) - the two external functions
    the Lean models are parametrised by."""
    out = []
    for c, j in zip(cases, js):
        d = dict(c)
        d['lower_py'] = [[t, t.lower()] for t in (c['tags'] or [])]
        d['lower_js'] = j.get('lowered', [])
        out.append(d)
    return out


def compare(cases, py, js, lean):
    """Returns (property_failures, translator_failures)."""
    prop_fail, tr_fail = [], []
    for i, c in enumerate(cases):
        p, j = py[i], js[i]
        diffs = []
        if canon_keys(j['keys']) != canon_keys(p['keys']):
            diffs.append(('keys', p['keys'], j['keys']))
        for k in ('cat', 'excluded', 'income', 'transfer', 'investment', 'cashflow'):
            if p[k] != j[k]:
                diffs.append((k, p[k], j[k]))
        if diffs:
            prop_fail.append({'case': c, 'python': p, 'javascript': j, 'differs_in': [d[0] for d in diffs]})
        if lean is not None:
            l = lean[i]
            for side, real in (('py', p), ('js', j)):
                for k in l[side]:
                    if l[side][k] != real[k]:
                        tr_fail.append({'case': c, 'side': side, 'key': k, 'generated_lean': l[side][k], 'source': real[k]})
    return prop_fail, tr_fail


def nontrivial(c):
    t = c['tags'] or []
    return any(x.lower() in SPECIAL for x in t) or not (bits_float(c['amount']) > 0)


def run(ctx):
    thorough = not ctx.quick
    with common.Lock():
        st = {}
        regen.regen_classification(st)
        for name, s in st.items():
            ctx.obligation(f'translator:{name}', 'translator', s['ok'], error=s.get('error'))
        ctx.notes['translators'] = st
        lo = common.lean_obligations('TallyVerif.Props.C13')
        ctx.add_obligations(lo['obligations'])
        if lo['forbidden']:
            ctx.obligation('audit:forbidden-tokens', 'audit', False, error='; '.join(lo['forbidden']))
        ctx.notes['build_ok'] = not lo.get('build_failed', False)
    ustats, look = None, None
    if getattr(ctx, 'replay_case', None):
        cases = [json.loads(ctx.replay_case)]
    elif ctx.replay:
        cases = grid(ctx, thorough)
    else:
        look = lookalikes()
        ucases, ustats = unicode_stream(ctx, thorough, look)
        cases = grid(ctx, thorough) + ucases
    if ctx.replay:
        rp = json.loads(common.read(ctx.replay))
        if 'sequence' in rp.get('counterexample', {}):
            cases = rp['counterexample']['sequence']
        elif 'case' in rp.get('counterexample', {}):
            cases = [rp['counterexample']['case']]
    py = py_side(cases)
    js = node_side(cases)
    lean = None
    try:
        # both generated models, each with the recorded images of ITS language's lower-casing function
        lean = common.Driver().batch(with_lower_tables(cases, js))
    except Exception as e:  # driver unavailable: the translator validation obligation is broken
        ctx.obligation('driver', 'correspondence', False, error=str(e)[:500])
    prop_fail, tr_fail = compare(cases, py, js, lean)
    if prop_fail and len(cases) > 1:
        # a difference that needs the EARLIER classifications of the same JavaScript context / Python process (a cache, a memo) does not
        # show on the case alone: keep the shortest run of preceding cases that reproduces it, so that the replay is the history
        pf = prop_fail[0]
        alone, _ = compare([pf['case']], py_side([pf['case']]), node_side([pf['case']]), None)
        if not alone:
            i = cases.index(pf['case'])
            for k in (1, 2, 3, 4, 8, 16, 64, 256, i):
                seq = cases[max(0, i - k):i + 1]
                again, _ = compare(seq, py_side(seq), node_side(seq), None)
                if any(x['case'] == pf['case'] for x in again):
                    pf['sequence'] = seq
                    pf['note'] = 'differs only after the earlier classifications of this sequence (same JavaScript context / same Python process)'
                    break
    # the hypothesis of the *_eq_of_specialAgree theorems, evaluated by the model on the real images
    lower_differs = [c['tags'] for c, j in zip(cases, js)
                     if any(t.lower() != lo for t, lo in j.get('lowered', []))]
    hyp_false = [c['tags'] for c, l in zip(cases, lean or []) if l.get('special_agree') is False]
    ctx.notes['lowercasing'] = {
        'tag_lists_where_str_lower_and_toLowerCase_differ': len({json.dumps(t) for t in lower_differs}),
        'example': lower_differs[0] if lower_differs else None,
        'tag_lists_where_specialAgree_is_false': len({json.dumps(t) for t in hyp_false}),
        'specialAgree_false_example': hyp_false[0] if hyp_false else None}
    ctx.cov['evaluations'] = len(cases) * (3 if lean is not None else 2)
    ctx.cov['distinct_nontrivial'] = len({(c['amount'], json.dumps(c['tags'])) for c in cases if nontrivial(c)})
    ctx.cov['rule'] = ('grid: amounts {±large, ±fraction, ±0, NaN, ±inf, denormal, random} × tag lists '
                       '{missing, empty, every subset of the special tags in several letter cases and orders, '
                       'mixed with ordinary tags, non-ASCII look-alikes}; PLUS the Unicode look-alike stream: the special words '
                       'with each 1-3 letter piece replaced by every code point that some case mapping (Python lower/upper/'
                       'casefold/title/swapcase, JavaScript toLowerCase/toUpperCase/toLocale*Case(tr,lt), round trips; class '
                       '"case": all of them, singly and in pairs) or some NFKC/NFKD/accent-stripping form (class "compat": a '
                       'ctx.rng sample in the quick tier, all in the thorough tier) sends to that piece, with code points whose '
                       'lower/upper case differs between the Python and the node runtime (class "differ") and with white-space / '
                       'invisible / combining characters attached (class "invisible"), alone and mixed with ordinary and special '
                       'tags, × {negative, positive} amounts; the characters are found by scanning all of Unicode in both runtimes '
                       'each run.  Each case run on classification.py, on the JS block under node, and on both generated Lean '
                       'models (each with the recorded images of its own language\'s lower-casing function); '
                       'non-trivial = has a special tag or amount not > 0')
    if ustats is not None:
        ctx.cov['unicode_stream'] = ustats
    ctx.cov['exhaustive'] = False
    ctx.cov['traces_validated_against_impl'] = len(cases)
    ctx.cov['programs'] = 2
    for c in cases[:3] + cases[len(cases) // 2: len(cases) // 2 + 2]:
        ctx.sample({'amount': bits_float(c['amount']) if c['amount'] != 'nan' else 'nan', 'tags': c['tags']})
    ctx.obligation('correspondence:generated-lean-vs-sources', 'correspondence', lean is not None and not tr_fail,
                   cases=len(cases), error=(json.dumps(tr_fail[0]) if tr_fail else None))
    # verdict
    if prop_fail:
        ce = prop_fail[0]
        ctx.violation('counterexample', {'counterexample': ce,
                                         'required': 'JavaScript and Python classification agree on every amount and tag list',
                                         'failures_in_grid': len(prop_fail),
                                         'broken_obligations': [o['name'] for o in ctx.broken()]})
    elif ctx.broken():
        # search with the thorough grid before giving up
        big = grid(ctx, True) + unicode_stream(ctx, True, look)[0]
        pf, _ = compare(big, py_side(big), node_side(big), None)
        ctx.cov['evaluations'] += 2 * len(big)
        if pf:
            ctx.violation('counterexample', {'counterexample': pf[0], 'failures_in_grid': len(pf),
                                             'broken_obligations': [o['name'] for o in ctx.broken()]})
        else:
            ctx.violation('broken-obligation',
                          {'broken_obligations': ctx.broken(), 'lean_log': lo['log'][-3000:],
                           'translator_disagreement': tr_fail[:3],
                           'searched': f'{len(big)} grid cases on node vs Python without a difference'}, nofail=True)
    return ctx.finish(extra_trusted=[
        'py→Lean and js→Lean translators (harness/translate), validated each run against Python and node on the grid',
        'str.lower (Python) and toLowerCase (JS): one shared abstract function in the *_eq theorems, two separate functions '
        'related by the decidable hypothesis specialAgree in the *_eq_of_specialAgree theorems; the hypothesis is evaluated by '
        'the driver on the recorded images of both functions for every generated tag list (evidence: lowercasing)',
        'key renaming transferIn↔transfer_in, transferOut↔transfer_out'])
