"""C07 — classification depends only on the current rules and the transaction, not on history.

Proof: Props/C07.lean — `history_independent` over the cache state machine `History.step` for an
arbitrary world, by the invariants (cached engine = last .rules load; expression / regex caches hold
what parsing / compiling the key gives); `stale_engine_unrepaired` is the D7 counterexample.
Tie + oracle: random operation sequences {load A|B|… (.rules or CSV), classify t, evaluate e, reload}
run in ONE process; after each classify / evaluate the same operation is performed by a child
forked from a pristine interpreter that only replayed the last load (`harness/pristine.py`); the
model (symbolic world) predicts which load every answer must come from.
Frame: classify leaves the rule list, the supplemental rows and the transaction dict (except the
transform targets) deep-equal.
"""
import copy
import json
import os
import subprocess
import sys

from .. import common, pristine
from ..gen import rules as GR
from . import rules_common as RC, evalcorr

# expression pairs that collide under plausible mis-keying of the caches (case / blanks inside literals)
COLLIDE = [('split("a", 0)', 'split("A", 0)'), ('description.startswith("u")', 'description.startswith("U")'),
           ('description.replace("e", "#")', 'description.replace("E", "#")'), ('extract("(uber)")', 'extract("(UBER)")'),
           ('split(" ", 0)', 'split("  ", 0)'), ('substring(0, 2)', 'substring(0, 2) '), ('trim(description)', 'TRIM(description)'),
           ('description.endswith("s")', 'description.endswith("S")'), ('regex("uber")', 'regex("UBER")'),
           ('regex("[a-z]+ [0-9]+")', 'regex("[A-Z]+ [0-9]+")'), ('amount > 1', 'amount>1'), ('"x" in description', '"X" in description'),
           ('regex("^\\\\S+$")', 'regex("^\\\\s+$")'), ('regex("^\\\\D")', 'regex("^\\\\d")'), ('regex("\\\\W\\\\W")', 'regex("\\\\w\\\\w")'),
           ('extract("(\\\\S+)")', 'extract("(\\\\s+)")'),
           # a name BOUND by one evaluation (walrus, a comprehension / generator variable, one abandoned half-way) and READ by the next one:
           # the second expression knows only the transaction, so the name is undefined there - whatever ran before
           ('(leak := description) == description', 'leak == description'), ('(tmp := amount + 1) > 0', 'tmp > 0'),
           ('len([w for w in description]) > 0', 'w == "X"'), ('any(ch == ch for ch in description)', 'ch == ch'),
           ('next(c for c in description) == c', 'c == "U"'), ('(weekday := 3) == 3', 'weekday == 3'), ('(amount := 7) == 7', 'amount == 7'),
           ('(month := 13) > 0', 'month'), ('(description := "x") == "x"', 'contains("UBER")')]


class Pristine:
    def __init__(self):
        env = dict(os.environ)
        env['PYTHONPATH'] = os.path.join(common.REPO, 'src') + os.pathsep + common.VERIF
        self.p = subprocess.Popen([sys.executable, '-m', 'harness.pristine'], cwd=common.VERIF, env=env,
                                  stdin=subprocess.PIPE, stdout=subprocess.PIPE, text=True)

    def ask(self, last_load, op):
        self.p.stdin.write(json.dumps({'last_load': last_load, 'op': op}) + '\n')
        self.p.stdin.flush()
        return json.loads(self.p.stdout.readline())

    def close(self):
        try:
            self.p.stdin.close()
            self.p.wait(timeout=10)
        except Exception:
            self.p.kill()


SAME_LENGTH = {'Food': 'Fuel', 'Transport': 'Transfers', 'Transfers': 'Transport', 'Shopping': 'Supplies', 'Subscriptions': 'Subscriptionz',
               'Income': 'Incomm', 'Bills': 'Bilds'}


def same_size_edit(text):
    """The same file after an edit that keeps its size: the first category value replaced by one of equal length."""
    import re
    m = re.search(r'^category: (\w+)$', text, re.M)
    if not m or m.group(1) not in SAME_LENGTH:
        return None
    return text[:m.start(1)] + SAME_LENGTH[m.group(1)] + text[m.end(1):]


def gen_files(r, txn, variants=()):
    """Four rule files of one budget (two .rules, two legacy CSV) plus re-loads of the SAME path: the .rules file with
    the other rule mode, and after an edit that keeps size and (pinned) modification time."""
    files = {}
    pin = r.choice([None, 1700000000, 1700000000])
    for name in ('A', 'B'):
        f = GR.gen_rules_file(r, txn, n=r.choice([1, 2, 3, 4]), dup_names=r.random() < 0.3)
        if variants and r.random() < 0.7:
            f = RC.with_discriminators(f, txn, list(variants), r)
        if r.random() < 0.5:
            # a rule that asks a supplemental source: its answer depends on the rows handed in WITH THIS classification only
            cond = r.choice(['any(r.item == "Book" for r in orders)', 'len(orders) > 0', 'len([r for r in orders if r.amount > 10]) >= 1'])
            rule = {'name': 'Ordered', 'match': cond, 'category': 'BySource', 'subcategory': 'O', 'tags': ['{len(orders)}']}
            k = r.random()
            if k < 0.3:
                # the source is asked through a TOP-LEVEL VARIABLE: undefined for a classification that comes without the rows, defined for
                # the next one that brings them - whatever was remembered about it in between
                f['variables'] = dict(f['variables'], has_order=cond)
                rule['match'] = r.choice(['has_order', 'has_order and amount == amount', 'not (not has_order)'])
            elif k < 0.5:
                rule['lets'] = [('got', cond)]
                rule['match'] = 'got'
            elif k < 0.6:
                f['variables'] = dict(f['variables'], n_orders='len(orders)')
                rule['match'] = 'n_orders >= 1'
                rule['tags'] = ['{n_orders}']
            f['rules'] = [rule] + f['rules']
        words = [w for w in txn['description'].upper().split() if w.isalnum()]
        if words and r.random() < 0.6:
            # two rules true of the base line on which the two rule modes disagree (file order vs specificity)
            w = r.choice(words)
            f['rules'] = [{'name': 'General', 'match': f'contains("{w}")', 'category': 'ByOrder', 'subcategory': 'G'},
                          {'name': 'Specific', 'match': f'contains("{w}") and amount == amount', 'category': 'BySpecificity', 'subcategory': 'S'}] + f['rules']
        files[name] = {'k': 'load', 'kind': 'rules', 'name': name, 'text': GR.render_rules(f), 'mode': r.choice(['first_match', 'most_specific']),
                       'order': r.choice(['rt', 'tr'])}
        if pin:
            files[name]['mtime'] = pin
        other = 'most_specific' if files[name]['mode'] == 'first_match' else 'first_match'
        files[name + 'm'] = dict(files[name], name=name + 'm', mode=other)
        t2 = same_size_edit(files[name]['text'])
        if t2:
            files[name + 'e'] = dict(files[name], name=name + 'e', text=t2)
    for name in ('C', 'D'):
        rows = GR.gen_csv_rules(r, txn, n=r.choice([1, 2, 3]))
        for i, v in enumerate(list(variants)):
            # expression-shaped Pattern cells (field.x == …, amount > …, source == …): evaluable for some lines of the statement only
            dr = RC.discriminating_rule(r, txn, v, idx=i) if r.random() < 0.6 else None
            if dr and not dr[1] and 'lets' not in dr[0] and GR_is_expression_cell(dr[0]['match']):
                rows.insert(r.randint(0, len(rows)), (dr[0]['match'], f'E{i}', f'Expr{i}', '', ''))
        base_f = txn.get('field') or {}
        for v in variants:
            vf = v.get('field') or {}
            if vf != base_f and r.random() < 0.7:
                # a cell that reads a captured column: an expression for the lines that have the column, not evaluable for the others
                col = next((c for c in sorted(set(base_f) | set(vf)) if base_f.get(c) != vf.get(c)), None)
                val = base_f.get(col, vf.get(col))
                if col and val is not None and '"' not in val:
                    rows.insert(0, (r.choice([f'field.{col} == "{val}"', f'field.{col} == "{val}" and amount == amount']), 'Col', 'ByColumn', '', ''))
                    colinfo = (col, val)
                    break
        files[name] = {'k': 'load', 'kind': 'csv', 'name': name, 'text': GR.render_csv_rules(rows)}
        if 'colinfo' in dir() and colinfo:
            files[name]['col'] = list(colinfo)
        colinfo = None
    return files


def GR_is_expression_cell(text):
    """cells the legacy loop hands to the expression evaluator (mirrors the documented shapes: function call, field access, comparison of a primitive)"""
    import re
    return bool(re.match(r'^(contains|field\.|amount\s*[<>=!]|month\s*[<>=!]|year\s*[<>=!]|day\s*[<>=!]|source\s*[<>=!])', text))


def gen_sequence(r, n_ops):
    txn = GR.gen_txn(r)
    # the statement lines of one history: near-duplicates of one line (one attribute changed) plus an unrelated one
    variants = RC.txn_variants(r, txn, k=5)
    files = gen_files(r, txn, variants)
    txns = [RC.jtxn(txn)] + [RC.jtxn(x) for x in variants] + [RC.jtxn(GR.gen_txn(r))]
    pair = r.choice(COLLIDE)
    words = [w for w in txn['description'].upper().split() if w.isalnum()]
    dyn = []
    if words:
        # the same function on the same text with ONE argument changed (a memo keyed on the text alone would confuse them)
        w = r.choice(words[1:] or words)
        dyn = [(f'fuzzy("{w}")', f'fuzzy("{w}", 0.95)'), (f'fuzzy("{w}", 0.5)', f'fuzzy("{w}", 1.0)'), (f'fuzzy("{w}X", 0.6)', f'fuzzy("{w}X", 0.99)'),
               ('split(" ", 0)', 'split(" ", 1)'), ('substring(0, 3)', 'substring(1, 3)'), (f'extract("({w})")', f'extract("({w}).*")'),
               ('round(amount, 0)', 'round(amount, 1)'), (f'regex_replace(description, "{w}", "a")', f'regex_replace(description, "{w}", "b")'),
               (f'fuzzy(description, "{w}", 0.3)', f'fuzzy(description, "{w}", 0.97)'),
               ('date >= "2025-01-01"', 'date >= "2025-01-01" and month >= 1'), ('"2024-06-30" < date', 'date > "2024-06-30"')]
        if r.random() < 0.5:
            pair = r.choice(dyn)
    names = sorted(files)

    SOURCES = [None, None, {}, {'orders': [{'item': 'Book', 'amount': 12.5}]}, {'orders': [{'item': 'Pen', 'amount': 1.0}, {'item': 'Ink', 'amount': 30.0}]},
               {'orders': []}]

    def classify(t):
        return {'k': 'classify', 'txn': t, 'sources': r.choice(SOURCES)}

    def evaluate():
        e = r.choice(pair) if r.random() < 0.7 else r.choice(r.choice(COLLIDE))
        return {'k': 'eval', 'expr': e, 'txn': r.choice(txns), 'sources': None}
    shape = r.random()
    colfiles = [n for n in names if files[n].get('col')]
    if colfiles and shape < 0.3:
        # directed: a legacy file with a cell that reads a captured column; a line WITHOUT the column, then lines WITH it, then without
        n0 = r.choice(colfiles)
        col, val = files[n0]['col']
        base = RC.jtxn(txn)
        with_col = dict(base, field=dict(base.get('field') or {}, **{col: val}))
        without = dict(base, field={k: v for k, v in (base.get('field') or {}).items() if k != col} or None)
        return [files[n0], classify(without), classify(with_col), classify(without), classify(with_col)]
    if shape < 0.2:
        # directed: the same function on the same text with one argument changed, back and forth on ONE statement line
        t = r.choice(txns[:2])
        ops = [files[r.choice(names)]] if r.random() < 0.5 else []
        a, b = pair
        for a, b in [pair] + dyn:
            if r.random() < 0.5:
                a, b = b, a
            ops += [{'k': 'eval', 'expr': e, 'txn': t, 'sources': None} for e in (a, b, a)]
        if r.random() < 0.5:
            ops += [classify(t), {'k': 'eval', 'expr': b, 'txn': t, 'sources': None}]
        return ops
    if shape < 0.6:
        # directed: load P, classify a line and its near-duplicates (and the first line again), re-load the same path (other
        # mode / edited in place) or another file, classify the same lines again
        p = r.choice('ABCD')
        q = r.choice([n for n in names if n != p and (n.startswith(p) or r.random() < 0.4)] or names)
        lines = [txns[0]] + r.sample(txns[1:], min(len(txns) - 1, r.choice([1, 2, 3])))
        if r.random() < 0.5:
            lines.reverse()
        ops = [files[p]] + [classify(t) for t in lines] + [classify(lines[0])]
        if r.random() < 0.4:
            ops.append(evaluate())
        ops += [files[q]] + [classify(t) for t in lines] + [classify(lines[0])]
        if r.random() < 0.5:
            ops += [files[p], classify(lines[0]), classify(lines[-1])]
        return ops
    ops = []
    for _ in range(n_ops):
        k = r.random()
        if k < 0.35:
            ops.append(files[r.choice(names)])
        elif k < 0.75:
            ops.append(classify(r.choice(txns)))
        else:
            ops.append(evaluate())
    return ops


def cache_invariant_failures():
    """The process-wide caches hold what parsing / compiling their key gives (the invariant the Lean proof of history-independence
    rests on): every cached tree equals a fresh parse of its key, every cached regex is its key compiled case-insensitively."""
    import ast
    import re
    from tally import expr_parser as EP
    fails = []
    for key, tree in list(EP._expression_cache.items()):
        held = ast.dump(tree)
        del EP._expression_cache[key]
        try:
            fresh = ast.dump(EP.parse_expression(key))
        except Exception as e:       # noqa
            fresh = f'<{type(e).__name__}>'
        if held != fresh:
            fails.append({'class': 'cached-expression-differs-from-its-source', 'key': key, 'cached': held[:300], 'fresh_parse': fresh[:300]})
            break
    for key, rx in list(EP._regex_cache.items()):
        if rx.pattern != key or not (rx.flags & re.IGNORECASE):
            fails.append({'class': 'cached-regex-differs-from-its-source', 'key': key, 'cached': rx.pattern, 'flags': rx.flags})
            break
    return fails


HOLLOW_FILES = ['', '\n', '   \n\t\n', '# nothing yet\n', '\ufeff', '\ufeff\n', '# a\n\n# b\n', 'is_big = amount > 100\n', '\r\n\r\n']


def reparse_failures(r, n):
    """ONE MerchantEngine object given one rules text after another (`parse` / `load_file`, as an editor integration or a watcher does):
    after every text it classifies as an engine freshly made from THAT text - also when the text holds no rule at all (empty, blank,
    comments only, a byte order mark, variables only): then nothing is categorised, whatever the object held before."""
    import tempfile
    from pathlib import Path
    from tally import merchant_engine as ME
    fails = []
    d = tempfile.mkdtemp(prefix='tvc07r_')
    try:
        for i in range(n):
            txn = GR.gen_txn(r)
            t = RC.txn_for_engine(txn)
            texts = []
            for _ in range(r.choice([2, 3, 4])):
                texts.append(r.choice(HOLLOW_FILES) if r.random() < 0.4 else GR.render_rules(GR.gen_rules_file(r, txn, n=r.choice([1, 2, 3]))))
            mode = r.choice(['first_match', 'most_specific'])
            eng = ME.MerchantEngine(match_mode=mode)
            for k, text in enumerate(texts):
                try:
                    if r.random() < 0.5:
                        eng.parse(text)
                    else:
                        p = os.path.join(d, 'm.rules')
                        with open(p, 'w', encoding='utf-8', newline='') as fh:
                            fh.write(text)
                        eng.load_file(Path(p))
                    got = RC.result_summary(eng.match(copy.deepcopy(t)))
                    got['n_rules'] = len(eng.rules)
                    fresh = ME.parse_merchants(text, mode)
                    want = RC.result_summary(fresh.match(copy.deepcopy(t)))
                    want['n_rules'] = len(fresh.rules)
                except ME.MerchantParseError:
                    break
                except Exception:       # noqa  (C08)
                    break
                if got != want:
                    fails.append({'class': 'history-dependent-engine', 'site': 'one engine object re-parsed', 'texts': texts[:k + 1], 'mode': mode,
                                  'txn': RC.jtxn(txn), 'observed (the re-used object)': got, 'required (a fresh engine on the last text)': want})
                    return fails
    finally:
        import shutil
        shutil.rmtree(d, ignore_errors=True)
    return fails


def frame_failures(r, n):
    """MerchantEngine.match, evaluate_transaction and apply_transforms on the CALLER's dict: afterwards it is the dict it was
    (same keys, same values, same types) except for what the file's own transforms assign. The date may be a date or — as the
    statement parser produces it — a datetime."""
    import datetime
    from tally import merchant_engine as ME, merchant_utils as MU, expr_parser as EP
    fails = []
    for i in range(n):
        txn = GR.gen_txn(r)
        f = GR.gen_rules_file(r, txn, n=r.choice([1, 2, 3]))
        t = RC.txn_for_engine(txn)
        if t.get('date') and i % 2 == 0:
            d = t['date']
            t['date'] = datetime.datetime(d.year, d.month, d.day, r.choice([0, 13]), r.choice([0, 45]))
        try:
            eng = ME.parse_merchants(GR.render_rules(f), r.choice(['first_match', 'most_specific']))
        except ME.MerchantParseError:
            continue
        for what, call in (('MerchantEngine.match', lambda x: eng.match(x)),
                           ('evaluate_transaction', lambda x: EP.evaluate_transaction(r.choice(['date >= "2024-06-01"', 'month + year', 'contains("UBER")']), x)),
                           ('apply_transforms', lambda x: MU.apply_transforms(x, eng.transforms))):
            x = copy.deepcopy(t)
            before = {k: (type(v).__name__, copy.deepcopy(v)) for k, v in x.items()}
            try:
                call(x)
            except Exception:       # noqa  (what the call answers is not this clause's business)
                pass
            assigned = {fp[6:] for fp, _ in eng.transforms} if what == 'apply_transforms' else set()
            after = {k: (type(v).__name__, v) for k, v in x.items() if not k.startswith('_raw_')}
            changed = [k for k in set(before) | set(after) if before.get(k) != after.get(k) and k not in assigned and not (k == 'field' and assigned)]
            if changed:
                fails.append({'class': 'transaction-altered-by-' + what.split('.')[-1], 'rules': GR.render_rules(f),
                              'txn': {k: (v.isoformat() if hasattr(v, 'isoformat') else v) for k, v in t.items()}, 'date_is_datetime': isinstance(t.get('date'), datetime.datetime),
                              'altered': {k: [str(before.get(k)), str(after.get(k))] for k in changed}})
                return fails
    return fails


def run_sequence(ops, pr):
    """Returns (failures, model_case, labels) for one history."""
    from tally import merchant_utils as MU
    import shutil
    import tempfile
    MU.clear_engine_cache()          # a new history starts from a fresh-process-like engine state
    state = {'rules': [], 'transforms': [], 'dir': tempfile.mkdtemp(prefix='tvhist_')}
    try:
        fails, labels = _run_sequence(ops, pr, state)
        for cf in cache_invariant_failures():
            fails.append(dict(cf, ops=ops))
        return fails, labels
    finally:
        shutil.rmtree(state['dir'], ignore_errors=True)


def _run_sequence(ops, pr, state):
    fails, labels = [], []
    last_load = None
    loads_seen = {}
    for i, op in enumerate(ops):
        if op['k'] == 'load':
            pristine.perform({'op': op}, state)
            last_load = op
            loads_seen[op['name']] = op
            labels.append(None)
            continue
        rules_before = copy.deepcopy([tuple(x[:4]) + (x[5], tuple(x[6])) for x in state['rules']]) if op['k'] == 'classify' else None
        op_before = copy.deepcopy(op)
        got, _ = pristine.perform({'op': op}, state)
        if op != op_before:
            fails.append({'class': 'operation-arguments-modified', 'ops': ops[:i + 1]})
        if rules_before is not None:
            rules_after = [tuple(x[:4]) + (x[5], tuple(x[6])) for x in state['rules']]
            if rules_after != rules_before:
                fails.append({'class': 'rule-set-modified-by-classify', 'ops': ops[:i + 1]})
        want = pr.ask(last_load, op)
        if got != want:
            fails.append({'class': 'history-dependent-' + op['k'], 'ops': ops[:i + 1], 'position': i, 'observed': got,
                          'required (fresh process, last load only)': want})
        # which load does the observed answer correspond to? (for the model correspondence)
        if op['k'] == 'classify':
            cands = [n for n, l in loads_seen.items() if pr.ask(l, op) == got]
            labels.append(cands)
        else:
            labels.append(['eval'])
    return fails, labels


def model_case(ops):
    out = []
    for op in ops:
        if op['k'] == 'load':
            out.append({'k': 'load', 'kind': op['kind'], 'name': op['name']})
        elif op['k'] == 'classify':
            out.append({'k': 'classify', 't': 't'})
        else:
            out.append({'k': 'eval', 'expr': op['expr'], 't': 't'})
    return {'op': 'history', 'ops': out}


def run(ctx):
    lo = common.lean_phase(ctx, 'TallyVerif.Props.C07')
    r = ctx.rng
    pr = Pristine()
    prop_fail, corr_fail = [], []
    seqs = []
    try:
        if ctx.replay:
            ce = json.loads(common.read(ctx.replay)).get('counterexample', {})
            if 'ops' in ce:
                seqs = [ce['ops']]
            elif str(ce.get('class', '')).startswith('transaction-altered-by-'):
                import datetime
                from tally import merchant_engine as ME, merchant_utils as MU, expr_parser as EP
                t = dict(ce['txn'])
                if t.get('date'):
                    t['date'] = datetime.datetime.fromisoformat(t['date']) if ce.get('date_is_datetime') else datetime.date.fromisoformat(t['date'][:10])
                eng = ME.parse_merchants(ce['rules'])
                for call in (lambda x: eng.match(x), lambda x: EP.evaluate_transaction('date >= "2024-06-01"', x), lambda x: MU.apply_transforms(x, eng.transforms)):
                    x = copy.deepcopy(t)
                    before = {k: (type(v).__name__, copy.deepcopy(v)) for k, v in x.items()}
                    try:
                        call(x)
                    except Exception:      # noqa
                        pass
                    assigned = {fp[6:] for fp, _ in eng.transforms}
                    if any(before.get(k) != (type(v).__name__, v) for k, v in x.items() if not k.startswith('_raw_') and k not in assigned and k != 'field'):
                        prop_fail.append(dict(ce))
                        break
            elif 'texts' in ce:
                from tally import merchant_engine as ME
                t = RC.txn_for_engine(RC.untxn(ce['txn']))
                eng = ME.MerchantEngine(match_mode=ce.get('mode', 'first_match'))
                for text in ce['texts']:
                    eng.parse(text)
                got = RC.result_summary(eng.match(copy.deepcopy(t)))
                want = RC.result_summary(ME.parse_merchants(ce['texts'][-1], ce.get('mode', 'first_match')).match(copy.deepcopy(t)))
                if got != want:
                    prop_fail.append(dict(ce, observed=got, required=want))
            elif 'sequence' in ce and 'file' in ce:
                from tally import merchant_engine as ME
                text = GR.render_rules(ce['file'])
                eng = ME.parse_merchants(text, ce.get('mode', 'first_match'))
                for tv in ce['sequence']:
                    t = RC.txn_for_engine(RC.untxn(tv))
                    got = RC.result_summary(eng.match(copy.deepcopy(t)))
                    want = RC.result_summary(ME.parse_merchants(text, ce.get('mode', 'first_match')).match(copy.deepcopy(t)))
                    if got != want:
                        prop_fail.append(dict(ce, observed=got, required=want))
                        break
        else:
            # corpus: the D7 witness first
            a = {'k': 'load', 'kind': 'rules', 'name': 'A', 'text': '[Uber]\nmatch: contains("UBER")\ncategory: FromRules\n'}
            b = {'k': 'load', 'kind': 'csv', 'name': 'C', 'text': 'Pattern,Merchant,Category,Subcategory,Tags\nUBER,Uber,FromCsv,,\n'}
            t = {'k': 'classify', 'txn': {'description': 'UBER TRIP', 'amount': 12.5, 'field': None, 'source': '', 'location': None}}
            seqs.append([a, b, t])
            seqs.append([b, a, t, b, t, a, a, t])
            # directed, every run: the SAME PATH re-loaded after an edit that keeps its size within the file system's timestamp granularity
            # (pinned mtime), rules / transforms asked in either order; and the same unchanged file re-loaded under the other rule mode
            pin = 1700000000
            e1 = {'k': 'load', 'kind': 'rules', 'name': 'P', 'text': '[Uber]\nmatch: contains("UBER")\ncategory: Food\n', 'mode': 'first_match', 'mtime': pin, 'order': 'rt'}
            e2 = dict(e1, name='Pe', text=e1['text'].replace('Food', 'Fuel'))
            seqs.append([e1, t, e2, t])
            seqs.append([dict(e1, order='tr'), t, dict(e2, order='tr'), t, dict(e1, order='tr'), t])
            g = {'k': 'load', 'kind': 'rules', 'name': 'G', 'mode': 'first_match', 'mtime': pin, 'order': 'tr',
                 'text': '[General]\nmatch: contains("UBER")\ncategory: ByOrder\n\n[Specific]\nmatch: contains("UBER") and amount > 1\ncategory: BySpecificity\n'}
            seqs.append([g, t, dict(g, name='Gm', mode='most_specific'), t, g, t])
            seqs.append([dict(g, mode='most_specific', order='rt'), t, dict(g, name='Gm', order='rt'), t])
            n = 50 if ctx.quick else 900
            for _ in range(n):
                seqs.append(gen_sequence(r, r.choice([3, 5, 8, 12])))
        cases, all_labels = [], []
        nops = 0
        for ops in seqs:
            fails, labels = run_sequence(ops, pr)
            prop_fail.extend(fails)
            cases.append(model_case(ops))
            all_labels.append(labels)
            nops += len(ops)
        try:
            outs = common.Driver().batch(cases)
            for ops, labels, mo in zip(seqs, all_labels, outs):
                for i, (op, lab, m) in enumerate(zip(ops, labels, mo['outs'])):
                    if op['k'] != 'classify' or lab is None:
                        continue
                    # model answer: "engine:<name>:t" | "legacy:<name>:t" | "norules"
                    src = m.split(':')[1] if ':' in m else None
                    if src is None:
                        continue                      # no rules loaded yet
                    if src not in lab:
                        corr_fail.append({'ops': ops[:i + 1], 'model_says_answer_comes_from': m, 'implementation_answer_matches_loads': lab})
        except Exception as e:
            corr_fail.append({'driver_error': str(e)[:400]})
    finally:
        pr.close()
        from tally import merchant_utils as MU
        MU.clear_engine_cache()
    # engine-level history: one MerchantEngine classifies a run of near-duplicate lines, each answer against a freshly parsed engine
    nbatch = 0
    if not ctx.replay:
        for i in range(120 if ctx.quick else 3000):
            txn = GR.gen_txn(r)
            f = GR.gen_rules_file(r, txn, n=r.choice([1, 2, 3, 4]), dup_names=(i % 3 == 0), let_twins=(i % 4 == 1))
            f['transforms'] = []
            try:
                for pf in RC.oracle_batch(f, RC.txn_for_engine(txn), r.choice(['first_match', 'most_specific']), r):
                    pf['class'] = 'history-dependent-engine'
                    prop_fail.append(pf)
            except Exception:       # noqa  (an escaping Python exception is C08's business)
                pass
            nbatch += 1
        prop_fail.extend(reparse_failures(r, 60 if ctx.quick else 2000))
        prop_fail.extend(cache_invariant_failures())
        prop_fail.extend(frame_failures(r, 80 if ctx.quick else 3000))
    ctx.notes['engine_level_runs_of_near_duplicates'] = nbatch
    ctx.obligation('correspondence:cache state machine (which load an answer comes from) model-vs-implementation', 'correspondence',
                   not corr_fail, cases=len(seqs), error=json.dumps(corr_fail[0], default=str)[:1500] if corr_fail else None)
    ctx.cov['evaluations'] = nops
    ctx.cov['traces_validated_against_impl'] = len(seqs)
    ctx.cov['distinct_nontrivial'] = len({json.dumps(s, sort_keys=True) for s in seqs
                                          if len({o['name'] for o in s if o['k'] == 'load'}) >= 2 and any(o['k'] == 'classify' for o in s)})
    ctx.cov['rule'] = ('operation sequences of length 3–12 over four rule files (two .rules, two legacy CSV, regenerated per sequence from '
                       'overlapping conditions) × classify / evaluate (incl. expression pairs that collide under mis-keyed caches) in one '
                       'process; every classify / evaluate answer compared with a child forked from a pristine interpreter that replayed only '
                       'the last load; deep-copy frame checks; after every history the process-wide expression / regex caches are compared with a fresh '
                       'parse / compile of their keys; one MerchantEngine over runs of near-duplicate lines vs freshly parsed engines. Non-trivial = at least two different files loaded and a classification in the sequence')
    if seqs:
        ctx.sample({'ops': [{k: (v if k != 'text' else v[:60]) for k, v in o.items()} for o in seqs[0]]})
    if len(seqs) > 2:
        ctx.sample({'ops': [{k: (v if k != 'text' else v[:60]) for k, v in o.items()} for o in seqs[2][:5]]})

    def search():
        out = []
        pr2 = Pristine()
        try:
            for _ in range(400):
                f, _ = run_sequence(gen_sequence(r, r.choice([3, 5, 8])), pr2)
                out.extend(f)
                if out:
                    break
        finally:
            pr2.close()
        return out

    common.conclude(ctx, prop_fail, search=search,
                    required='the result of classifying / evaluating is a function of the most recently loaded rule set, the transaction and '
                             'the supplemental data alone — equal to what a fresh process gives — and classifying never alters rules, rows or transaction')
    return ctx.finish(extra_trusted=[
        'the cache state machine is a hand model (History.step) of _cached_engine / _expression_cache / _regex_cache; the theorems hold for every parser, compiler, engine and evaluator',
        'the pristine-process oracle: os.fork from an interpreter that only imported tally',
        'MerchantEngine._compiled_exprs is per engine instance and reset by parse(); it is not part of the process-wide state'])
