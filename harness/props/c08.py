"""C08 — a rule that fails to evaluate is skipped; it never aborts classification.

Proof: Props/C08.lean (`match_total`, `root_raises_only_expression_error`, `failing_*`) over
`Engine.matchTxn` = evaluator model + rule-list algorithm, with the repaired expression root.
Tie:  (1) EXHAUSTIVE operator × type table: every operator / comparison / builtin / function applied
          to representatives of every value kind — raw exception class, model vs CPython;
      (2) random ill-typed expression stream (raw and through the root);
      (3) ill-typed rule files through MerchantEngine.match on the full evaluator model.
Oracle on the implementation alone: classification completes for every accepted file and equals
the classification with the failing rules deleted; through parse_generic_csv no row / source is
lost; `python -m tally up` with an ill-typed rule and an ill-typed view filter still reports.
"""
import copy
import datetime
import json
import os

from .. import common, regen, exprs
from ..gen import rules as GR
from . import evalcorr, rules_common as RC

BAD_MATCH = ['amount > "x"', 'contains(5)', 'description + 1 == 2', '-description == 1', 'len(amount) > 0',
             'next(r for r in rows) == 1', 'regex_replace(description, "(", "") == ""', 'max(x for x in "") == "a"',
             'amount.lower() == "x"', 'date > 5', 'sum(description) > 0', 'startswith(description, 5)',
             'split(" ", 0) > 3', 'field.nope == "x"', 'nosuchvar', 'regex("(")', 'date >= "soon"', 'description[99] == "a"',
             'unknown_fn(1)', 'rows[0].item > 3', 'min(amount, "a") == 1', 'any(next(x for x in rows) for r in orders)', 'sum(next(r.amount for r in rows) for q in orders) > 0', 'round("x") == 1', 'abs(description) > 1',
             '"a" in 5', 'amount in amount', 'fuzzy(description, "UBER", "high")', 'trim(1, 2) == ""', 'extract(5, 5) == ""']
BAD_VALUE = ['amount + "x"', 'next(r.item for r in rows)', 'extract(description, "(")', 'split(description, "", 0)',
             'description.bogus()', 'field.nope', 'uppercase(1, 2)', 'rows[9]', 'substring("a", "b")', '-description',
             'regex_replace(description, "(", "")', 'max(r.item for r in nothing)', 'sum(r.item for r in rows)',
             # lazily evaluated values whose ELEMENTS fail: nothing outside the evaluator may consume them unguarded
             '(r.item + 1 for r in orders)', '(r.nope for r in orders)', '(-r.item for r in orders)', '[r.item + 1 for r in orders]',
             '(r.amount > "x" for r in orders)', '(x for x in 5)']
ROWS = {'rows': [], 'orders': [{'item': 'Book', 'amount': 12.5}]}


def ill_typed_calls(r, k):
    """every function the evaluators resolve, applied to a number / a row / a list where text is expected, in each argument position"""
    from .c03 import function_names
    wrong = ['5', 'amount', '2.5', 'orders', 'orders[0]', 'date', 'true']
    ok = ['description', '"a"', '0']
    out = []
    for fn in function_names():
        for pos in range(3):
            for arity in range(pos + 1, 4):
                args = [r.choice(ok) for _ in range(arity)]
                args[pos] = r.choice(wrong)
                out.append(f'{fn}({", ".join(args)}) == "zz"')
    return r.sample(out, min(k, len(out)))


def _noaddr(tag):
    """an escaped generator object prints with its address (recorded observation of C03); not part of this comparison"""
    import re
    return re.sub(r' at 0x[0-9a-f]+', '', tag)


def batch_oracle(f, txn, mode, r):
    """A rule that cannot be evaluated for ONE item is inapplicable to THAT item only: a long-lived engine classifies
    a run of near-duplicates (some of which make a rule fail — a missing column, a missing date) and every answer
    must equal the answer of a fresh engine."""
    from tally import merchant_engine as ME
    try:
        ME.parse_merchants(GR.render_rules(f), mode)
    except ME.MerchantParseError:
        return []
    try:
        fails = RC.oracle_batch(dict(f, transforms=[]), txn, mode, r, data_sources=ROWS)
    except Exception:
        return []          # an abort is reported by engine_oracle
    for pf in fails:
        pf['class'] = 'failing-rule-affects-other-items'
    return fails


def plant(r, f):
    """Replace / add failing expressions in an abstract rules file. Returns names of rules made to fail."""
    f = copy.deepcopy(f)
    failing = []
    bad_pool = BAD_MATCH + ill_typed_calls(r, 12)
    for rule in f['rules']:
        k = r.random()
        if k < 0.3:
            rule['match'] = r.choice(bad_pool) if r.random() < 0.6 else f'({rule["match"]}) and {r.choice(bad_pool)}'
            failing.append(rule['name'])
        elif k < 0.4:
            rule.setdefault('lets', []).append(('broken', r.choice(BAD_VALUE)))
        elif k < 0.5 and 'category' in rule:
            rule.setdefault('fields', []).append(('bad', r.choice(BAD_VALUE)))
        elif k < 0.6:
            rule.setdefault('tags', ['ok']).append('{%s}' % r.choice(BAD_VALUE))
    if r.random() < 0.3:
        f['variables']['broken_var'] = r.choice(BAD_VALUE)
    if r.random() < 0.2:
        f['transforms'] = list(f['transforms']) + [('field.description', r.choice(BAD_VALUE))]
    if r.random() < 0.25:
        # a well-formed transform that assigns a custom field: the statement line may have no captured columns at all
        f['transforms'] = list(f['transforms']) + [r.choice([('field.channel', 'extract(field.description, "([A-Z]+)")'),
                                                             ('field.memo', 'trim(field.description)'), ('field.type', '"x"'),
                                                             ('field.code', 'uppercase(field.code)'), ('field.memo', 'field.type')])]
    return f, failing


def engine_oracle(f, txn, mode):
    """classification completes; equals classification with the (standalone-)failing rules deleted."""
    from tally import merchant_engine as ME, expr_parser as EP, merchant_utils as MU
    text = GR.render_rules(f)
    fails = []
    try:
        eng = ME.parse_merchants(text, mode)
    except ME.MerchantParseError:
        return fails, None
    t = RC.txn_for_engine(txn)
    try:
        MU.apply_transforms(t, eng.transforms)
        res = eng.match(copy.deepcopy(t), data_sources=ROWS)
    except Exception as e:
        fails.append({'class': 'classification-aborts', 'exception': type(e).__name__, 'message': str(e)[:200],
                      'rules': text, 'txn': RC.jtxn(txn), 'mode': mode, 'file': f})
        return fails, None
    # which rules fail for this transaction (match cannot be evaluated)?
    gv = eng._evaluate_variables(copy.deepcopy(t), ROWS)
    keep = []
    for rule, ar in zip(eng.rules, f['rules']):
        try:
            variables = eng._evaluate_let_bindings(rule, copy.deepcopy(t), gv, ROWS) if rule.let_bindings else gv
            EP.evaluate_transaction(rule.match_expr, copy.deepcopy(t), variables, ROWS)
            keep.append(ar)
        except EP.ExpressionError:
            pass
        except Exception:
            pass       # reported above as an abort if it escapes match()
    if len(keep) != len(f['rules']):
        try:
            eng2 = ME.parse_merchants(GR.render_rules(dict(f, rules=keep)), mode)
            res2 = eng2.match(copy.deepcopy(t), data_sources=ROWS)
            a = (res.merchant, res.category, res.subcategory, sorted({_noaddr(x) for x in res.tags}), [x.name for x in res.all_matching_rules])
            b = (res2.merchant, res2.category, res2.subcategory, sorted({_noaddr(x) for x in res2.tags}), [x.name for x in res2.all_matching_rules])
            if a != b:
                fails.append({'class': 'failing-rule-not-inert', 'rules': text, 'txn': RC.jtxn(txn), 'mode': mode, 'file': f,
                              'observed': a, 'required (failing rules deleted)': b})
        except Exception as e:
            fails.append({'class': 'classification-aborts', 'exception': type(e).__name__, 'rules': text,
                          'txn': RC.jtxn(txn), 'mode': mode, 'file': f})
    return fails, (eng, t, res)


def csv_oracle(r):
    """ill-typed rules must not make parse_generic_csv lose rows or raise (cmd_run would drop the whole source)."""
    import tempfile
    import shutil
    from tally import parsers, format_parser, merchant_utils as MU
    fails = []
    d = tempfile.mkdtemp(prefix='tvc08_')
    try:
        rows = [('2025-01-05', 'UBER EATS 123', '15.99'), ('2025-01-06', 'COSTCO WHSE', '100.00'), ('2025-02-01', 'ACME PAYROLL', '-2000')]
        with open(os.path.join(d, 'bank.csv'), 'w') as fh:
            fh.write('Date,Description,Amount\n' + '\n'.join(','.join(x) for x in rows) + '\n')
        bad = r.sample(BAD_MATCH, 3)
        # the WINNING rule carries values that fail (at once, or lazily when something consumes them): a tag, a let binding it does not
        # need, one or two report fields - whoever handles them after the evaluator (normalize_merchant, the statement loop, the report)
        rules_text = '\n'.join(f'[Bad{i}]\nmatch: {b}\ncategory: X\n' for i, b in enumerate(bad)) + \
            '\n[Uber]\n' + (f'let: spare = {r.choice(BAD_VALUE)}\n' if r.random() < 0.3 else '') + \
            'match: contains("UBER")\ncategory: Food\ntags: {%s}, ok\n' % r.choice(BAD_VALUE) + \
            ''.join(f'field: f{i} = {r.choice(BAD_VALUE)}\n' for i in range(r.choice([0, 1, 1, 2])))
        p = os.path.join(d, 'merchants.rules')
        with open(p, 'w') as fh:
            fh.write(rules_text)
        MU.clear_engine_cache()
        rules = MU.get_all_rules(p)
        spec = format_parser.parse_format_string('{date:%Y-%m-%d},{description},{amount}')
        import inspect
        kw = {'source_name': 'Bank'}
        if 'data_sources' in inspect.signature(parsers.parse_generic_csv).parameters:
            kw['data_sources'] = ROWS
        try:
            txns = parsers.parse_generic_csv(os.path.join(d, 'bank.csv'), spec, rules, **kw)
        except Exception as e:
            return [{'class': 'source-lost', 'exception': type(e).__name__, 'message': str(e)[:200], 'rules': rules_text}]
        finally:
            MU.clear_engine_cache()
        if len(txns) != len(rows):
            fails.append({'class': 'rows-lost', 'observed': len(txns), 'required': len(rows), 'rules': rules_text})
        elif txns[0].get('category') != 'Food':
            fails.append({'class': 'failing-rule-not-inert', 'observed': txns[0].get('category'), 'required': 'Food', 'rules': rules_text})
        else:
            # the same line through normalize_merchant itself (explain / discover call it outside any statement loop)
            try:
                MU.clear_engine_cache()
                rules = MU.get_all_rules(p)
                got = MU.normalize_merchant('UBER EATS 123', rules, amount=15.99, data_source='Bank', data_sources=ROWS)
                if got[1] != 'Food':
                    fails.append({'class': 'failing-rule-not-inert', 'site': 'normalize_merchant', 'observed': got[1], 'required': 'Food', 'rules': rules_text})
            except Exception as e:
                fails.append({'class': 'classification-aborts', 'site': 'normalize_merchant', 'exception': type(e).__name__, 'message': str(e)[:200],
                              'rules': rules_text})
            finally:
                MU.clear_engine_cache()
    finally:
        shutil.rmtree(d, ignore_errors=True)
    return fails


def views_inert_failures(r, n):
    """A view whose local variable or filter cannot be evaluated for a merchant is inapplicable to that merchant — and ONLY that view:
    the other views list exactly what they list when the failing view is deleted from the file."""
    from . import c10
    from tally import section_engine as SE, analyzer
    fails = []
    for _ in range(n):
        bm = c10.by_merchant_of(c10.gen_transactions(r))
        gname = r.choice(['lim', 'big', 'thr'])
        gl = [(gname, r.choice(['100', 'total / 2', 'months * 10']))] + ([('other', 'payments')] if r.random() < 0.4 else [])
        good = [{'name': 'Uses global', 'locals': [], 'filter': f'total > {gname}'}, {'name': 'Plain', 'locals': [], 'filter': 'months >= 1'},
                {'name': 'Also global', 'locals': [('k', f'{gname} * 2')], 'filter': f'total < k or total >= {gname}'}]
        bad = {'name': 'Broken', 'locals': [(r.choice([gname, gname.upper(), 'k', 'other']), r.choice(['total + "s"', 'nosuch + 1', 'max(by(12))', 'payments.x']))],
               'filter': r.choice([f'total > {gname}', 'total > "x"', f'{gname} > 0'])}
        pos = r.randint(0, len(good))
        with_bad = c10.render_views({'globals': gl, 'sections': good[:pos] + [bad] + good[pos:]})
        without = c10.render_views({'globals': gl, 'sections': good})
        try:
            a = analyzer.classify_by_sections(bm, SE.parse_sections(with_bad), 12)
            b = analyzer.classify_by_sections(bm, SE.parse_sections(without), 12)
        except SE.SectionParseError:
            continue
        except Exception as e:      # noqa
            fails.append({'class': 'views-abort', 'exception': type(e).__name__, 'views': with_bad, 'merchants': c10.bm_to_json(bm)})
            break
        va = {k: sorted(n2 for n2, _ in v) for k, v in a.items() if k != 'Broken'}
        vb = {k: sorted(n2 for n2, _ in v) for k, v in b.items()}
        if va != vb:
            fails.append({'class': 'failing-view-affects-other-views', 'views': with_bad, 'merchants': c10.bm_to_json(bm),
                          'observed (other views, failing view present)': va, 'required (failing view deleted)': vb})
            break
    return fails


# Pattern cells of a legacy merchant_categories.csv that the legacy loop hands to the expression evaluator and that cannot be evaluated for
# the item at hand (a column only another source has, wrong types, an unknown name) - their text is, read as a regular expression, valid
# (`(UBER|LYFT) and x`), invalid (an unbalanced parenthesis inside a string literal) or something else again
LEGACY_BAD = ['contains(field.memo, "INV(")', 'field.nope == "x"', 'contains(5)', 'amount > "x"', 'regex("(") and amount > 0', 'contains(field.memo, "a[")',
              'startswith(field.kind, "*X")', 'anyof(field.a, field.b)', 'field.memo == "(" or contains("++")', 'len(amount) > 0', 'nosuchvar and contains("UBER")',
              'contains(description, 5, "(")', 'normalized(field.memo, "?(")', 'fuzzy(field.memo, "[")', 'amount > nosuch(']


def legacy_oracle(r, n):
    """A legacy CSV rule that cannot be evaluated for the item is skipped like any other failing rule: `normalize_merchant` completes and
    answers what it answers for the file without the failing rows (and through parse_generic_csv every row of the statement comes back)."""
    import shutil
    import tempfile
    from tally import merchant_utils as MU, parsers, format_parser
    fails = []
    d = tempfile.mkdtemp(prefix='tvc08l_')
    try:
        for i in range(n):
            txn = GR.gen_txn(r)
            good = GR.gen_csv_rules(r, txn, n=r.choice([1, 2, 3]), expression_like=False)
            bad = [(b, f'Bad{j}', 'BadCat', '', '') for j, b in enumerate(r.sample(LEGACY_BAD, r.choice([1, 2, 3])))]
            rows = list(good)
            for b in bad:
                rows.insert(r.randint(0, len(rows)), b)
            outs = []
            for k, rs in enumerate((rows, good)):
                path = os.path.join(d, f'm{k}.csv')
                with open(path, 'w', encoding='utf-8', newline='') as fh:
                    fh.write(GR.render_csv_rules(rs))
                MU.clear_engine_cache()
                try:
                    rules = MU.get_all_rules(path)
                    t = RC.txn_for_engine(txn)
                    m, c, s_, info = MU.normalize_merchant(t['description'], rules, amount=t.get('amount'), txn_date=t.get('date'), field=copy.deepcopy(t.get('field')),
                                                           data_source=t.get('source'), location=t.get('location'), data_sources=ROWS)
                    outs.append((m, c, s_, sorted((info or {}).get('tags', []))))
                except Exception as e:
                    outs.append(('raised', type(e).__name__, str(e)[:120]))
                finally:
                    MU.clear_engine_cache()
            if outs[0] != outs[1] and not (outs[1][0] == 'raised'):
                fails.append({'class': 'classification-aborts' if outs[0][0] == 'raised' else 'failing-rule-not-inert', 'site': 'legacy csv rules',
                              'csv': GR.render_csv_rules(rows), 'txn': RC.jtxn(txn), 'observed': list(outs[0]), 'required (the failing rows deleted)': list(outs[1])})
                break
    finally:
        shutil.rmtree(d, ignore_errors=True)
    return fails


def cli_oracle(r):
    from . import c17
    bad = r.choice(BAD_MATCH)
    rules_text = f'[Bad]\nmatch: {bad}\ncategory: X\n\n' + c17.CMD_VALID
    bad_view = r.choice(['total > "x"', 'max(sum(by(12))) > 500', 'count(by(5)) > 1', 'sum(period(12)) > 0', 'avg(payments.x) > 1', 'months.lower() == "x"',
                         'stddev(category) > 1', 'by("month") > 3', 'min(tags) > 1', 'total / "2" > 1', 'count(payments, 3) > 1', 'nosuch > 1'])
    views = '[Typed]\nfilter: %s\n\n[Listy]\nfilter: count(by("month")) >= 1\n\n[All]\nfilter: total > 0\n' % bad_view
    rc, out = c17.run_cmd(rules_text, ('up', 'config', '--format', 'json', '-q'), views_text=views)
    if rc != 0 or 'Traceback' in out:
        return [{'class': 'cli-aborts', 'exit': rc, 'output_tail': out[-600:], 'rules': rules_text, 'views': views}]
    try:
        data = json.loads(out[out.index('{'):])
        merchants = data.get('merchants') or data.get('by_merchant') or []
        names = json.dumps(data)
        if 'Netflix' not in names or 'Costco' not in names:
            return [{'class': 'cli-report-incomplete', 'output_head': out[:400], 'rules': rules_text}]
    except Exception:
        return [{'class': 'cli-report-unreadable', 'output_head': out[:400], 'rules': rules_text}]
    return []


def run(ctx):
    lo = common.lean_phase(ctx, 'TallyVerif.Props.C08', regen.regen_expr_tables)
    r = ctx.rng
    prop_fail, corr = [], {}
    # (1) exhaustive operator × type table, raw exception classes
    items = list(evalcorr.table_items(thorough=not ctx.quick))
    n1, dis1, st1 = evalcorr.run_stream(items, root=False)
    ctx.obligation('correspondence:operator×type table (raw exception classes) model-vs-CPython', 'correspondence', not dis1,
                   cases=n1, error=json.dumps(dis1[0], default=str)[:1500] if dis1 else None)
    # (2) random expressions with planted type errors, raw and through the root
    nrand = 1500 if ctx.quick else 60000
    items2 = list(evalcorr.random_items(r, nrand, ill=0.25))
    # a StopIteration raised INSIDE a generator expression reaches its consumer as RuntimeError (PEP 479); inside a list
    # comprehension or at the top it stays StopIteration — all of them are expression errors at the root (D8, D8b)
    pep = ['any(next(x for x in empty) for r in rows)', 'sum(next(x.amount for x in empty) for r in rows)', 'next(x for x in empty)',
           '[next(x for x in empty) for r in rows]', 'next(next(x for x in empty) for r in rows)', 'all(next(x for x in empty) for r in rows)',
           'max(next(x.amount for x in empty) for r in rows)', 'next((next(x for x in empty) for r in rows), 0)',
           'any(next((x for x in empty), false) for r in rows)', 'len([next(x for x in empty) for r in rows]) > 0',
           'any(next(x for x in empty) for r in empty)', 'sum(r.amount for r in rows if next(x for x in empty))']
    items2 = [(e, evalcorr.BASE_TXN, None, evalcorr.ROWS, 'pep479') for e in pep] + items2
    n2, dis2, st2 = evalcorr.run_stream(items2, root=False)
    n3, dis3, st3 = evalcorr.run_stream(items2[: nrand // 2], root=True)
    ctx.obligation('correspondence:random ill-typed expressions (raw + through _eval_Expression)', 'correspondence',
                   not (dis2 or dis3), cases=n2 + n3,
                   error=json.dumps((dis2 + dis3)[0], default=str)[:1500] if (dis2 or dis3) else None)
    # a Python exception that leaves the root is a violation of the property itself
    for text, txn, variables, ds, label in items2[: nrand // 2]:
        o = exprs.impl_eval(text, txn, variables, ds, root=True)
        if o.get('err') == 'py':
            prop_fail.append({'class': 'exception-escapes-expression-root', 'exception': o['cls'], 'expr': text,
                              'txn': RC.jtxn(txn)})
            break
    # every function on wrongly typed arguments, through the root: whatever Python raises inside must come out as an expression error
    nill = 0
    for e in ill_typed_calls(r, 10 ** 6):
        nill += 1
        o = exprs.impl_eval(e, evalcorr.BASE_TXN, None, ROWS, root=True)
        if o.get('err') == 'py':
            prop_fail.append({'class': 'exception-escapes-expression-root', 'exception': o['cls'], 'expr': e, 'txn': RC.jtxn(evalcorr.BASE_TXN)})
            break
    ctx.notes['ill_typed_calls_through_the_root'] = nill
    # (3) ill-typed rule files through the engine: oracle + full-stack correspondence
    nfiles = 400 if ctx.quick else 15000
    full_cases, impls, metas = [], [], []
    replay_items = []
    if ctx.replay:
        ce = json.loads(common.read(ctx.replay)).get('counterexample', {})
        if 'file' in ce:
            replay_items = [(ce['file'], RC.untxn(ce['txn']), ce.get('mode', 'first_match'))]
        elif 'expr' in ce:
            o = exprs.impl_eval(ce['expr'], RC.untxn(ce['txn']), None, evalcorr.ROWS, root=True)
            if o.get('err') == 'py':
                prop_fail.append(dict(ce))
    for i in range(0 if ctx.replay else nfiles):
        txn = GR.gen_txn(r)
        f, failing = plant(r, GR.gen_rules_file(r, txn))
        replay_items.append((f, txn, r.choice(['first_match', 'most_specific'])))
    aborted = 0
    nbatch = 0
    if ctx.replay and ce.get('class') == 'failing-view-affects-other-views':
        from . import c10
        from tally import section_engine as SE, analyzer
        import re as _re
        bm = c10.bm_from_json(ce['merchants'])
        without = _re.sub(r'\n\[Broken\]\n(?:[^\[]*\n)*?(?=\n\[|\Z)', '\n', ce['views'])
        a = analyzer.classify_by_sections(bm, SE.parse_sections(ce['views']), 12)
        b2 = analyzer.classify_by_sections(bm, SE.parse_sections(without), 12)
        va = {k: sorted(n2 for n2, _ in v) for k, v in a.items() if k != 'Broken'}
        vb = {k: sorted(n2 for n2, _ in v) for k, v in b2.items() if k != 'Broken'}
        if va != vb:
            prop_fail.append(dict(ce))
    if ctx.replay and 'sequence' in ce and 'file' in ce:
        from tally import merchant_engine as ME
        text = GR.render_rules(ce['file'])
        eng = ME.parse_merchants(text, ce.get('mode', 'first_match'))
        for tv in ce['sequence']:
            t = RC.txn_for_engine(RC.untxn(tv))
            got = RC.result_summary(eng.match(copy.deepcopy(t), data_sources=ROWS))
            want = RC.result_summary(ME.parse_merchants(text, ce.get('mode', 'first_match')).match(copy.deepcopy(t), data_sources=ROWS))
            if got != want:
                prop_fail.append(dict(ce, observed=got, required=want))
                break
        replay_items = []
    for f, txn, mode in replay_items:
        fails, obs = engine_oracle(f, txn, mode)
        prop_fail.extend(fails)
        if not ctx.replay and not fails:
            nbatch += 1
            prop_fail.extend(batch_oracle(f, txn, mode, r))
        if obs is None:
            aborted += 1
            continue
        eng, t, res = obs
        by_name = {}
        for rr in eng.rules:
            by_name.setdefault(rr.name, rr.line_number)
        impls.append({'matched': res.matched, 'merchant': res.merchant, 'category': res.category, 'subcategory': res.subcategory,
                      'tags': sorted(res.tags), 'matched_rule': res.matched_rule.line_number if res.matched_rule else None,
                      'all_matching': [x.line_number for x in res.all_matching_rules],
                      'extra_fields': [[k, exprs.canon_field(v)] for k, v in res.extra_fields.items()]})
        full_cases.append(dict(exprs.engine_case(eng, t, mode, ROWS)))
        metas.append((f, txn, mode))
    dis4 = []
    fm = exprs.model_eval(full_cases, op='engine')
    n4 = 0
    for mo, im, (f, txn, mode) in zip(fm, impls, metas):
        if mo.get('err') == 'unmodelled':
            continue
        n4 += 1
        diffs = [k for k, v in im.items() if mo.get(k) != v]
        if diffs:
            dis4.append({'differs_in': diffs, 'file': f, 'txn': RC.jtxn(txn), 'mode': mode,
                         'model': {k: mo.get(k) for k in diffs} if 'err' not in mo else mo, 'implementation': {k: im[k] for k in diffs}})
    ctx.obligation('correspondence:ill-typed rule files, MerchantEngine.match-vs-Engine.matchTxn', 'correspondence', not dis4,
                   cases=n4, error=json.dumps(dis4[0], default=str)[:2000] if dis4 else None)
    # (4) through parse_generic_csv and the CLI
    ncsv = 0 if ctx.replay else (24 if ctx.quick else 400)
    for _ in range(ncsv):
        prop_fail.extend(csv_oracle(r))
    if not ctx.replay:
        prop_fail.extend(views_inert_failures(r, 60 if ctx.quick else 2000))
    if not ctx.replay:
        prop_fail.extend(legacy_oracle(r, 60 if ctx.quick else 2500))
    ncli = 0 if ctx.replay else (3 if ctx.quick else 25)
    for _ in range(ncli):
        prop_fail.extend(cli_oracle(r))
    ctx.cov['evaluations'] = n1 + n2 + n3 + len(replay_items) + ncsv + ncli
    ctx.cov['traces_validated_against_impl'] = n1 + n2 + n3 + n4
    ctx.cov['exhaustive'] = True
    ctx.cov['distinct_nontrivial'] = sum(v for k, v in st1['outcomes'].items() if k != 'ok') + \
        sum(v for k, v in st2['outcomes'].items() if k != 'ok') + sum(1 for c in full_cases if any(x['match_ast'] for x in c['rules']))
    ctx.cov['rule'] = ('(1) EXHAUSTIVE table: every binary / comparison / unary operator, builtin and language function applied to '
                       'representatives of every value kind (None, bool, ints, floats incl. nan/inf, strs, date, timedelta, lists, row, rows) — '
                       'raw outcome (value or exception class) of the real evaluator vs the Lean model; (2) random expressions with planted '
                       'type errors, raw and through the expression root; (3) generated rule files with failing match / let / field / tag / '
                       'variable / transform expressions × transactions through MerchantEngine.match (oracle: completes, equals the file with '
                       'failing rules deleted; a run of near-duplicate items — some of which make a rule fail — through ONE engine equals fresh engines; correspondence with the full model); (4) parse_generic_csv and `python -m tally up` with '
                       'ill-typed rules and view filters; views files with a failing view (local variable shadowing a global, ill-typed filter) against the same file without it. Non-trivial = the outcome is an exception class or a rule file containing a failing expression')
    ctx.notes['runs_of_near_duplicate_items_through_one_engine'] = nbatch
    ctx.notes['table_outcomes'] = st1['outcomes']
    ctx.notes['random_outcomes'] = st2['outcomes']
    ctx.notes['unmodelled_skipped'] = {'table': st1['unmodelled'], 'random': st2['unmodelled'], 'why': st1.get('unmodelled_why', {})}
    ctx.sample({'table_cell': items[7][0], 'operands': {k: repr(v) for k, v in items[7][2].items()}})
    if replay_items:
        ctx.sample({'rules': GR.render_rules(replay_items[0][0]), 'txn': RC.jtxn(replay_items[0][1])})

    def search():
        out = []
        for _ in range(3000):
            txn = GR.gen_txn(r)
            f, _ = plant(r, GR.gen_rules_file(r, txn, n=r.choice([2, 3])))
            mode = r.choice(['first_match', 'most_specific'])
            fails, _ = engine_oracle(f, txn, mode)
            out.extend(fails or batch_oracle(f, txn, mode, r))
            if out:
                break
        ctx.cov['evaluations'] += 3000
        return out

    common.conclude(ctx, prop_fail, search=search,
                    required='classification completes for every accepted rules/views file and every item; a failing match / let / field / '
                             'tag / filter makes just that rule, binding, field, tag or view inapplicable; no data source or report is lost')
    return ctx.finish(extra_trusted=[
        'CPython operator semantics on the value kinds of the language are the hand model Model/Val.lean, tied by the exhaustive operator × type table each run',
        'regex / difflib / Unicode case mapping / float printing / round / fmod are oracle parameters answered by CPython itself',
        'escaped generator objects, %-formatting, timedelta arithmetic beyond ±, ints ≥ 2^53 mixed with floats are outside the model (skipped and counted)',
        'view filters are covered by C10; here only that `tally up` survives an ill-typed filter'])
