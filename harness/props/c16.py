"""C16 — explain and discover describe the same classification that up applies.

Proof: Props/C16.lean — explain_eq_up (explain IS classifyRow on the transaction it builds),
discover_eq_unknown / categorised_not_listed / discover_counts (discover = the Unknown transactions
of that classification grouped by raw description, exact counts and totals).
Tie + oracle: the three commands run in fresh processes on the same generated budget
(`up --format json -v`, `discover --format json --limit 0`, `explain "<desc>" --amount a --format json`):
 * discover's list = the Unknown part of up (descriptions, counts, totals);
 * explain(desc, amount) = what up assigns to a budget extended by exactly that transaction;
 * explain(<merchant>) reports the category/subcategory up assigned;
 * the Lean model of explain agrees with the CLI.
"""
import json
import os
import shutil
import subprocess
import sys
import tempfile
from concurrent.futures import ThreadPoolExecutor

from .. import common, exprs
from . import c11

WORDS = ['UBER', 'EATS', 'NETFLIX', 'AMAZON', 'COSTCO', 'LYFT', 'SHELL', 'TARGET', 'ACME', 'PAYROLL']


def gen_rules(r, supp):
    """description / amount based rules only (explain knows nothing but a description and an amount), with the
    shapes the property lists: tag-only rules first, variables, let / field directives, `not …`, `in`, both modes"""
    from ..gen import rules as GR
    variables = {}
    if r.random() < 0.5:
        variables['is_large'] = f'amount > {r.choice([50, 100, 500])}'
    rules = []
    n = r.choice([2, 3, 4, 6])
    for i in range(n):
        w = r.choice(WORDS)
        k = r.random()
        if k < 0.3:
            m = f'contains("{w}")'
        elif k < 0.45:
            m = f'not contains("{w}")' if r.random() < 0.5 else f'not startswith("{w}")'
        elif k < 0.6:
            m = f'"{w.lower()}" in description'
        elif k < 0.72:
            m = f'contains("{w}") and amount {r.choice([">", "<", ">=", "<="])} {r.choice([0, 20, 100])}'
        elif k < 0.82 and variables:
            m = f'is_large and contains("{w}")' if r.random() < 0.5 else 'is_large'
        elif k < 0.9:
            m = f'regex("{w}\\\\s+\\\\S+")'
        else:
            m = f'anyof("{w}", "{r.choice(WORDS)}") or amount == {r.choice([15.99, 100, 2.5])}'
        rule = {'name': f'R{i}{w.title()}', 'match': m}
        tag_only = r.random() < 0.35 or (i == 0 and r.random() < 0.5)
        if not tag_only:
            rule['category'] = r.choice(['Food', 'Transport', 'Shopping', 'Bills', 'Income'])
            if r.random() < 0.5:
                rule['subcategory'] = r.choice(['A', 'B'])
        if tag_only or r.random() < 0.4:
            rule['tags'] = r.sample(['business', 'recurring', 'large', 'x'], r.choice([1, 2]))
        if r.random() < 0.2:
            rule['lets'] = [('big', 'amount > 100')]
            rule['match'] = f'({m}) and (big or amount <= 100)'
        if r.random() < 0.15 and not tag_only:
            rule['fields'] = [('amt2', 'amount * 2')]
        if r.random() < 0.25:
            rule['priority'] = r.choice([10, 60, 100])
        rules.append(rule)
    if supp and r.random() < 0.6:
        rules.insert(r.randint(0, 1), {'name': 'Ordered', 'match': 'any(r.amount == amount for r in orders)', 'category': 'Orders'})
    transforms = []
    if r.random() < 0.3:
        transforms.append(('field.description', 'regex_replace(field.description, "^UBER\\\\s+", "")'))
    return GR.render_rules({'variables': variables, 'transforms': transforms, 'rules': rules})


def gen_budget(r):
    import yaml
    b = c11.gen_budget(r)
    st = yaml.safe_load(b['files']['config/settings.yaml'])
    supp = any(s.get('supplemental') for s in st['data_sources'])
    b['files'].pop('config/merchant_categories.csv', None)
    b['files']['config/merchants.rules'] = gen_rules(r, supp)
    st['merchants_file'] = 'config/merchants.rules'
    b['files']['config/settings.yaml'] = yaml.safe_dump(st, sort_keys=False)
    b['kind'] = 'rules'
    b.pop('expect', None)
    # probes: descriptions that do not occur in the data, with amounts
    b['probes'] = [(f'{r.choice(WORDS)} {r.choice(WORDS)} ZQ{r.randint(10, 99)}', r.choice([5.0, 15.99, 100.0, 250.0, 1200.5, 2.5]))
                   for _ in range(2)]
    return b


def run_cmd(d, args):
    env = dict(os.environ, PYTHONPATH=os.path.join(common.REPO, 'src'), NO_COLOR='1', PYTHONDONTWRITEBYTECODE='1')
    p = subprocess.run([sys.executable, '-m', 'tally'] + args, cwd=d, env=env, stdin=subprocess.DEVNULL,
                       stdout=subprocess.PIPE, stderr=subprocess.PIPE, text=True, timeout=120)
    return p.returncode, p.stdout, p.stderr


def first_json(out):
    idx = [i for i in (out.find('{'), out.find('[')) if i >= 0]
    if not idx:
        return None
    try:
        return json.JSONDecoder().raw_decode(out[min(idx):])[0]
    except Exception:
        return None


def with_probe(budget, desc, amount):
    import yaml
    st = yaml.safe_load(budget['files']['config/settings.yaml'])
    st['data_sources'] = list(st['data_sources']) + [{'name': 'Probe', 'file': 'data/probe.csv', 'format': '{date:%Y-%m-%d},{description},{amount}', 'has_header': False}]
    files = dict(budget['files'])
    files['config/settings.yaml'] = yaml.safe_dump(st, sort_keys=False)
    files['data/probe.csv'] = f'2025-01-15,{desc},{amount}\n'
    return dict(budget, files=files)


def observe(budget):
    """run the three commands (and the probe-extended `up`) on one budget"""
    d = tempfile.mkdtemp(prefix='tvc16_')
    obs = {}
    try:
        c11.write_budget(d, budget)
        rc, out, err = run_cmd(d, ['up', 'config', '--format', 'json', '-v', '-q'])
        obs['up'] = first_json(out) if rc == 0 else None
        rc, out, err = run_cmd(d, ['discover', 'config', '--format', 'json', '--limit', '0'])
        obs['discover_rc'] = rc
        obs['discover'] = first_json(out) if (rc == 0 and '[' in out) else ([] if 'No unknown transactions' in out else None)
        obs['explain'] = []
        for desc, amount in budget['probes']:
            rc, out, err = run_cmd(d, ['explain', desc, 'config', '--amount', str(amount), '--format', 'json'])
            obs['explain'].append(first_json(out))
        obs['explain_merchant'] = {}
        if obs['up']:
            for m in obs['up']['merchants'][:3]:
                rc, out, err = run_cmd(d, ['explain', m['name'], 'config', '--format', 'json'])
                obs['explain_merchant'][m['name']] = first_json(out)
    finally:
        shutil.rmtree(d, ignore_errors=True)
    obs['up_probe'] = []
    for desc, amount in budget['probes']:
        r2 = c11.run_up(with_probe(budget, desc, amount))
        obs['up_probe'].append(r2.get('json'))
    return obs


def find_desc(upj, desc):
    """the merchant entry of `up` whose raw descriptions contain desc"""
    for m in upj['merchants']:
        if desc in (m.get('raw_descriptions') or {}):
            return m
    return None


def oracle(budget, obs):
    fails = []
    up = obs['up']
    if up is None:
        return fails
    # discover = the Unknown part of up
    want = {}
    for m in up['merchants']:
        if m['category'] == 'Unknown':
            for dsc, cnt in (m.get('raw_descriptions') or {}).items():
                want[dsc] = want.get(dsc, 0) + cnt
    got = None if obs['discover'] is None else {e['raw_description']: e['count'] for e in obs['discover']}
    if got is None:
        if want:
            fails.append({'class': 'discover-failed', 'budget': budget, 'exit': obs['discover_rc'], 'unknown_in_up': want})
    elif got != want:
        fails.append({'class': 'discover-differs-from-unknown-of-up', 'budget': budget, 'discover': got, 'unknown_in_up': want})
    # explain(desc, amount) = up on the budget extended by that transaction
    for (desc, amount), ex, upp in zip(budget['probes'], obs['explain'], obs['up_probe']):
        if upp is None:
            continue
        m = find_desc(upp, desc)
        if m is None:
            continue
        if ex is None or 'category' not in ex:
            fails.append({'class': 'explain-no-answer', 'budget': budget, 'description': desc, 'amount': amount, 'observed': ex})
            continue
        got3 = (ex.get('merchant'), ex.get('category'), ex.get('subcategory'))
        want3 = (m['name'], m['category'], m['subcategory'])
        if got3 != want3:
            fails.append({'class': 'explain-differs-from-up', 'budget': budget, 'description': desc, 'amount': amount,
                          'explain': got3, 'up': want3})
        elif ex.get('matched_rule') and m.get('pattern') and ex['matched_rule'].get('pattern') != m['pattern'].get('matched'):
            fails.append({'class': 'explain-reports-another-rule', 'budget': budget, 'description': desc, 'amount': amount,
                          'explain': ex['matched_rule'].get('pattern'), 'up': m['pattern'].get('matched')})
    # explain(<merchant name>) reports up's category
    for name, ex in obs['explain_merchant'].items():
        m = next((x for x in up['merchants'] if x['name'] == name), None)
        if ex is None or m is None:
            continue
        entry = ex
        if isinstance(ex, dict) and 'merchants' in ex:
            entry = next((x for x in ex['merchants'] if x.get('name') == name), None)
        if isinstance(entry, dict) and 'category' in entry and (entry['category'], entry.get('subcategory', '')) != (m['category'], m['subcategory']):
            fails.append({'class': 'explain-merchant-differs-from-up', 'budget': budget, 'merchant': name,
                          'explain': (entry['category'], entry.get('subcategory')), 'up': (m['category'], m['subcategory'])})
    return fails


def model_explain_cases(budget):
    mi = c11.model_input(budget)
    if mi is None:
        return []
    return [{'rulebook': mi['rulebook'], 'supp': mi['supp'], 'description': d, 'amount': common.float_bits(a)} for d, a in budget['probes']]


def run(ctx):
    lo = common.lean_phase(ctx, 'TallyVerif.Props.C16')
    r = ctx.rng
    n = 40 if ctx.quick else 1200
    if ctx.replay:
        ce = json.loads(common.read(ctx.replay)).get('counterexample', {})
        budgets = [ce['budget']] if 'budget' in ce else []
    else:
        budgets = [gen_budget(r) for _ in range(n)]
    with ThreadPoolExecutor(max_workers=16) as ex:
        observations = list(ex.map(observe, budgets))
    prop_fail, corr_fail = [], []
    for b, o in zip(budgets, observations):
        prop_fail.extend(oracle(b, o))
    # model of explain vs the CLI
    mcases, mwant = [], []
    for b, o in zip(budgets, observations):
        try:
            cs = model_explain_cases(b)
        except Exception:
            cs = []
        for c, e in zip(cs, o['explain']):
            if e and 'category' in e:
                mcases.append(c); mwant.append(e)
    nmodel = 0
    if mcases:
        outs = exprs.model_eval(mcases, op='explain')
        for c, mo, e in zip(mcases, outs, mwant):
            if mo.get('err') == 'unmodelled':
                continue
            nmodel += 1
            a = (mo.get('merchant'), mo.get('category'), mo.get('subcategory'))
            b3 = (e.get('merchant'), e.get('category'), e.get('subcategory'))
            if a != b3:
                corr_fail.append({'description': c['description'], 'amount': c['amount'], 'model': a, 'implementation': b3})
    ctx.obligation('correspondence:tally explain "<description>" --amount (fresh process) vs Pipeline.classifyRow', 'correspondence',
                   not corr_fail, cases=nmodel, error=json.dumps(corr_fail[0], default=str)[:1500] if corr_fail else None)
    ctx.cov['evaluations'] = len(budgets) * 6
    ctx.cov['traces_validated_against_impl'] = nmodel
    ctx.cov['distinct_nontrivial'] = sum(1 for o in observations if o['up'] and o['discover'] and len(o['up']['merchants']) >= 2)
    ctx.cov['rule'] = ('generated budgets (as C11) with description/amount based rule files: tag-only rules first, variables, let / field directives, '
                       '`not …`, `in`, regex, both rule modes, a description transform, a rule over supplemental rows; on each: up, discover, '
                       'explain for two descriptions that do not occur in the data (with amounts) and for three merchants, all in fresh processes, '
                       'plus up on the budget extended by each probed transaction. Non-trivial = ≥ 2 merchants and a non-empty Unknown list')
    ctx.notes['budgets_with_unknown'] = sum(1 for o in observations if o['discover'])
    for b in budgets[:2]:
        ctx.sample({'rules': b['files']['config/merchants.rules'][:400], 'probes': b['probes']})

    def search():
        out = []
        for _ in range(60):
            b = gen_budget(r)
            out.extend(oracle(b, observe(b)))
            if out:
                break
        return out

    common.conclude(ctx, prop_fail, search=search,
                    required='explain reports the merchant / category / subcategory / rule that up assigns to such a transaction; discover lists exactly '
                             'the transactions up leaves Unknown, with the same counts')
    return ctx.finish(extra_trusted=[
        'PARTIAL: argparse, printing and explain\'s lookup cascade are exercised, not modelled; explain knows only a description and an amount, so rules over '
        'dates, source or custom fields are outside the description+amount clause (the generator uses description/amount/supplemental conditions)',
        'the component models and their own ties (C05, C04/C08, C01/C02/C09, C11)'])
