"""C16 — explain and discover describe the same classification that up applies.

Proof: Props/C16.lean — explain_eq_up (explain IS classifyRow on the transaction it builds),
discover_eq_unknown / categorised_not_listed / discover_counts (discover = the Unknown transactions
of that classification grouped by raw description, exact counts and totals), discoverG_eq_discover /
discover_row_by_row (the function the driver runs for `tally discover` is that grouping, computed transaction by
transaction), and kernel-checked witnesses of what the classification depends on: the date of the transaction
(classification_depends_on_date, no_sound_memo_without_date) and the rows of a supplemental source named only in a
top-level variable (classification_depends_on_source_named_in_variable).
Tie + oracle: the three commands run in fresh processes on the same generated budget
(`up --format json -v`, `discover --format json --limit 0`, `explain "<desc>" --amount a --format json`,
`explain <every merchant of the report> --format json`):
 * discover's list = the Unknown part of up (descriptions, counts; totals where up's signed sum is comparable);
 * explain(desc, amount) = what up assigns to a budget extended by exactly that transaction;
 * explain(<merchant>) reports the entry up has for it: category / subcategory / matched rule / count / total;
 * the Lean models of explain (Pipeline.classifyRow) and of discover (Pipeline.discoverRows) agree with the CLI.
Two budget streams: (1) description/amount rule files, with a rule over supplemental rows whose source is named in any one
of the places an expression may stand; (2) statements that repeat a line on several dates / in several sources / with
several values of a captured column, under rules that look at exactly those.
"""
import json
import os
import shutil
import subprocess
import sys
import tempfile
from concurrent.futures import ThreadPoolExecutor

from .. import common, exprs
from . import c11

WORDS = ['UBER', 'EATS', 'NETFLIX', 'AMAZON', 'COSTCO', 'LYFT', 'SHELL', 'TARGET', 'ACME', 'PAYROLL']


SUPP_POSITIONS = ['match', 'variable', 'let', 'let-chain', 'tag', 'field', 'variable-negated']


def supp_rule(r, variables, position=None):
    """A rule whose classification needs the rows of the supplemental source `orders`, the source being mentioned in ONE of the
    places the rule language allows an expression: the match expression, a top-level variable, a let binding (directly or through a
    second binding), a dynamic tag, a field directive. Names are resolved case-insensitively by the evaluator, so the spelling varies."""
    src = r.choice(['orders', 'orders', 'Orders', 'ORDERS'])
    q_any = r.choice(['any(r.amount == amount for r in %s)', 'len([r for r in %s if r.amount == amount]) > 0',
                      'next((r.item for r in %s if r.amount == amount), "") != ""']) % src
    q_item = 'next((r.item for r in %s if r.amount == amount), "")' % src
    pos = position or r.choice(SUPP_POSITIONS)
    w = r.choice(WORDS)
    rule = {'name': 'Ordered', 'category': 'Orders', 'supp_position': pos}
    if r.random() < 0.4:
        rule['subcategory'] = 'Verified'
    if pos == 'match':
        rule['match'] = q_any if r.random() < 0.6 else f'contains("{w}") and {q_any}'
    elif pos in ('variable', 'variable-negated'):
        variables['has_order'] = q_any
        if pos == 'variable':
            rule['match'] = r.choice(['has_order', f'contains("{w}") and has_order', f'has_order and amount > 0'])
        else:
            rule['match'] = f'not has_order and contains("{w}")'
    elif pos == 'let':
        rule['lets'] = [('hit', q_any)]
        rule['match'] = r.choice(['hit', f'hit and amount > 0'])
    elif pos == 'let-chain':
        rule['lets'] = [('item', q_item), ('hit', 'item != ""')]
        rule['match'] = 'hit'
    elif pos == 'tag':
        # classification does not need the rows, the tag does
        rule['match'] = f'amount == {r.choice([15.99, 100, 2.5])} or contains("{w}")'
        rule['tags'] = ['{%s}' % q_item]
    else:
        rule['match'] = f'amount == {r.choice([15.99, 100, 2.5])} or contains("{w}")'
        rule['fields'] = [('item', q_item)]
    return rule


def gen_rules(r, supp):
    """description / amount based rules only (explain knows nothing but a description and an amount), with the
    shapes the property lists: tag-only rules first, variables, let / field directives, `not …`, `in`, both modes"""
    from ..gen import rules as GR
    variables = {}
    if r.random() < 0.5:
        variables['is_large'] = f'amount > {r.choice([50, 100, 500])}'
    rules = []
    n = r.choice([2, 3, 4, 6])
    for i in range(n):
        w = r.choice(WORDS)
        k = r.random()
        if k < 0.3:
            m = f'contains("{w}")'
        elif k < 0.45:
            m = f'not contains("{w}")' if r.random() < 0.5 else f'not startswith("{w}")'
        elif k < 0.6:
            m = f'"{w.lower()}" in description'
        elif k < 0.72:
            m = f'contains("{w}") and amount {r.choice([">", "<", ">=", "<="])} {r.choice([0, 20, 100])}'
        elif k < 0.82 and variables:
            m = f'is_large and contains("{w}")' if r.random() < 0.5 else 'is_large'
        elif k < 0.9:
            m = f'regex("{w}\\\\s+\\\\S+")'
        else:
            m = f'anyof("{w}", "{r.choice(WORDS)}") or amount == {r.choice([15.99, 100, 2.5])}'
        rule = {'name': f'R{i}{w.title()}', 'match': m}
        tag_only = r.random() < 0.35 or (i == 0 and r.random() < 0.5)
        if not tag_only:
            rule['category'] = r.choice(['Food', 'Transport', 'Shopping', 'Bills', 'Income'])
            if r.random() < 0.5:
                rule['subcategory'] = r.choice(['A', 'B'])
        if tag_only or r.random() < 0.4:
            rule['tags'] = r.sample(['business', 'recurring', 'large', 'x'], r.choice([1, 2]))
        if r.random() < 0.2:
            rule['lets'] = [('big', 'amount > 100')]
            rule['match'] = f'({m}) and (big or amount <= 100)'
        if r.random() < 0.15 and not tag_only:
            rule['fields'] = [('amt2', 'amount * 2')]
        if r.random() < 0.25:
            rule['priority'] = r.choice([10, 60, 100])
        rules.append(rule)
    shape = {'stream': 'description+amount', 'supp_position': None}
    if supp and r.random() < 0.75:
        sr = supp_rule(r, variables)
        shape['supp_position'] = sr['supp_position']
        rules.insert(r.randint(0, min(1, len(rules))), sr)
    transforms = []
    if r.random() < 0.3:
        transforms.append(('field.description', 'regex_replace(field.description, "^UBER\\\\s+", "")'))
    return GR.render_rules({'variables': variables, 'transforms': transforms, 'rules': rules}), shape


ORDERS_SOURCE = {'name': 'orders', 'file': 'data/orders.csv', 'format': '{date:%Y-%m-%d},{item},{amount}',
                 'columns': {'description': '{item}'}, 'supplemental': True}
ORDERS_CSV = 'date,item,amount\n2025-01-05,Book,15.99\n2025-01-06,Pen,100.00\n2025-02-01,Ink,2.50\n'


def gen_budget(r):
    import yaml
    b = c11.gen_budget(r)
    st = yaml.safe_load(b['files']['config/settings.yaml'])
    supp = any(s.get('supplemental') for s in st['data_sources'])
    if not supp and r.random() < 0.35:
        st['data_sources'].insert(r.randint(0, len(st['data_sources'])), dict(ORDERS_SOURCE, name=r.choice(['orders', 'Orders'])))
        b['files']['data/orders.csv'] = ORDERS_CSV
        supp = True
    b['files'].pop('config/merchant_categories.csv', None)
    b['files']['config/merchants.rules'], b['shape'] = gen_rules(r, supp)
    st['merchants_file'] = 'config/merchants.rules'
    b['files']['config/settings.yaml'] = yaml.safe_dump(st, sort_keys=False)
    b['kind'] = 'rules'
    b.pop('expect', None)
    # probes: descriptions that do not occur in the data, with amounts
    b['probes'] = [(f'{r.choice(WORDS)} {r.choice(WORDS)} ZQ{r.randint(10, 99)}', r.choice([5.0, 15.99, 100.0, 250.0, 1200.5, 2.5]))
                   for _ in range(2)]
    return b


# ---- second stream: statements that REPEAT a line, rules that look at more than the description and the amount --------------------
# `up`, `discover` and `explain <merchant>` classify parsed transactions: a transaction is a description, an amount, a date, the
# source it came from, its location and the extra columns captured by the format string. Rules may look at any of them
# (month / year / day / weekday / date comparisons, source, field.<name>, location), so the same statement line on two dates, in two
# sources or with two values of a captured column can be classified differently.

LINES = [('CITY PARKING GARAGE 12', 1200), ('FITCLUB MONTHLY', 4000), ('CORNER BAKERY', 750), ('UBER TRIP', 2350),
         ('NETFLIX.COM', 1599), ('ACME PAYROLL', 200000), ('SHELL OIL 0042', 5120), ('TRADER JOES #5', 8365)]
LINE_WORDS = ['PARKING', 'FITCLUB', 'BAKERY', 'UBER', 'NETFLIX', 'PAYROLL', 'SHELL', 'TRADER']
TYPES = ['ACH', 'card', 'WIRE']
PLACES = ['WA', 'CA']


def split_atoms(occ_a, occ_b):
    """(condition text, what the generator expects it to say of an occurrence) for conditions over date / source / captured column /
    location that are true of occurrence a. The expectation is used only to prefer conditions that separate two occurrences of one
    line; it is never an oracle."""
    import datetime
    da = occ_a['date']
    iso = lambda o: o['date'].isoformat()
    nxt, prv = (da + datetime.timedelta(days=1)).isoformat(), (da - datetime.timedelta(days=1)).isoformat()
    m2 = (da.month % 12) + 1
    out = [(f'weekday == {da.weekday()}', lambda o: o['date'].weekday() == da.weekday()),
           (f'month == {da.month}', lambda o: o['date'].month == da.month),
           (f'day == {da.day}', lambda o: o['date'].day == da.day),
           (f'date == "{da.isoformat()}"', lambda o: iso(o) == da.isoformat()),
           (('weekday >= 5', lambda o: o['date'].weekday() >= 5) if da.weekday() >= 5 else ('weekday < 5', lambda o: o['date'].weekday() < 5)),
           (f'(month == {da.month} or month == {m2})', lambda o: o['date'].month in (da.month, m2)),
           (f'day <= {da.day}', lambda o: o['date'].day <= da.day),
           (f'day >= {da.day}', lambda o: o['date'].day >= da.day),
           (f'year == {da.year}', lambda o: o['date'].year == da.year),
           (f'date <= "{da.isoformat()}"', lambda o: iso(o) <= da.isoformat()),
           (f'date >= "{da.isoformat()}"', lambda o: iso(o) >= da.isoformat()),
           (f'date < "{nxt}"', lambda o: iso(o) < nxt),
           (f'date > "{prv}"', lambda o: iso(o) > prv),
           (f'source == "{occ_a["source"]}"', lambda o: o['source'] == occ_a['source']),
           (f'source != "{occ_b["source"]}"', lambda o: o['source'] != occ_b['source']),
           (f'txn.source == "{occ_a["source"]}"', lambda o: o['source'] == occ_a['source']),
           (f'txn.month == {da.month}', lambda o: o['date'].month == da.month)]
    ca = occ_a['cents']
    out += [(f'amount == {ca / 100!r}', lambda o: o['cents'] == ca), (f'amount <= {ca / 100!r}', lambda o: o['cents'] <= ca),
            (f'amount > {(ca - 50) / 100!r}', lambda o: o['cents'] > ca - 50)]
    if occ_a.get('type') is not None:
        ta = occ_a['type']
        out += [(f'field.type == "{ta}"', lambda o: (o.get('type') or '').lower() == ta.lower()),
                (f'contains(field.type, "{ta}")', lambda o: ta.upper() in (o.get('type') or '').upper())]
    if occ_a.get('location') is not None:
        la = occ_a['location']
        out += [(f'txn.location == "{la}"', lambda o: (o.get('location') or '') == la),
                (f'field.location == "{la}"', lambda o: (o.get('location') or '') == la)]
    return out


VARIABLE_DEFS = {'is_weekend': ('weekday >= 5', lambda o: o['date'].weekday() >= 5), 'is_q1': ('month <= 3', lambda o: o['date'].month <= 3)}


def gen_repeating_budget(r):
    import datetime
    import yaml
    year = 2025
    nsrc = r.choice([1, 2, 2, 3])
    lines = r.sample(LINES, r.choice([2, 3, 4]))
    sources, files, occs = [], {}, []
    layout = None
    for i in range(nsrc):
        datefmt = r.choice(['%Y-%m-%d', '%m/%d/%Y'])
        cols = ['date', 'description', 'amount']
        with_type, with_loc = (r.random() < 0.45, r.random() < 0.4) if (layout is None or r.random() < 0.3) else layout
        layout = (with_type, with_loc)
        if with_type:
            cols.append('type')
        if with_loc:
            cols.append('location')
        if r.random() < 0.3:
            cols.insert(r.randint(0, len(cols)), '_')
        src = {'name': f'Src{i}', 'file': f'data/s{i}.csv',
               'format': ','.join('{date:%s}' % datefmt if c == 'date' else '{%s}' % c for c in cols)}
        header = r.random() < 0.6
        if not header or r.random() < 0.3:
            src['has_header'] = header
        rows = []
        for desc, cents in lines:
            if r.random() < 0.15:
                continue
            # the same line (same text, same amount) two to four times: on other dates (weekend and weekday, two months, first and second
            # half), or as a TWIN of an earlier occurrence — same date, but in another source / with another value of the captured column,
            # another location or (rarely) another amount — so that each attribute of a transaction is, somewhere, the only difference
            for _ in range(r.choice([2, 2, 3, 4])):
                earlier = [o for o in occs + rows if o['description'] == desc]
                typ, loc = (r.choice(TYPES) if with_type else None), (r.choice(PLACES) if with_loc else None)
                if earlier and r.random() < 0.4:
                    tw = r.choice(earlier)
                    d, amt = tw['date'], tw['cents']
                    typ = tw['type'] if (with_type and tw['type'] is not None) else typ
                    loc = tw['location'] if (with_loc and tw['location'] is not None) else loc
                    if tw['source'] == src['name'] or r.random() < 0.3:
                        vary = r.choice((['type'] if with_type else []) + (['location'] if with_loc else []) + ['amount'])
                        if vary == 'type':
                            typ = r.choice([t for t in TYPES if t != typ])
                        elif vary == 'location':
                            loc = r.choice([p for p in PLACES if p != loc])
                        else:
                            amt = amt + r.choice([100, 5000])
                else:
                    d = datetime.date(year, r.choice([1, 1, 2, 3, 12]), r.randint(1, 28))
                    amt = cents if r.random() < 0.85 else cents + r.choice([100, 5000])
                occ = {'source': src['name'], 'description': desc, 'cents': amt, 'date': d, 'type': typ, 'location': loc}
                rows.append(occ)
        if r.random() < 0.5:
            rows.append({'source': src['name'], 'description': f'ONE OFF SHOP {r.randint(10, 99)}', 'cents': r.choice([999, 12345]),
                         'date': datetime.date(year, r.randint(1, 12), r.randint(1, 28)),
                         'type': r.choice(TYPES) if with_type else None, 'location': r.choice(PLACES) if with_loc else None})
        r.shuffle(rows)
        text = []
        if header:
            text.append(','.join(c.upper() for c in cols))
        for o in rows:
            cell = {'date': o['date'].strftime(datefmt), 'description': o['description'], 'amount': '%d.%02d' % divmod(o['cents'], 100),
                    'type': o['type'] or '', 'location': o['location'] or '', '_': r.choice(['x', '', '77'])}
            text.append(','.join(cell[c] for c in cols))
        files[src['file']] = '\n'.join(text) + '\n'
        sources.append(src)
        occs.extend(rows)
    if not occs:
        return gen_repeating_budget(r)        # every line was skipped and no one-off row drawn (≈ 1 in 500): nothing to write rules about
    supp = r.random() < 0.3
    if supp:
        sources.insert(r.randint(0, len(sources)), dict(ORDERS_SOURCE))
        files['data/orders.csv'] = ORDERS_CSV
    # rules: (word of a repeated line) combined with a condition that separates two of its occurrences
    variables = {}
    if r.random() < 0.4:
        variables['is_weekend'] = VARIABLE_DEFS['is_weekend'][0]
    if r.random() < 0.3:
        variables['is_q1'] = VARIABLE_DEFS['is_q1'][0]
    rules = []
    kinds = set()
    by_line = {}
    for o in occs:
        by_line.setdefault(o['description'], []).append(o)
    repeated = [v for v in by_line.values() if len(v) >= 2]
    twins = [(x, y) for v in repeated for x in v for y in v if x is not y and x['date'] == y['date']
             and any(x[k] != y[k] for k in ('source', 'type', 'location', 'cents'))]
    for i in range(r.choice([2, 3, 4, 5])):
        if twins and r.random() < 0.4:
            a, b = r.choice(twins)
        elif repeated and r.random() < 0.85:
            group = r.choice(repeated)
            a, b = r.sample(group, 2)
        else:
            a, b = (r.sample(occs, 2) if len(occs) >= 2 else (occs[0], occs[0]))
        atoms = split_atoms(a, b) + [(v, VARIABLE_DEFS[v][1]) for v in variables if v in VARIABLE_DEFS]
        separating = [x for x in atoms if x[1](a) != x[1](b)]
        atom = (r.choice(separating) if (separating and r.random() < 0.75) else r.choice(atoms))[0]
        kinds.add('location' if 'location' in atom else 'field' if 'field.' in atom else atom.lstrip('(').split(' ')[0].replace('txn.', ''))
        word = next((w for w in LINE_WORDS if w in a['description']), 'SHOP')
        k = r.random()
        if k < 0.55:
            m = f'contains("{word}") and {atom}'
        elif k < 0.7:
            m = f'contains("{word}") and not ({atom})'
        elif k < 0.85:
            m = atom
        else:
            m = f'({atom} or amount > {r.choice([100, 1000])}) and contains("{word}")'
        rule = {'name': f'D{i}{word.title()}', 'match': m}
        tag_only = r.random() < 0.2
        if not tag_only:
            rule['category'] = r.choice(['Food', 'Transport', 'Shopping', 'Bills', 'Income'])
            if r.random() < 0.5:
                rule['subcategory'] = r.choice(['A', 'B'])
        if tag_only or r.random() < 0.3:
            rule['tags'] = r.sample(['business', 'recurring', 'x'], r.choice([1, 2]))
        if r.random() < 0.2:
            rule['lets'] = [('late', 'day > 15')]
            rule['match'] = f'({m}) and (late or day <= 15)' if r.random() < 0.5 else f'{m} and late'
        if r.random() < 0.25:
            rule['priority'] = r.choice([10, 60, 100])
        rules.append(rule)
    same_day = {}
    for o in occs:
        same_day.setdefault((o['description'], o['date']), []).append(o)
    shape = {'stream': 'repeated-lines', 'supp_position': None, 'condition_kinds': sorted(kinds),
             'repeated_lines': len({(o['description'], o['cents']) for o in occs
                                    if sum(1 for x in occs if (x['description'], x['cents']) == (o['description'], o['cents'])) >= 2}),
             'same_day_twins': sum(1 for v in same_day.values() if len(v) >= 2)}
    if supp and r.random() < 0.8:
        sr = supp_rule(r, variables)
        shape['supp_position'] = sr['supp_position']
        rules.insert(r.randint(0, len(rules)), sr)
    from ..gen import rules as GR
    files['config/merchants.rules'] = GR.render_rules({'variables': variables, 'transforms': [], 'rules': rules})
    settings = {'year': year, 'data_sources': sources, 'merchants_file': 'config/merchants.rules'}
    mode = r.choice(['first_match', 'first_match', 'most_specific'])
    if mode != 'first_match' or r.random() < 0.2:
        settings['rule_mode'] = mode
    files['config/settings.yaml'] = yaml.safe_dump(settings, sort_keys=False)
    probes = [(f'{r.choice(LINE_WORDS)} {r.choice(WORDS)} ZQ{r.randint(10, 99)}', r.choice([12.0, 15.99, 100.0, 40.0, 2.5])) for _ in range(2)]
    # explain "<description>" --amount knows no date / source / column: its agreement with `up` is only claimed for rule files that do
    # not look at them (first stream); here the probes feed the model correspondence only
    return {'files': files, 'kind': 'rules', 'probes': probes, 'shape': shape, 'probe_oracle': False}


# ---- third stream: the bank's own SPELLING of a line ------------------------------------------------------------------------------
# A statement export pads its columns and decorates its lines: runs of blanks, a tab, a no-break space between the words, `*` / `#` /
# `.` at either end, a store number behind, any capitalisation. The parsers hand the cell to the rules as it is (only the blanks AROUND
# the cell are dropped), so a rule may depend on exactly that spelling — `contains("AUTOPAY  PMT")` copied from the export,
# `regex("ACH\s{2,}DEBIT")`, `regex("\*$")` — and equally may only match when the spelling is regular (`contains("AUTOPAY PMT")`,
# `regex("ACH\sDEBIT")`, `split(" ", 1) == "DEBIT"`). Every command has to evaluate the rules on that same text: a command that first
# tidies the description (collapses blanks, strips decoration, trims a store number …) classifies such a line differently.

SPELL_BASES = [['CHASE', 'AUTOPAY', 'PMT'], ['ACH', 'DEBIT', 'SVC', 'CHG'], ['SQ', '*CORNER', 'BAKERY'], ['TST*', 'BLUE', 'BOTTLE'],
               ['POS', 'PURCHASE', 'WHOLEFDS'], ['CHECKCARD', '0412', 'SHELL', 'OIL'], ['AMZN', 'MKTP', 'US*2K4'],
               ['PAYPAL', '*SPOTIFY', 'AB'], ['CAFÉ', 'ROUGE', 'PARIS'], ['UBER', 'TRIP', 'HELP.UBER.COM'], ['WIRE', 'TRANSFER', 'FEE'],
               ['ATM', 'WITHDRAWAL', '004821']]
GAPS = [' ', '  ', '  ', '   ', '      ', '\t', ' \t', '\u00a0', ' \u00a0 ']
HEADS = ['', '', '', '', '*', '#', '.', '* ', '#  ', '(']
TAILS = ['', '', '', '', '*', ' *', '.', '...', ' #1234', '  #77', ' -', ')', ' 00412']
SPELL_CATEGORIES = ['Bills', 'Fees', 'Food', 'Shopping', 'Transport', 'Cash']


def spell(r, base, tag=None, regular=False):
    """one spelling of the words of `base` (with `tag` as an extra word somewhere behind the first): capitalisation, the gap after each
    word, decoration in front and behind. Never blank at either end (a parsed cell is stripped), no comma, no quote."""
    toks = list(base)
    if tag:
        toks.insert(r.randint(1, len(toks)), tag)
    case = r.choice(['upper', 'upper', 'upper', 'title', 'lower', 'mixed'])
    if case == 'title':
        toks = [t.title() for t in toks]
    elif case == 'lower':
        toks = [t.lower() for t in toks]
    elif case == 'mixed':
        toks = [r.choice([t, t.lower(), t.title()]) for t in toks]
    gaps = [' ' if (regular or r.random() < 0.35) else r.choice(GAPS) for _ in toks[:-1]]
    head, tail = ('', '') if regular else (r.choice(HEADS), r.choice(TAILS))
    text = head + ''.join(t + g for t, g in zip(toks, gaps + ['']))+ tail
    return {'text': text, 'toks': toks, 'gaps': gaps, 'head': head, 'tail': tail}


def str_lit(s):
    """s as a string literal of the rule language (a Python literal): backslash, quote, tab escaped; everything else as it is"""
    return '"' + s.replace('\\', '\\\\').replace('"', '\\"').replace('\t', '\\t') + '"'


def rx_lit(pattern):
    return str_lit(pattern)


def rx(s):
    import re
    return re.escape(s)


def spelling_atoms(r, sp):
    """(kind, condition) for conditions that depend on HOW the line `sp` is spelled, all written out from the line itself: true of the
    line because of an irregularity it has, or true of it only because it is regular there. Kinds name what the condition looks at."""
    import re
    toks, gaps = sp['toks'], sp['gaps']
    i = r.randrange(len(gaps))
    a, g, b = toks[i], gaps[i], toks[i + 1]
    up_to = sp['head'] + ''.join(t + x for t, x in zip(toks[:i + 1], gaps[:i + 1]))
    out = [('gap-literal', f'contains({str_lit(a + g + b)})'),
           ('gap-literal', f'{str_lit((a + g + b).lower())} in description'),
           ('gap-literal', f'startswith({str_lit(up_to + b)})'),
           ('whole-line', f'description == {str_lit(sp["text"])}'),
           ('single-blank-literal', f'contains({str_lit(a + " " + b)})'),
           ('single-blank-literal', f'anyof({str_lit(a + " " + b)}, "ZZNEVER")'),
           ('word-position', f'split(" ", {i + 1}) == {str_lit(b)}'),
           ('word-position', f'split(" ", {i}) == {str_lit(a)}')]
    family = [rx(a) + r'\s{2,}' + rx(b), rx(a) + r'\s' + rx(b), rx(a) + ' {2}' + rx(b), rx(a) + ' {3,}' + rx(b), rx(a) + r'\t' + rx(b),
              rx(a) + '[ ]' + rx(b), rx(a) + r'\s\s+' + rx(b), rx(a) + r'[^\S ]+' + rx(b), rx(a) + r'\S*\s\S', r'^\S+\s{2,}', r'\s{3}', r'\s\s']
    hits = [p for p in family if re.search(p, sp['text'], re.IGNORECASE)]
    out += [('gap-regex', f'regex({rx_lit(p)})') for p in (hits or family)[:3] + [r.choice(family)]]
    if sp['head']:
        out += [('decoration', f'startswith({str_lit(sp["head"])})'), ('decoration', f'regex({rx_lit("^" + rx(sp["head"]))})')]
    if sp['tail']:
        out += [('decoration', f'regex({rx_lit(rx(sp["tail"]) + "$")})'), ('decoration', f'contains({str_lit(sp["tail"] if sp["tail"].strip() != sp["tail"] else toks[-1] + sp["tail"])})')]
    edge = r.choice([r'^\W', r'\W$', r'^[A-Za-z]', r'[A-Za-z]$', r'#\d+$', r'\d$'])
    out += [('decoration', f'regex({rx_lit(edge)})')]
    return out


def gen_spelling_budget(r):
    import yaml
    year = 2025
    bases = r.sample(SPELL_BASES, r.choice([2, 3, 3, 4]))
    # statement lines: each merchant two to four times, spelled differently (sometimes regularly), sometimes twice the same way
    lines = []
    for base in bases:
        cents = r.choice([999, 1599, 4200, 12000, 7, 250075])
        for _ in range(r.choice([2, 2, 3, 4])):
            sp = spell(r, base, regular=r.random() < 0.25) if (not lines or r.random() < 0.85) else dict(r.choice(lines)['sp'])
            lines.append({'sp': sp, 'base': base, 'cents': cents if r.random() < 0.7 else cents + r.choice([100, 5000])})
    nsrc = r.choice([1, 1, 2])
    sources, files = [], {}
    r.shuffle(lines)
    for i in range(nsrc):
        mine = lines[i::nsrc]
        cols = ['date', 'description', 'amount']
        if r.random() < 0.3:
            cols.insert(r.randint(0, 3), '_')
        src = {'name': f'Bank{i}', 'file': f'data/b{i}.csv', 'format': ','.join('{date:%Y-%m-%d}' if c == 'date' else '{%s}' % c for c in cols)}
        header = r.random() < 0.6
        if not header or r.random() < 0.3:
            src['has_header'] = header
        text = [','.join(c.title() for c in cols)] if header else []
        for ln in mine:
            # the export pads the cell; the blanks around a cell are not part of the description
            pad_l, pad_r = r.choice(['', '', ' ', '   ']), r.choice(['', '', ' ', '    ', '\t'])
            cell = {'date': '%d-%02d-%02d' % (year, r.randint(1, 12), r.randint(1, 28)), 'description': pad_l + ln['sp']['text'] + pad_r,
                    'amount': '%d.%02d' % divmod(ln['cents'], 100), '_': r.choice(['x', '', '77'])}
            text.append(','.join(cell[c] for c in cols))
        files[src['file']] = '\n'.join(text) + '\n'
        sources.append(src)
    # probes: lines that are NOT in the statements (an extra word makes them unique) but are spelled the way the export spells
    probes, probe_sps = [], []
    for _ in range(2):
        sp = spell(r, r.choice(bases), tag=f'ZQ{r.randint(10, 99)}', regular=r.random() < 0.15)
        probe_sps.append(sp)
        probes.append((sp['text'], r.choice([5.0, 15.99, 42.0, 120.0, 2500.75])))
    # rules: conditions written out from a probe or a statement line that depend on its spelling, BEFORE the rules that only need a word
    rules, kinds = [], {}
    for i in range(r.choice([2, 3, 3, 4])):
        target = r.choice(probe_sps) if r.random() < 0.6 else r.choice(lines)['sp']
        atoms = spelling_atoms(r, target)
        kind, atom = r.choice(atoms)
        kinds[kind] = kinds.get(kind, 0) + 1
        k = r.random()
        word = r.choice([t for t in target['toks'] if not t.upper().startswith('ZQ')])
        if k < 0.6:
            m = atom
        elif k < 0.75:
            m = f'{atom} and amount {r.choice(["<", ">="])} {r.choice([50, 1000])}'
        elif k < 0.88:
            m = f'contains({str_lit(word)}) and not ({atom})'
        else:
            m = f'({atom}) or amount == 2.5'
        rule = {'name': f'S{i} {kind}', 'match': m}
        tag_only = r.random() < 0.15
        if not tag_only:
            rule['category'] = r.choice(SPELL_CATEGORIES)
            if r.random() < 0.5:
                rule['subcategory'] = r.choice(['A', 'B'])
        if tag_only or r.random() < 0.25:
            rule['tags'] = r.sample(['business', 'recurring', 'x'], r.choice([1, 2]))
        if r.random() < 0.15:
            rule['lets'] = [('spelled', atom)]
            rule['match'] = r.choice(['spelled', f'spelled and contains({str_lit(word)})'])
        if r.random() < 0.2:
            rule['priority'] = r.choice([10, 60, 100])
        rules.append(rule)
    for j, base in enumerate(bases):
        if r.random() < 0.6:
            w = r.choice(base)
            m = r.choice([f'contains({str_lit(w)})', f'normalized({str_lit("".join(base[:2]))})', f'regex({rx_lit(rx(w))})', f'{str_lit(w.lower())} in description'])
            rules.append({'name': f'W{j} any spelling', 'match': m, 'category': r.choice(SPELL_CATEGORIES), 'subcategory': 'Other'})
    transforms = []
    tk = r.random()
    if tk < 0.12:
        transforms.append(('field.description', 'regex_replace(field.description, "\\\\s+", " ")'))     # the user's OWN tidying: then for every command
    elif tk < 0.2:
        transforms.append(('field.description', 'regex_replace(field.description, "^[*#.( ]+", "")'))
    elif tk < 0.26:
        transforms.append(('field.description', 'regex_replace(field.description, "\\\\s*#\\\\d+$", "")'))
    from ..gen import rules as GR
    files['config/merchants.rules'] = GR.render_rules({'variables': {}, 'transforms': transforms, 'rules': rules})
    settings = {'year': year, 'data_sources': sources, 'merchants_file': 'config/merchants.rules'}
    mode = r.choice(['first_match', 'first_match', 'most_specific'])
    if mode != 'first_match' or r.random() < 0.2:
        settings['rule_mode'] = mode
    files['config/settings.yaml'] = yaml.safe_dump(settings, sort_keys=False, allow_unicode=True)
    irregular = lambda sp: any(g != ' ' for g in sp['gaps'])
    by_words = {}
    for ln in lines:
        by_words.setdefault(' '.join(t.upper() for t in ln['sp']['toks']), set()).add(ln['sp']['text'])
    shape = {'stream': 'spelling', 'supp_position': None, 'spelling_kinds': kinds, 'transform': bool(transforms),
             'probes_with_irregular_gap': sum(1 for sp in probe_sps if irregular(sp)),
             'probes_with_decoration': sum(1 for sp in probe_sps if sp['head'] or sp['tail']),
             'lines_with_irregular_gap': sum(1 for ln in lines if irregular(ln['sp'])),
             'lines': len(lines),
             'same_words_spelled_differently': sum(1 for v in by_words.values() if len(v) >= 2)}
    return {'files': files, 'kind': 'rules', 'probes': probes, 'shape': shape}


def run_cmd(d, args):
    env = dict(os.environ, PYTHONPATH=os.path.join(common.REPO, 'src'), NO_COLOR='1', PYTHONDONTWRITEBYTECODE='1')
    p = subprocess.run([sys.executable, '-m', 'tally'] + args, cwd=d, env=env, stdin=subprocess.DEVNULL,
                       stdout=subprocess.PIPE, stderr=subprocess.PIPE, text=True, timeout=120)
    return p.returncode, p.stdout, p.stderr


def first_json(out):
    idx = [i for i in (out.find('{'), out.find('[')) if i >= 0]
    if not idx:
        return None
    try:
        return json.JSONDecoder().raw_decode(out[min(idx):])[0]
    except Exception:
        return None


def with_probe(budget, desc, amount):
    import yaml
    st = yaml.safe_load(budget['files']['config/settings.yaml'])
    st['data_sources'] = list(st['data_sources']) + [{'name': 'Probe', 'file': 'data/probe.csv', 'format': '{date:%Y-%m-%d},{description},{amount}', 'has_header': False}]
    files = dict(budget['files'])
    files['config/settings.yaml'] = yaml.safe_dump(st, sort_keys=False)
    files['data/probe.csv'] = f'2025-01-15,{desc},{amount}\n'
    return dict(budget, files=files)


def observe(budget):
    """run the three commands (and the probe-extended `up`) on one budget"""
    d = tempfile.mkdtemp(prefix='tvc16_')
    obs = {}
    try:
        c11.write_budget(d, budget)
        rc, out, err = run_cmd(d, ['up', 'config', '--format', 'json', '-v', '-q'])
        obs['up'] = first_json(out) if rc == 0 else None
        rc, out, err = run_cmd(d, ['discover', 'config', '--format', 'json', '--limit', '0'])
        obs['discover_rc'] = rc
        obs['discover'] = first_json(out) if (rc == 0 and '[' in out) else ([] if 'No unknown transactions' in out else None)
        obs['explain'] = []
        for desc, amount in budget['probes']:
            rc, out, err = run_cmd(d, ['explain', desc, 'config', '--amount', str(amount), '--format', 'json'])
            obs['explain'].append(first_json(out))
            obs.setdefault('explain_suggested', []).append('Did you mean' in err)
        obs['explain_merchant'] = {}
        if obs['up']:
            # every merchant of the report, in one invocation (explain takes several names and prints one JSON document each)
            names = [m['name'] for m in obs['up']['merchants']][:12]
            if names:
                rc, out, err = run_cmd(d, ['explain'] + names + ['config', '--format', 'json'])
                for doc in json_documents(out):
                    if isinstance(doc, dict) and 'name' in doc and doc['name'] in names:
                        obs['explain_merchant'].setdefault(doc['name'], doc)
                obs['explain_merchant_asked'] = names
    finally:
        shutil.rmtree(d, ignore_errors=True)
    obs['up_probe'] = []
    for desc, amount in budget['probes']:
        if budget.get('probe_oracle', True):
            r2 = c11.run_up(with_probe(budget, desc, amount))
            obs['up_probe'].append(r2.get('json'))
        else:
            obs['up_probe'].append(None)
    return obs


def json_documents(out):
    """the JSON documents printed one after the other on stdout (text between them skipped)"""
    dec = json.JSONDecoder()
    docs, i = [], 0
    while True:
        idx = [k for k in (out.find('{', i), out.find('[', i)) if k >= 0]
        if not idx:
            return docs
        try:
            doc, end = dec.raw_decode(out[min(idx):])
            docs.append(doc)
            i = min(idx) + end
        except Exception:
            i = min(idx) + 1


def find_desc(upj, desc):
    """the merchant entry of `up` whose raw descriptions contain desc"""
    for m in upj['merchants']:
        if desc in (m.get('raw_descriptions') or {}):
            return m
    return None


def oracle(budget, obs):
    fails = []
    up = obs['up']
    if up is None:
        return fails
    # discover = the Unknown part of up
    want = {}
    for m in up['merchants']:
        if m['category'] == 'Unknown':
            for dsc, cnt in (m.get('raw_descriptions') or {}).items():
                want[dsc] = want.get(dsc, 0) + cnt
    got = None if obs['discover'] is None else {e['raw_description']: e['count'] for e in obs['discover']}
    if got is None:
        if want:
            fails.append({'class': 'discover-failed', 'budget': budget, 'exit': obs['discover_rc'], 'unknown_in_up': want})
    elif got != want:
        fails.append({'class': 'discover-differs-from-unknown-of-up', 'budget': budget, 'discover': got, 'unknown_in_up': want})
    else:
        # totals: discover adds |amount| per raw description, up adds the signed amounts per merchant; where no amount of an Unknown
        # merchant is negative the two are the same sum over the same transactions
        by_raw = {e['raw_description']: e for e in obs['discover']}
        for m in up['merchants']:
            if m['category'] != 'Unknown':
                continue
            es = [by_raw[dsc] for dsc in (m.get('raw_descriptions') or {})]
            if not es or sum(e['count'] for e in es) != m['count'] or any(e.get('has_negative') for e in es):
                continue
            tot = sum(e['total_spend'] for e in es)
            if abs(tot - m['total']) > 0.005 * (len(es) + 1) + 1e-9:
                fails.append({'class': 'discover-total-differs-from-up', 'budget': budget, 'merchant': m['name'],
                              'discover_total': tot, 'up_total': m['total']})
                break
    # explain(desc, amount) = up on the budget extended by that transaction
    suggested = obs.get('explain_suggested') or [False] * len(budget['probes'])
    for (desc, amount), ex, upp, sugg in zip(budget['probes'], obs['explain'], obs['up_probe'], suggested):
        if upp is None:
            continue
        m = find_desc(upp, desc)
        if m is None:
            continue
        if ex is None and sugg and m['category'] == 'Unknown':
            # no rule matches (as in `up`): instead of the Unknown entry explain lists merchants with a similar NAME ("Did you mean")
            obs['explain_unknown_with_suggestion'] = obs.get('explain_unknown_with_suggestion', 0) + 1
            continue
        if ex is None or 'category' not in ex:
            fails.append({'class': 'explain-no-answer', 'budget': budget, 'description': desc, 'amount': amount, 'observed': ex})
            continue
        got3 = (ex.get('merchant'), ex.get('category'), ex.get('subcategory'))
        want3 = (m['name'], m['category'], m['subcategory'])
        if got3 != want3:
            fails.append({'class': 'explain-differs-from-up', 'budget': budget, 'description': desc, 'amount': amount,
                          'explain': got3, 'up': want3})
        elif ex.get('matched_rule') and m.get('pattern') and ex['matched_rule'].get('pattern') != m['pattern'].get('matched'):
            fails.append({'class': 'explain-reports-another-rule', 'budget': budget, 'description': desc, 'amount': amount,
                          'explain': ex['matched_rule'].get('pattern'), 'up': m['pattern'].get('matched')})
    # explain <merchant> reports the entry `up` has for that merchant: category / subcategory / matching rule, and it is made of the
    # same transactions (count, total)
    for name in obs.get('explain_merchant_asked', []):
        m = next((x for x in up['merchants'] if x['name'] == name), None)
        entry = obs['explain_merchant'].get(name)
        if m is None:
            continue
        if not isinstance(entry, dict) or 'category' not in entry:
            fails.append({'class': 'explain-merchant-no-answer', 'budget': budget, 'merchant': name,
                          'up': (m['category'], m['subcategory'], m['count'])})
            continue
        got = (entry['category'], entry.get('subcategory', ''))
        want2 = (m['category'], m['subcategory'])
        if got != want2:
            fails.append({'class': 'explain-merchant-differs-from-up', 'budget': budget, 'merchant': name, 'explain': got, 'up': want2})
        elif (entry.get('count'), entry.get('total')) != (m['count'], m['total']):
            fails.append({'class': 'explain-merchant-made-of-other-transactions', 'budget': budget, 'merchant': name,
                          'explain': (entry.get('count'), entry.get('total')), 'up': (m['count'], m['total'])})
        elif (entry.get('pattern') or {}).get('matched') != (m.get('pattern') or {}).get('matched'):
            fails.append({'class': 'explain-merchant-reports-another-rule', 'budget': budget, 'merchant': name,
                          'explain': (entry.get('pattern') or {}).get('matched'), 'up': (m.get('pattern') or {}).get('matched')})
    return fails


def model_explain_cases(budget, mi):
    if mi is None:
        return []
    return [{'rulebook': mi['rulebook'], 'supp': mi['supp'], 'description': d, 'amount': common.float_bits(a)} for d, a in budget['probes']]


def discover_view(obs):
    """what `tally discover --format json --limit 0` said: {raw description: (count, total)}; 'no-transactions' when it found none"""
    if obs['discover'] is None:
        return 'no-transactions' if obs['discover_rc'] == 1 else {'exit': obs['discover_rc']}
    return {e['raw_description']: (e['count'], e['total_spend']) for e in obs['discover']}


def model_discover_view(out):
    if 'listed' not in out:
        return {'model_error': out}
    if out['transactions'] == 0:
        return 'no-transactions'
    return {raw: (cnt, round(common.bits_float(tot), 2)) for raw, cnt, tot in out['listed']}


def run(ctx):
    lo = common.lean_phase(ctx, 'TallyVerif.Props.C16')
    r = ctx.rng
    n = 40 if ctx.quick else 1200
    n2 = 24 if ctx.quick else 600
    n3 = 24 if ctx.quick else 600
    if ctx.replay:
        ce = json.loads(common.read(ctx.replay)).get('counterexample', {})
        budgets = [ce['budget']] if 'budget' in ce else []
    else:
        budgets = [gen_budget(r) for _ in range(n)] + [gen_repeating_budget(r) for _ in range(n2)] + [gen_spelling_budget(r) for _ in range(n3)]
    with ThreadPoolExecutor(max_workers=16) as ex:
        observations = list(ex.map(observe, budgets))
    prop_fail, corr_fail = [], []
    for b, o in zip(budgets, observations):
        prop_fail.extend(oracle(b, o))
    # the Lean models of explain and of discover vs the CLI
    minputs = []
    for b in budgets:
        try:
            minputs.append(c11.model_input(b))
        except Exception as e:
            minputs.append(None)
            ctx.notes.setdefault('model_input_errors', []).append(f'{type(e).__name__}: {e}'[:120])
    mcases, mwant = [], []
    for b, o, mi in zip(budgets, observations, minputs):
        for c, e in zip(model_explain_cases(b, mi), o['explain']):
            if e and 'category' in e:
                mcases.append(c); mwant.append(e)
    nmodel = 0
    if mcases:
        outs = exprs.model_eval(mcases, op='explain')
        for c, mo, e in zip(mcases, outs, mwant):
            if mo.get('err') == 'unmodelled':
                continue
            nmodel += 1
            a = (mo.get('merchant'), mo.get('category'), mo.get('subcategory'))
            b3 = (e.get('merchant'), e.get('category'), e.get('subcategory'))
            if a != b3:
                corr_fail.append({'description': c['description'], 'amount': c['amount'], 'model': a, 'implementation': b3})
    dcases = [(i, mi) for i, mi in enumerate(minputs) if mi is not None and observations[i]['up'] is not None]
    disc_fail, ndisc = [], 0
    if dcases:
        c11.fill_csv_oracles([mi for _, mi in dcases])
        for _, mi in dcases:
            for src in mi['sources']:
                src.pop('_fmt', None)
        outs = exprs.model_eval([mi for _, mi in dcases], op='discoverlist')
        for (i, mi), mo in zip(dcases, outs):
            if mo.get('err') == 'unmodelled':
                continue
            ndisc += 1
            mv, iv = model_discover_view(mo), discover_view(observations[i])
            if not c11.close(mv, iv):
                disc_fail.append({'model': mv, 'implementation': iv, 'budget': budgets[i]})
    ctx.obligation('correspondence:tally explain "<description>" --amount (fresh process) vs Pipeline.classifyRow', 'correspondence',
                   not corr_fail, cases=nmodel, error=json.dumps(corr_fail[0], default=str)[:1500] if corr_fail else None)
    ctx.obligation('correspondence:tally discover --format json (fresh process) vs Pipeline.discoverRows', 'correspondence',
                   not disc_fail, cases=ndisc, error=json.dumps(disc_fail[0], default=str)[:2500] if disc_fail else None)
    ctx.cov['evaluations'] = sum(2 + len(b['probes']) * (2 if b.get('probe_oracle', True) else 1) + len(o.get('explain_merchant_asked', []))
                                 for b, o in zip(budgets, observations))
    ctx.cov['traces_validated_against_impl'] = nmodel + ndisc
    ctx.notes['model_traces'] = {'explain': nmodel, 'discover': ndisc}
    ctx.cov['distinct_nontrivial'] = sum(1 for o in observations if o['up'] and o['discover'] and len(o['up']['merchants']) >= 2)
    ctx.cov['rule'] = ('(1) generated budgets (as C11) with description/amount based rule files: tag-only rules first, variables, let / field directives, '
                       '`not …`, `in`, regex, both rule modes, a description transform, and a rule that needs the rows of a supplemental source, the '
                       'source being named in any ONE place the language allows (match expression, top-level variable — also negated —, let binding, '
                       'chained let bindings, dynamic tag, field directive; spelled orders / Orders / ORDERS); '
                       '(2) budgets whose statements REPEAT a line (same text and amount) on 2–4 dates, in several sources, with different values of a '
                       'captured column / location, under rules that look at month / year / day / weekday / date comparisons / source / field.<name> / '
                       'location (directly, negated, through a top-level variable or a let binding), chosen so that they separate two occurrences of '
                       'one line; (3) budgets whose statement lines and probed descriptions are SPELLED the way a bank export spells them — runs of '
                       'blanks, a tab or a no-break space between the words, `*` `#` `.` `(` or a store number at either end, any capitalisation, the '
                       'same words spelled several ways, padded cells — under rules written out from such a line that depend on its spelling '
                       '(the gap as a literal in contains / startswith / in / ==, regex over the gap: \\s{2,} \\s \\t " {2}", word position via '
                       'split, the decoration at either end) or that hold only for the regular spelling (single-blank literal), directly, negated, '
                       'through a let binding, with a spelling-blind rule behind them, in both rule modes, sometimes under the user\'s own tidying '
                       'transform. On each budget: up, discover, explain for two descriptions that do not occur in the data (with amounts) and explain '
                       'for every merchant of the report (≤ 12), all in fresh processes; on (1) and (3) also up on the budget extended by each probed '
                       'transaction. Non-trivial = ≥ 2 merchants and a non-empty Unknown list')
    ctx.notes['budgets_with_unknown'] = sum(1 for o in observations if o['discover'])
    shapes = [b.get('shape') or {} for b in budgets]
    ctx.notes['budgets_by_stream'] = {k: sum(1 for sh in shapes if sh.get('stream') == k) for k in ('description+amount', 'repeated-lines', 'spelling')}
    # third stream: what the spelling-dependent conditions look at, how irregular the probed descriptions / statement lines are, and how often
    # such a condition was DECISIVE in `up` (the probed transaction is classified by a rule written from a spelling, resp. left Unknown
    # although a rule names its words)
    sp_kinds, sp = {}, {'budgets': 0, 'with_transform': 0, 'probes': 0, 'probes_with_irregular_gap': 0, 'probes_with_decoration': 0, 'lines': 0,
                        'lines_with_irregular_gap': 0, 'same_words_spelled_differently': 0, 'probes_classified_by_a_spelling_rule_in_up': 0,
                        'probes_left_unknown_in_up': 0, 'explain_declined_unknown_with_suggestion': 0}
    for b, sh, o in zip(budgets, shapes, observations):
        if sh.get('stream') != 'spelling':
            continue
        sp['budgets'] += 1
        sp['with_transform'] += bool(sh.get('transform'))
        sp['probes'] += len(b['probes'])
        for k in ('probes_with_irregular_gap', 'probes_with_decoration', 'lines', 'lines_with_irregular_gap', 'same_words_spelled_differently'):
            sp[k] += sh.get(k, 0)
        for k, v in (sh.get('spelling_kinds') or {}).items():
            sp_kinds[k] = sp_kinds.get(k, 0) + v
        sp['explain_declined_unknown_with_suggestion'] += o.get('explain_unknown_with_suggestion', 0)
        for (desc, _), upp in zip(b['probes'], o['up_probe']):
            m = find_desc(upp, desc) if upp else None
            if m is not None:
                sp['probes_classified_by_a_spelling_rule_in_up'] += bool(m['category'] != 'Unknown' and m['name'].startswith('S'))
                sp['probes_left_unknown_in_up'] += m['category'] == 'Unknown'
    ctx.notes['spelling_stream'] = sp
    ctx.notes['spelling_conditions_by_kind'] = sp_kinds
    ctx.notes['supplemental_source_named_in'] = {k: sum(1 for sh in shapes if sh.get('supp_position') == k) for k in SUPP_POSITIONS}
    kinds = {}
    for sh in shapes:
        for k in sh.get('condition_kinds', []):
            kinds[k] = kinds.get(k, 0) + 1
    ctx.notes['repeated_line_budgets_by_condition_kind'] = kinds
    # how often the widened classes were actually decisive, measured on `up` alone: a raw description that `up` puts both under
    # Unknown and under a category (only a condition beyond description+amount… or the amount variation can do that)
    split = 0
    for o in observations:
        if not o['up']:
            continue
        unk = {d for m in o['up']['merchants'] if m['category'] == 'Unknown' for d in (m.get('raw_descriptions') or {})}
        cat = {d for m in o['up']['merchants'] if m['category'] != 'Unknown' for d in (m.get('raw_descriptions') or {})}
        split += bool(unk & cat)
    ctx.notes['budgets_where_one_raw_description_is_both_unknown_and_categorised'] = split
    ctx.notes['budgets_where_up_used_the_supplemental_rule'] = sum(
        1 for o in observations if o['up'] and any(m['name'] == 'Ordered' for m in o['up']['merchants']))
    ctx.notes['merchants_explained'] = sum(len(o.get('explain_merchant_asked', [])) for o in observations)
    for b in budgets[:2] + budgets[n:n + 1] + budgets[n + n2:n + n2 + 1]:
        ctx.sample({'rules': b['files']['config/merchants.rules'][:400], 'probes': b['probes'], 'shape': b.get('shape')})

    def search():
        out = []
        for i in range(120):
            b = (gen_budget, gen_repeating_budget, gen_spelling_budget)[i % 3](r)
            out.extend(oracle(b, observe(b)))
            if out:
                break
        return out

    common.conclude(ctx, prop_fail, search=search,
                    required='explain reports the merchant / category / subcategory / rule that up assigns to such a transaction; discover lists exactly '
                             'the transactions up leaves Unknown, with the same counts')
    return ctx.finish(extra_trusted=[
        'PARTIAL: argparse, printing and explain\'s lookup cascade are exercised, not modelled; explain "<description>" --amount knows only a description '
        'and an amount, so its agreement with up is claimed and checked for rule files over description / amount / supplemental rows (stream 1); under '
        'rules over dates, source, location or captured columns (stream 2) discover and explain <merchant> are checked against up, and explain '
        '"<description>" against the model only (transaction without a date)',
        'discover totals are compared with up only for Unknown merchants without negative amounts (up prints signed sums, discover sums |amount|); '
        'all totals are compared with the Lean model of discover',
        'the component models and their own ties (C05, C04/C08, C01/C02/C09, C11)'])
