"""C06 — totals conserve money.

Proof: Props/C06.lean over `Totals.analyze` (hand model of analyze_transactions' loop) on top of the
GENERATED categorize_amount / normalize_amount.  Tie: translator (every run) + correspondence of
`analyze_transactions` against the model on generated transaction lists, bit-for-bit.
Oracle on the implementation alone: one-bucket rule, conservation sums, permutation and partition.

"Contains the special tag" (oracle `spec_bucket`, theorem `one_bucket`): some tag t of the transaction satisfies
`t.lower() == 'income'` (resp. 'investment', 'transfer') — exact membership after lower-casing.  The property text
says "case-insensitively" and nothing about blanks, separators or look-alike characters; where it is silent the
oracle mirrors the unchanged code: no stripping, no prefix / word matching, `str.lower` (not casefold, no Unicode
normalisation).  So ' income', 'income-tax', 'transfer fee', 'incomes', 'reinvestment', 'İncome', 'tranſfer',
'ｉｎｃｏｍｅ' are ORDINARY tags.  The generator produces such near-miss tags systematically (`near_miss`).
"""
import datetime
import json
import math

from .. import common, regen
from ..common import float_bits, bits_float

SPECIAL = ['income', 'transfer', 'investment']
ORD = ['groceries', 'Refund', 'x', 'incomes', 'transfers']
MERCH = ['Shop', 'shop', 'Emp', 'Bank', 'Café', 'A B', '']
CATS = [('Food', 'Grocery'), ('Food', ''), ('Income', 'Salary'), ('Transfers', ''), ('Unknown', 'Unknown')]


def rand_case(r, variant):
    s = r.choice(SPECIAL)
    return r.choice([s, s.upper(), s.capitalize(), s[0] + s[1:].upper()])


# ---- near-miss tags: everything that LOOKS like a special tag but is not one (see module docstring)
SEPS = ['-', ' ', ':', '/', '.', '_', ',', ';', '&', '+', '|', '#', '(', '=', '*', '!', '?', "'", '\t', '\n', '\u00a0', '\u2013', '  ', ' - ']
SUFFIXES = ['tax', 'fee', 'fees', 'other', 'out', 'in', '2024', '1', 'x', 'Ünï', 'income', 'transfer', 'investment']
PREFIXES = ['net', 'gross', 'non', 'no', 'wire', 'my', 'other', '2024', 'x', 'é']
DERIVED = {'income': ['incomes', 'incom', 'ncome', 'incomee', 'incoming', 'incometax', 'myincome', 'in come', 'in-come'],
           'investment': ['investments', 'investmen', 'nvestment', 'reinvestment', 'investmentfee', 'invest', 'investing', 'invest ment'],
           'transfer': ['transfers', 'transfe', 'ransfer', 'transferwise', 'transferred', 'transfer2', 'xtransfer', 'trans fer', 'trans-fer']}
BLANKS = [' ', '  ', '\t', '\n', '\r\n', '\u00a0', '\u2003', '\u200b', '\ufeff', '\x0b']
# one character replaced by something a reader (or a careless normaliser) could take for it
LOOKALIKE = {'i': ['\u0130', '\u0131', '\u0456', '\u00ed', '\uff49', 'l', '1'], 'n': ['\u00f1', '\uff4e', '\u0578'], 'c': ['\u0441', '\u00e7', '\uff43'],
             'o': ['\u043e', '\u03bf', '0', '\u00f6', '\uff4f'], 'm': ['\uff4d', 'rn'], 'e': ['\u0435', '\u00e9', '\uff45', '3'],
             'v': ['\u03bd', '\uff56'], 's': ['\u017f', '\u0455', '\uff53', '5', '$'], 't': ['\u0442', '\uff54', '7'],
             'r': ['\u0433', '\uff52'], 'a': ['\u0430', '\u00e0', '\uff41', '@'], 'f': ['\uff46', '\u017f']}
NEAR_FORMS = ['word+sep+suffix', 'prefix+sep+word', 'blank+word', 'word+blank', 'blank+word+blank', 'derived', 'lookalike',
              'fullwidth', 'combining', 'doubled', 'two-specials-joined']


def near_miss(r):
    """(tag, form): a tag built from a special word (any letter case) that must NOT count as that special tag."""
    w = r.choice(SPECIAL)
    form = r.choice(NEAR_FORMS)

    def cased(x):
        return r.choice([x, x, x.upper(), x.capitalize(), x[:1] + x[1:].upper()])
    if form == 'word+sep+suffix':
        t = cased(w) + r.choice(SEPS) + r.choice(SUFFIXES + [''])
    elif form == 'prefix+sep+word':
        t = r.choice(PREFIXES + ['']) + r.choice(SEPS) + cased(w)
    elif form == 'blank+word':
        t = r.choice(BLANKS) + cased(w)
    elif form == 'word+blank':
        t = cased(w) + r.choice(BLANKS)
    elif form == 'blank+word+blank':
        t = r.choice(BLANKS) + cased(w) + r.choice(BLANKS)
    elif form == 'derived':
        t = cased(r.choice(DERIVED[w]))
    elif form == 'lookalike':
        i = r.randrange(len(w))
        t = cased(w[:i]) + r.choice(LOOKALIKE[w[i]]) + cased(w[i + 1:]) if r.random() < 0.5 else w[:i] + r.choice(LOOKALIKE[w[i]]) + w[i + 1:]
    elif form == 'fullwidth':
        t = ''.join(chr(ord(c) - 0x61 + 0xff41) if r.random() < 0.7 else c for c in w)
        t = t if t != w else chr(ord(w[0]) - 0x61 + 0xff41) + w[1:]
    elif form == 'combining':
        i = r.randrange(1, len(w) + 1)
        t = cased(w[:i]) + r.choice(['\u0301', '\u0307', '\u200d', '\u00ad']) + w[i:]
    elif form == 'doubled':
        t = cased(w) + r.choice(['', ' ', ',']) + cased(w)
    else:
        t = cased(w) + r.choice([',', ' ', '/', '+', ', ']) + cased(r.choice(SPECIAL))
    FORM_COUNT[form] = FORM_COUNT.get(form, 0) + 1
    return t, form


FORM_COUNT = {}


def is_special(tag):
    return tag.lower() in SPECIAL


def gen_tags(r):
    tags = []
    for _ in range(r.choice([0, 0, 1, 1, 2, 3])):
        k = r.random()
        tags.append(rand_case(r, 0) if k < 0.4 else near_miss(r)[0] if k < 0.75 else r.choice(ORD))
    return tags


def gen_txn(r, dyadic):
    k = r.random()
    if k < 0.1:
        a = 0.0
    elif dyadic:
        a = r.randint(-320000, 320000) / 64.0
    else:
        a = round(r.uniform(-3000, 3000), 2)
    tags_kind = r.random()
    if tags_kind < 0.12:   # (tags=None never reaches analyze_transactions: the pipeline always supplies a list)
        tags = 'missing'
    else:
        tags = gen_tags(r)
    c = r.choice(CATS)
    d = datetime.date(r.choice([2024, 2025]), r.randint(1, 12), r.randint(1, 28))
    return {'amount': a, 'tags': tags, 'merchant': r.choice(MERCH), 'category': c[0], 'subcategory': c[1], 'date': d}


def to_impl(t):
    d = {'amount': t['amount'], 'merchant': t['merchant'], 'category': t['category'], 'subcategory': t['subcategory'],
         'date': datetime.datetime(t['date'].year, t['date'].month, t['date'].day), 'description': 'D ' + t['merchant'],
         'source': 'S'}
    if t['tags'] != 'missing':
        d['tags'] = t['tags']
    return d


def to_model(t):
    return {'amount': float_bits(t['amount']), 'tags': None if t['tags'] in (None, 'missing') else t['tags'],
            'merchant': t['merchant'], 'category': t['category'], 'subcategory': t['subcategory'],
            'month': t['date'].strftime('%Y-%m')}


def fb(x):
    return 'nan' if isinstance(x, float) and math.isnan(x) else float_bits(x)


def impl_figures(txns):
    from tally import analyzer
    st = analyzer.analyze_transactions([to_impl(t) for t in txns])
    return {
        'income': fb(st['income_total']), 'spending': fb(st['spending_total']), 'credits': fb(st['credits_total']),
        'transfers_in': fb(st['transfers_in']), 'transfers_out': fb(st['transfers_out']),
        'investment': fb(st['investment_total']), 'count': st['count'], 'total': fb(st['total']),
        'cash_flow': fb(st['cash_flow']), 'transfers_net': fb(st['transfers_net']),
        'total_transactions': fb(st['total_transactions']),
        'by_merchant': [[k, v['count'], fb(v['total'])] for k, v in st['by_merchant'].items()],
        'by_category': [[k[0], k[1], v['count'], fb(v['total'])] for k, v in st['by_category'].items()],
        'by_month': [[k, fb(v)] for k, v in st['by_month'].items()],
    }


def spec_bucket(a, tags):
    tl = {t.lower() for t in (tags or [])} if tags != 'missing' else set()
    if 'income' in tl:
        return 'income'
    if 'investment' in tl:
        return 'investment'
    if 'transfer' in tl:
        return 'transfer_in' if a > 0 else 'transfer_out'
    return 'spending' if a > 0 else 'credits'


def oracle(txns, r):
    """The property, stated on the implementation alone. Amounts must be dyadic (exact float sums)."""
    from tally import analyzer, classification as C
    fails = []
    impl = [to_impl(t) for t in txns]
    st = analyzer.analyze_transactions(impl)
    # one bucket per transaction
    for t in txns:
        tg = [] if t['tags'] == 'missing' else t['tags']
        cat = C.categorize_amount(t['amount'], tg)
        want = {k: 0.0 for k in ('income', 'investment', 'transfer_in', 'transfer_out', 'spending', 'credits')}
        want[spec_bucket(t['amount'], t['tags'])] = abs(t['amount'])
        if cat != want:
            fails.append({'class': 'one-bucket', 'txn': to_model(t), 'observed': cat, 'required': want})
            break
    eff = [C.normalize_amount(t['amount'], [] if t['tags'] == 'missing' else t['tags']) for t in txns]
    grand = sum(eff)
    sums = {'by_merchant': sum(v['total'] for v in st['by_merchant'].values()),
            'by_category': sum(v['total'] for v in st['by_category'].values()),
            'by_month': sum(st['by_month'].values())}
    for k, v in sums.items():
        if v != grand:
            fails.append({'class': 'conservation', 'which': k, 'observed': v, 'required': grand, 'txns': [to_model(t) for t in txns]})
    cnt = {'by_merchant': sum(v['count'] for v in st['by_merchant'].values()),
           'by_category': sum(v['count'] for v in st['by_category'].values()), 'count': st['count']}
    for k, v in cnt.items():
        if v != len(txns):
            fails.append({'class': 'counts', 'which': k, 'observed': v, 'required': len(txns), 'txns': [to_model(t) for t in txns]})
    six = st['income_total'] + st['investment_total'] + st['transfers_in'] + st['transfers_out'] + st['spending_total'] + st['credits_total']
    if six != sum(abs(t['amount']) for t in txns):
        fails.append({'class': 'six-buckets', 'observed': six, 'required': sum(abs(t['amount']) for t in txns), 'txns': [to_model(t) for t in txns]})
    if st['cash_flow'] != st['income_total'] - st['spending_total'] + st['credits_total'] or \
            st['transfers_net'] != st['transfers_in'] - st['transfers_out']:
        fails.append({'class': 'cash-flow-identity', 'txns': [to_model(t) for t in txns]})
    # permutation and partition
    keys = ['income_total', 'spending_total', 'credits_total', 'transfers_in', 'transfers_out', 'investment_total',
            'count', 'cash_flow', 'transfers_net', 'total_transactions']

    def figures(s):
        return ({k: s[k] for k in keys}, {k: (v['count'], v['total']) for k, v in s['by_merchant'].items()},
                {k: (v['count'], v['total']) for k, v in s['by_category'].items()}, dict(s['by_month']))
    perm = list(txns)
    r.shuffle(perm)
    if figures(analyzer.analyze_transactions([to_impl(t) for t in perm])) != figures(st):
        fails.append({'class': 'permutation', 'txns': [to_model(t) for t in txns], 'permuted': [to_model(t) for t in perm]})
    if txns:
        cut = r.randint(0, len(txns))
        s1 = analyzer.analyze_transactions([to_impl(t) for t in txns[:cut]])
        s2 = analyzer.analyze_transactions([to_impl(t) for t in txns[cut:]])
        for k in keys[:7]:
            if s1[k] + s2[k] != st[k]:
                fails.append({'class': 'partition', 'figure': k, 'cut': cut, 'txns': [to_model(t) for t in txns]})
                break
    return fails


def nontrivial(txns):
    buckets = {spec_bucket(t['amount'], t['tags']) for t in txns}
    merchants = [t['merchant'] for t in txns]
    return len(buckets) >= 3 and len(set(merchants)) < len(merchants)


def run(ctx):
    lo = common.lean_phase(ctx, 'TallyVerif.Props.C06', regen.regen_classification)
    n = 600 if ctx.quick else 30000
    r = ctx.rng
    FORM_COUNT.clear()
    # the generator's own ground truth against the oracle's notion of "special": every near-miss is an ordinary tag
    nm = [near_miss(r) for _ in range(1500 if ctx.quick else 30000)]
    nm_bad = [[t, f] for t, f in nm if is_special(t) or spec_bucket(1.0, [t]) != 'spending' or spec_bucket(-1.0, [t]) != 'credits']
    ctx.obligation('harness:near-miss-tags-are-ordinary-under-the-oracle', 'correspondence', not nm_bad,
                   cases=len(nm), error=json.dumps(nm_bad[:3]) if nm_bad else None)
    lists = []
    if ctx.replay:
        rp = json.loads(common.read(ctx.replay))
        # replays carry model-form txns; rebuild generator form
        ce = rp.get('counterexample', {})
        raw = ce.get('txns') or ([ce['txn']] if 'txn' in ce else [])
        for_replay = []
        for m in raw:
            y, mo = m['month'].split('-')
            for_replay.append({'amount': bits_float(m['amount']), 'tags': m['tags'], 'merchant': m['merchant'],
                               'category': m['category'], 'subcategory': m['subcategory'],
                               'date': datetime.date(int(y), int(mo), 15)})
        lists = [(for_replay, True)]
    else:
        lists.append(([], True))
        for i in range(n):
            dy = (i % 4) != 3
            size = r.choice([1, 2, 3, 5, 8, 13, 25, 40])
            lists.append(([gen_txn(r, dy) for _ in range(size)], dy))
    cases = [{'op': 'analyze', 'txns': [to_model(t) for t in l]} for l, _ in lists]
    impl = [impl_figures(l) for l, _ in lists]
    corr_fail = []
    try:
        model = common.Driver().batch(cases)
        for i, (m, im) in enumerate(zip(model, impl)):
            m = {k: v for k, v in m.items() if k != 'id'}
            if not lists[i][1]:
                # 2-decimal amounts: Python >= 3.12 `sum()` is compensated (Neumaier), the model folds naively;
                # the two sum()-based figures are compared on the dyadic lists only (exact there)
                for k in ('total', 'total_transactions'):
                    m.pop(k, None); im.pop(k, None)
            if m != im:
                diff = [k for k in im if m.get(k) != im[k]]
                corr_fail.append({'case': cases[i], 'differs_in': diff,
                                  'model': {k: m.get(k) for k in diff}, 'implementation': {k: im[k] for k in diff}})
    except Exception as e:
        corr_fail.append({'driver_error': str(e)[:500]})
    ctx.obligation('correspondence:analyze_transactions-vs-Totals.analyze', 'correspondence', not corr_fail,
                   cases=len(cases), error=json.dumps(corr_fail[0])[:1500] if corr_fail else None)
    prop_fail = []
    for l, dy in lists:
        if dy:
            prop_fail.extend(oracle(l, r))
    ctx.cov['evaluations'] = len(cases)
    ctx.cov['traces_validated_against_impl'] = len(cases)
    ctx.cov['distinct_nontrivial'] = len({json.dumps(c['txns']) for c, (l, _) in zip(cases, lists) if nontrivial(l)})
    def decided_by_near_miss(t):
        tg = [] if t['tags'] in (None, 'missing') else t['tags']
        return any(not is_special(x) and any(w[:4] in x.lower() or w[-4:] in x.lower() for w in SPECIAL) for x in tg)
    all_txns = [t for l, _ in lists for t in l]
    nm_txns = [t for t in all_txns if decided_by_near_miss(t)]
    nm_only = [t for t in nm_txns if spec_bucket(t['amount'], t['tags']) in ('spending', 'credits')]
    ctx.cov['rule'] = ('random transaction lists (sizes 0–40; amounts dyadic k/64 so that float sums are exact, every 4th list '
                       '2-decimal; tags missing / None / [] / special tags in four letter cases mixed with ordinary ones and with '
                       'NEAR-MISS tags built from the special words: word+separator+suffix ("income-tax", "Transfer fee", '
                       '"investment:fees"), prefix+separator+word, surrounding blanks incl. NBSP / zero-width / BOM, plural and '
                       'derived forms, one letter replaced by a Unicode or ASCII look-alike, full-width letters, combining marks, '
                       'doubled and joined special words; merchant, category and month collisions); implementation figures compared '
                       'bit-for-bit with the Lean model; on dyadic lists the property oracle (one bucket, conservation, counts, '
                       'permutation, partition) runs on the implementation; "contains the special tag" = some tag t with '
                       't.lower() equal to the word (exact membership, no stripping: the property text is silent on blanks, the '
                       'oracle mirrors the unchanged code); non-trivial = at least 3 distinct buckets hit and a repeated merchant')
    ctx.notes['near_miss_tags'] = {'generated_by_form': dict(sorted(FORM_COUNT.items())),
                                   'transactions_carrying_one': len(nm_txns),
                                   'of_which_without_genuine_special_tag (bucket must be spending/credits)': len(nm_only),
                                   'of_all_transactions': len(all_txns)}
    sizes = {}
    for l, _ in lists:
        sizes[len(l)] = sizes.get(len(l), 0) + 1
    ctx.notes['size_histogram'] = sizes
    for c in cases[1:4]:
        ctx.sample({'txns': [{**t, 'amount': bits_float(t['amount'])} for t in c['txns'][:4]], 'n': len(c['txns'])})

    def search():
        out = []
        for _ in range(3000):
            l = [gen_txn(r, True) for _ in range(r.choice([1, 2, 3, 5, 8]))]
            out.extend(oracle(l, r))
            if out:
                break
        ctx.cov['evaluations'] += 3000
        return out

    common.conclude(ctx, prop_fail, search=search,
                    required='each amount lands in exactly one bucket chosen by tag precedence and sign; merchant/category/month '
                             'totals and counts add up to the same grand total; figures are order- and partition-independent')
    return ctx.finish(extra_trusted=[
        'py→Lean translator for classification.py (validated by the C13 grid and by this correspondence)',
        'hand model Totals.analyze of the loop in analyze_transactions, tied by bit-for-bit correspondence',
        'theorems are over exact integer amounts: float rounding / non-associativity is modelled away (oracle uses dyadic amounts)'])
