"""C12 — HTML, JSON, Markdown and text outputs all render and carry the same data.

Proof: Props/C12.lean over Model/Report.lean (json.dumps string escaping / json.loads scanstring round trip,
HTML script-data end rule, embedding, merchant ids, str.replace chain, category-view sums, figures).
Tie: correspondence streams (json.dumps, json.loads, html.parser, make_merchant_id observed through the real
write_summary_file_vue, the whole id allocation table observed on adversarial merchant-name families, the embed + placeholder
pipeline observed on small synthetic templates, build_category_view, export_json's summary) against the compiled Lean model.
Oracle on the implementation alone: every format x verbosity renders; the figures parsed back from every format
agree with the analysis; the HTML decodes (html.parser, then json) to exactly what was analysed.
Dates: real calendar days everywhere; a calendar stream puts edge days (29 Feb, 31 Dec / 1 Jan, month ends, far years) in every
POSITION of the data set (only / latest / earliest / all on one day / one month / across a year end / with empty months);
months and days shown by JSON, markdown and HTML are compared with the case's own day strings.
"""
import contextlib
import datetime
import io
import json
import math
import os
import re
import shutil
import tempfile
from html.parser import HTMLParser

from .. import common

PREFIX = 'window.spendingData = '
PH = {'CSS': '/* CSS_PLACEHOLDER */', 'DATA': '/* DATA_PLACEHOLDER */', 'JS': '/* JS_PLACEHOLDER */'}
FIGS = ('income', 'spending', 'credits', 'cash_flow', 'transfers_in', 'transfers_out', 'transfers_net')
STAT_KEY = {'income': 'income_total', 'spending': 'spending_total', 'credits': 'credits_total', 'cash_flow': 'cash_flow',
            'transfers_in': 'transfers_in', 'transfers_out': 'transfers_out', 'transfers_net': 'transfers_net'}

# ------------------------------------------------------------------ string pools

SCRIPTY = ['</script>', '</SCRIPT >', '</script\n>', '</ScRiPt\t>', '</script/>', '</script foo>', '<!--', '<!-- <script>',
           '<script>', '</scripts>', '</scrip', '</', '<', '</style>', ']]>', '-->', '<b>', '&lt;', '&amp;', '&#60;']
QUOTY = ['"', "'", '\\', '\\"', "\\'", '\\\\', '\\u003c', '\\n', '`', '""', "''"]
PLACEY = ['/* JS_PLACEHOLDER */', '/* DATA_PLACEHOLDER */', '/* CSS_PLACEHOLDER */', '{amount}', '${amount}', '{{ x }}',
          '{0}', '%s', '{', '}', '$', 'window.spendingData = ', ';']
UNI = ['é', 'ü', 'ß', 'ı', 'ſ', 'K', '日本語', 'ע', '\u2028', '\u2029', '\u00a0', '\ufeff', '\uffff', '\ud7ff', '\ue000',
       '😀', '\U0001F4B0', '\U00010000', '\U0010FFFF', 'e\u0301']
CTRL = ['\n', '\r', '\t', '\x08', '\x0c', '\x00', '\x01', '\x1f', '\x7f', '\x0b', ' ', '  ', '_', '__', '|', '*', '#']
WORDS = ['Shop', 'Cafe', 'AMAZON MKTP', 'Whole Foods', 'netflix.com', 'Rent', 'Salary', 'ATM 0042', 'X', 'a b c']
LONE = ['\ud800', '\udc80', '\udfff', '\udbff']          # lone surrogates (implementation-only stream)
COLLIDE = [["Joe's", 'Joes'], ['A B', 'A_B'], ['Say "Hi"', 'Say Hi', 'Say_Hi'], ["O'Neil's Pub", 'ONeils Pub', 'ONeils_Pub'],
           ['"', "'"], ['a  b', 'a__b', 'a _b']]
SPECIAL = ['income', 'transfer', 'investment']
CATS = [('Food', 'Grocery'), ('Food', 'Restaurant'), ('Income', 'Salary'), ('Transfers', 'Bank'), ('Unknown', 'Unknown'),
        ('', ''), ('Bills', ''), ('Uncategorized', 'Unknown'), ('Fun </script>', 'Sub "q"'), ('Ünï', '😀')]
CURRENCIES = ['${amount}', '{amount} zł', '€{amount}', '{amount}']
VIEWS = ('[Every Month]\ndescription: seen "often" </script> /* JS_PLACEHOLDER */\nfilter: months >= 2\n\n'
         '[Large]\nfilter: total > 100\n\n[All <b> ünï]\ndescription: é😀\nfilter: total > -100000000\n')


# merchant-name families for the id allocation: the property quantifies over ALL sets of merchant names, so the ids must be
# injective on every one of them — in particular on names whose natural id (quotes dropped, space → '_') equals an id
# that the allocator GENERATES for another name (`<base>_<n>`), and on chains of those
ID_BASES = ['Joes', 'A', 'Cafe X', 'x_y', 'Shop 2', "O'Neil", '7', 'é😀', 'a<b']


def id_op(r, s):
    """one step of the closure: a name related to `s` through the id normalisation or through `_n` suffixing"""
    k = r.random()
    if k < 0.3:                      # a quote somewhere: same natural id as s
        p = r.randint(0, len(s))
        return s[:p] + r.choice(["'", '"']) + s[p:]
    if k < 0.45:                     # space <-> underscore at one place: same natural id as s
        idx = [i for i, c in enumerate(s) if c in ' _']
        if idx:
            i = r.choice(idx)
            return s[:i] + ('_' if s[i] == ' ' else ' ') + s[i + 1:]
        return s + "'"
    if k < 0.9:                      # natural id = the id generated for the n-th name with the natural id of s
        return s + r.choice(['_', ' ']) + str(r.choice([2, 2, 2, 3, 3, 4, 10]))
    return s + r.choice(['_1', '_02', '_', ' ', '_2_', '2', '_2 '])     # near misses


def id_family(r, size, base=None):
    """`size` names from the closure of one base name under `id_op`, in random order"""
    if base is None:
        base = r.choice(ID_BASES) if r.random() < 0.8 else adv_string(r, False, 2)
    names, tries = [base], 0
    while len(names) < size and tries < 60:
        tries += 1
        n = id_op(r, r.choice(names))
        if n not in names:
            names.append(n)
    r.shuffle(names)
    return names


def id_universe(b):
    """a fixed small part of that closure, for exhaustive enumeration of ordered subsets"""
    return [b, b + "'", b + ' 2', b + '_2', '"' + b, b + "' 2", b + '_2_2', b + ' 3', b + ' 2 2', b + '_2_3']


def id_case(r, names, views=False):
    """every name occurs, first appearances in the given order; two categories so that category sums are not trivial"""
    cats = [('Food', 'Grocery'), ('Food', 'Restaurant'), ('Bills', '')]
    txns = []
    for i, n in enumerate(names):
        c = r.choice(cats)
        txns.append(T(n, r.randint(1, 8000) / 4.0 * r.choice([1, 1, 1, -1]), desc='%s #%d' % (n, i), cat=c[0], sub=c[1],
                      date='2025-%02d-%02d' % (r.randint(1, 12), r.randint(1, 28))))
    for _ in range(r.randint(0, 3)):
        j = r.randrange(len(names))
        txns.append(dict(txns[j], amount=r.randint(1, 8000) / 4.0, description='again %d' % j,
                         date='2025-%02d-%02d' % (r.randint(1, 12), r.randint(1, 28))))
    return {'txns': txns, 'views': VIEWS if views else None, 'currency': '${amount}', 'sources': ['Amex'], 'year': 2025,
            'id_family': list(names)}


def id_cases(r, quick):
    """the id-allocation stream: (a) every ordered triple (thorough: also every ordered 4-subset) of a fixed part of the closure
    of a base name, (b) random families of 3–8 names, with and without views"""
    import itertools
    out = []
    bases = [r.choice(ID_BASES)] if quick else ID_BASES[:3] + [r.choice(ID_BASES[3:])]
    for b in bases:
        u = id_universe(b)
        for t in itertools.permutations(u[:6] if quick else u[:8], 3):
            out.append(id_case(r, list(t)))
        if not quick:
            for t in itertools.permutations(u[:7], 4):
                out.append(id_case(r, list(t)))
        out.append(id_case(r, u, views=True))
        out.append(id_case(r, u[::-1]))
    for _ in range(90 if quick else 4000):
        out.append(id_case(r, id_family(r, r.randint(3, 8)), views=r.random() < 0.25))
    return out


def natural_id_clash(names):
    """does a name's natural id equal `<natural id shared by two other names>_<n>`?  (measure only; uses base_id)"""
    ids = [base_id(n) for n in names]
    shared = {i for i in ids if ids.count(i) > 1}
    return any(re.fullmatch(re.escape(b) + r'_[0-9]+', i) for b in shared for i in ids)


def adv_string(r, lone=False, maxparts=4):
    pools = [SCRIPTY, QUOTY, PLACEY, UNI, CTRL, WORDS, WORDS]
    if lone:
        pools = pools + [LONE]
    parts = []
    for _ in range(r.randint(1, maxparts)):
        parts.append(r.choice(r.choice(pools)))
    s = ''.join(parts) if r.random() < 0.5 else ' '.join(parts)
    if lone:
        # a high surrogate directly followed by a low one would be *joined* by any JSON decoder: not a string of
        # characters in the sense of the property; keep lone surrogates apart
        s = re.sub('([\ud800-\udbff])(?=[\udc00-\udfff])', r'\1.', s)
    return s


def is_scalar(s):
    return not any(0xD800 <= ord(c) <= 0xDFFF for c in s)


# ------------------------------------------------------------------ case generation (JSON-serialisable form)

# amounts that are NOT whole cents: what statements really contain once fuel (litres x price per litre to a tenth of a cent), converted
# foreign currency (amount x rate), per-mille / sub-cent fees, unit prices and computed fields (`field.amount * rate` in a transform)
# come in.  The report must carry them as analysed: nothing in report.py rounds (established on the unchanged tree: transaction
# amount, merchant ytd / monthly and the money-flow figures are embedded raw; only export_json / markdown / text round, for display).
FINE = [0.004, 0.0049, 0.005, 0.015, 0.001, 0.0001, 183.4449, 131.1648, 21.8608, 2.675, 1.005, 0.125, 0.375, 64.129, 1.659, 1.0049, 99.995,
        1234.5678, 0.333333, 19.999, 7.0051, 0.0149, 0.995, 10.005, 4999.9951]


def gen_fine(r):
    """a positive amount with 3-6 decimals (a decimal: an integer number of 10^-6)"""
    k = r.random()
    litres, price = r.randint(500, 9000) / 100, r.choice([1.659, 1.7289, 1.459, 2.019])
    foreign, rate = r.randint(100, 500000) / 100, r.choice([1.09304, 0.8537, 0.0067, 1.3275])
    places = r.choice([3, 4])
    thousandths = r.randint(1, 99999) / 1000.0
    cents = r.randint(1, 800000) / 100.0
    pick = r.choice(FINE)
    if k < 0.30:
        return pick
    if k < 0.55:
        return round(litres * price, places)
    if k < 0.78:
        return round(foreign * rate, 4)
    if k < 0.92:
        return thousandths
    return cents


def gen_amount(r, mode):
    if mode == 'zero':
        return 0.0
    a = r.randint(1, 8000) / 4.0
    if mode == 'neg':
        return -a
    if mode == 'pos':
        return a
    if mode == 'fine':
        a = gen_fine(r)
    elif mode == 'float':          # no decimal at all: the result of arithmetic on amounts (0.1 + 0.2, a third, amount x rate unrounded)
        a = r.choice([r.uniform(0.001, 900.0), 0.1 + 0.2, 1 / 3, 200 / 3, 59.99 * 1.09304, 1e-9, 0.1 * 3])
    k = r.random()
    return 0.0 if k < 0.06 else (-a if k < 0.4 else a)


def amount_scale(txns):
    """the smallest S in 10^2, 10^3, 10^4, 10^6 such that every amount is a whole number of 1/S (then figures are compared with the
    Lean model in integer units of 1/S - the model is linear in the amounts, the unit is arbitrary); None if there is none"""
    for k in (2, 3, 4, 6):
        if all(round(t['amount'], k) == t['amount'] for t in txns):
            return 10 ** k
    return None


# ------------------------------------------------------------------ dates: the calendar, by position
# The report code touches a transaction's date in several places (month key 'YYYY-MM', day 'MM/DD', number of months, the
# monthly table, per-merchant months, views by month / year, "data through").  Which DAY matters is decided by the position of
# the transaction in the data set - the latest, the earliest, the only one - so edge days are generated by position.
# Own calendar arithmetic (no datetime): what the outputs must say is computed from these integers.

CAL_YEARS = [1900, 1970, 1999, 2000, 2023, 2024, 2025, 2028, 2038, 2096, 2100, 2400]
CAL_SHAPES = ['single', 'latest', 'earliest', 'one-day', 'one-month', 'year-boundary', 'gap', 'month-ends']


def is_leap(y):
    return y % 4 == 0 and (y % 100 != 0 or y % 400 == 0)


def days_in(y, m):
    return (31, 29 if is_leap(y) else 28, 31, 30, 31, 30, 31, 31, 30, 31, 30, 31)[m - 1]


def add_months(y, m, k):
    n = y * 12 + (m - 1) + k
    return n // 12, n % 12 + 1


def iso(d):
    return '%04d-%02d-%02d' % d


def edge_days():
    """29 Feb of every leap year, 28 Feb, 1 Mar, 31 Dec, 1 Jan, 31 Jan, 30 Apr - in years near and far, leap, non-leap, century"""
    out = []
    for y in CAL_YEARS:
        out += [(y, 2, 29)] if is_leap(y) else []
        out += [(y, 2, 28), (y, 3, 1), (y, 12, 31), (y, 1, 1), (y, 1, 31), (y, 4, 30)]
    return out


def primary_edge(e):
    return (e[1], e[2]) == (2, 29) or (e[0] in (1999, 2024, 2025) and (e[1], e[2]) in ((12, 31), (1, 1)))


def random_day(r):
    """any real calendar day (days 29-31 included), mostly 2024 / 2025; sometimes an edge day"""
    if r.random() < 0.15:
        return r.choice(edge_days())
    y, m = r.choice([2024, 2025]), r.randint(1, 12)
    return (y, m, r.randint(1, days_in(y, m)))


def cal_dates(r, e, shape):
    """the days of a data set of the given shape around the edge day e = (y, m, d)"""
    y, m, d = e
    if shape == 'single':
        return [e]
    if shape in ('latest', 'earliest'):
        sign = -1 if shape == 'latest' else 1
        out = [e]
        for _ in range(r.randint(1, 5)):
            k = r.choice([0, 0, 1, 1, 2, 11, 12, 13, 48])
            if k == 0 and (d == 1 if sign < 0 else d == days_in(y, m)):
                k = 1
            y2, m2 = add_months(y, m, sign * k)
            if k == 0:
                d2 = r.randint(1, d - 1) if sign < 0 else r.randint(d + 1, days_in(y, m))
            else:
                d2 = r.choice([1, days_in(y2, m2), min(d, days_in(y2, m2)), r.randint(1, days_in(y2, m2))])
            out.append((y2, m2, d2))
        return out
    if shape == 'one-day':
        return [e] * r.randint(2, 5)
    if shape == 'one-month':
        return [(y, m, 1), e, (y, m, days_in(y, m))] + [(y, m, r.randint(1, days_in(y, m))) for _ in range(r.randint(0, 3))]
    if shape == 'year-boundary':
        return [e, (y - 1, 12, 31), (y, 1, 1), (y, 12, 31), (y + 1, 1, 1)][:r.randint(3, 5)] if (m, d) not in ((12, 31), (1, 1)) else \
            [e, (y, 12, 30), (y + 1, 1, 1), (y + 1, 1, 2)] if m == 12 else [e, (y - 1, 12, 31), (y - 1, 12, 1), (y, 1, 2)]
    if shape == 'gap':
        out = [e]
        for k in r.sample([2, 3, 11, 12, 13, 25, 48, -2, -12, -13], r.randint(1, 2)):
            y2, m2 = add_months(y, m, k)
            out.append((y2, m2, r.choice([min(d, days_in(y2, m2)), days_in(y2, m2), 1])))
        return out
    if shape == 'month-ends':
        return [(y, k, days_in(y, k)) for k in range(1, 13)] + [e]
    raise ValueError(shape)


def cal_case(r, e, shape, views=None):
    days = cal_dates(r, e, shape)
    order = r.choice(['sorted', 'reversed', 'shuffled'])
    days = sorted(days) if order == 'sorted' else sorted(days, reverse=True) if order == 'reversed' else r.sample(days, len(days))
    merchants = r.sample(WORDS, r.randint(1, 3))
    txns = []
    for dd in days:
        t = gen_txn(r, merchants, False, False, r.choice(['mixed', 'mixed', 'pos', 'neg', 'fine']), False)
        t['date'] = iso(dd)
        txns.append(t)
    views = (r.random() < 0.5) if views is None else views
    return {'txns': txns, 'views': VIEWS if views else None, 'currency': r.choice(CURRENCIES), 'sources': ['Amex'],
            'year': r.choice([e[0], e[0], 2025]), 'calendar': {'edge': iso(e), 'shape': shape, 'order': order}}


def cal_cases(r, quick):
    """quick: every shape for the primary edge days (every 29 Feb; 31 Dec / 1 Jan of 1999, 2024, 2025), two random shapes for the
    others; thorough: every edge day x every shape x with / without views, three draws each"""
    out = []
    for e in edge_days():
        if quick:
            for shape in (CAL_SHAPES if primary_edge(e) else r.sample(CAL_SHAPES, 2)):
                out.append(cal_case(r, e, shape))
        else:
            for shape in CAL_SHAPES:
                for views in (False, True):
                    out += [cal_case(r, e, shape, views) for _ in range(3)]
    return out


def own_dates(case):
    """[(merchant, 'YYYY-MM', 'MM/DD', (y, m, d))] computed from the case's ISO day strings by string slicing alone"""
    out = []
    for t in case['txns']:
        y, m, d = t['date'].split('-')
        out.append((t['merchant'], y + '-' + m, m + '/' + d, (int(y), int(m), int(d))))
    return out


def gen_txn(r, merchants, adversarial, lone, amount_mode, date_fields):
    m = r.choice(merchants)
    tags = []
    for _ in range(r.choice([0, 0, 1, 1, 2, 3])):
        k = r.random()
        if k < 0.4:
            t = r.choice(SPECIAL)
            tags.append(r.choice([t, t.upper(), t.capitalize()]))
        elif k < 0.7 or not adversarial:
            tags.append(r.choice(['groceries', 'Refund', 'work', 'incomes']))
        else:
            tags.append(adv_string(r, lone, 2))
    cat = r.choice(CATS if adversarial else CATS[:8])
    desc = adv_string(r, lone) if adversarial and r.random() < 0.8 else r.choice(WORDS) + ' ' + str(r.randint(1, 999))
    t = {'merchant': m, 'amount': gen_amount(r, amount_mode), 'tags': tags, 'description': desc, 'category': cat[0],
         'subcategory': cat[1], 'source': adv_string(r, lone, 2) if adversarial and r.random() < 0.3 else r.choice(['Amex', 'Chase']),
         'date': iso(random_day(r)),
         'location': r.choice([None, None, 'WA', adv_string(r, lone, 2) if adversarial else 'NY'])}
    if r.random() < 0.25:
        t['raw_description'] = adv_string(r, lone) if adversarial else 'RAW ' + desc
    if r.random() < 0.3:
        ef = {}
        for _ in range(r.randint(1, 3)):
            key = r.choice(['note', 'order_id', 'n', 'items', 'd', adv_string(r, False, 1) if adversarial else 'k'])
            kind = r.random()
            if kind < 0.5:
                ef[key] = adv_string(r, lone) if adversarial else 'v' + str(r.randint(0, 9))
            elif kind < 0.65:
                ef[key] = r.randint(-5, 500)
            elif kind < 0.8:
                ef[key] = [adv_string(r, lone, 2) if adversarial else 'i', r.randint(0, 9)]
            elif kind < 0.9:
                ef[key] = r.choice([True, False, None, 0.25])
            elif date_fields:
                ef[key] = {'__date__': '2025-%02d-%02d' % (r.randint(1, 12), r.randint(1, 28))}
        if ef:
            t['extra_fields'] = ef
    if r.random() < 0.3:
        t['match_info'] = {'pattern': adv_string(r, lone) if adversarial else 'contains("X")', 'source': 'user',
                           'tags': list(tags), 'tag_sources': {}}
    return t


def gen_case(r, profile=None):
    """profile: dict of switches; None = draw them."""
    p = {'adversarial': r.random() < 0.6, 'lone': r.random() < 0.1, 'collide': r.random() < 0.2, 'views': r.random() < 0.4,
         'date_fields': r.random() < 0.12, 'amount_mode': r.choice(['mixed', 'mixed', 'mixed', 'neg', 'zero', 'pos', 'fine', 'fine', 'fine', 'float']),
         'family': r.random() < 0.12}
    if profile:
        p.update(profile)
    must = []
    merchants = [r.choice(WORDS) for _ in range(r.randint(1, 4))]
    if p['adversarial']:
        merchants += [adv_string(r, p['lone'], 3) for _ in range(r.randint(1, 3))]
    if p['collide']:
        fam = r.choice(COLLIDE)
        merchants += fam[:r.randint(2, len(fam))]
        if r.random() < 0.3:
            base = adv_string(r, False, 2)
            merchants += [base + " o'x y", base + ' ox_y']
    if p['family']:
        must = id_family(r, r.randint(3, 6))
        merchants += must
    merchants = list(dict.fromkeys(merchants))
    n = r.choice([1, 2, 3, 5, 8, 13, 20])
    txns = [gen_txn(r, merchants, p['adversarial'], p['lone'], p['amount_mode'], p['date_fields']) for _ in range(n)]
    if p['collide'] or must:
        for m in (must or merchants[-2:]):   # colliding names must actually occur
            t = gen_txn(r, [m], p['adversarial'], p['lone'], p['amount_mode'], p['date_fields'])
            txns.insert(r.randint(0, len(txns)), t) if must else txns.append(t)
    return {'txns': txns, 'views': VIEWS if p['views'] else None, 'currency': r.choice(CURRENCIES),
            'sources': [adv_string(r, False, 2)] if p['adversarial'] else ['Amex'], 'year': r.choice([2024, 2025])}


def T(merchant, amount, tags=(), desc=None, cat='Food', sub='Grocery', date='2025-01-15', extra=None):
    t = {'merchant': merchant, 'amount': float(amount), 'tags': list(tags), 'description': desc or merchant, 'category': cat,
         'subcategory': sub, 'source': 'Amex', 'date': date, 'location': None}
    if extra:
        t['extra_fields'] = extra
    return t


def corpus():
    """Pre-registered witnesses (DESIGN §6) — always run first."""
    mk = lambda txns, **kw: dict({'txns': txns, 'views': None, 'currency': '${amount}', 'sources': ['Amex'], 'year': 2025}, **kw)
    return [
        ('D12a', mk([T('Shop', 12.5)])),
        ('D12b', mk([T('Shop', -12.5, desc='X </script><b>')])),
        ('D12c', mk([T("Joe's", -10), T('Joes', -2.5)])),
        ('D12d', mk([T('Shop', -5, desc='see /* JS_PLACEHOLDER */ here')])),
        ('D12e', mk([T('M', -10, cat='C', sub='S'), T('M', -3, cat='C', sub='S'), T('Emp', -100, ['income'], cat='I', sub='S'),
                     T('Emp', -20, cat='I', sub='S')]) | {'note': 'all totals negative so that markdown renders on the unfixed tree'}),
        ('D12e-design-witness', mk([T('M', 10), T('M', -3), T('Emp', -100, ['income']), T('Emp', 20)])),
        ('D12f', mk([T('Shop', -7.25, extra={'d': {'__date__': '2025-03-04'}})])),
        ('views', mk([T('Shop', 120, date='2025-01-03'), T('Shop', 40, date='2025-02-03'), T("Joe's", 7), T('Emp', -900, ['income'])],
                     views=VIEWS)),
        # amounts that are not whole cents (per-mille fee, fuel, converted currency, a refund): embedded as analysed, sums add up
        ('sub-cent-amounts', mk([T('Card Fees', 0.004, desc='FX FEE 0.4%', cat='Fees', sub='Bank', date='2025-01-09'),
                                 T('Card Fees', 0.004, desc='FX FEE 0.4%', cat='Fees', sub='Bank', date='2025-02-09'),
                                 T('Fuel', 183.4449, desc='SHELL 110.575 L', cat='Transport', sub='Fuel', date='2025-01-20'),
                                 T('Fuel', 64.129, desc='SHELL 38.655 L', cat='Transport', sub='Fuel', date='2025-02-11'),
                                 T('Hotel Lisboa', 131.1648, desc='HOTEL LISBOA EUR 120.00', cat='Travel', sub='Lodging', date='2025-02-02'),
                                 T('Hotel Lisboa', -21.8608, desc='HOTEL LISBOA REFUND EUR 20.00', cat='Travel', sub='Lodging', date='2025-02-05'),
                                 T('Kiosk', 2.675, cat='Travel', sub='Food', date='2025-02-03'),
                                 T('Emp', -2500.005, ['income'], cat='Income', sub='Salary', date='2025-01-31')])),
        # the calendar by position: the latest / only / earliest transaction on 29 February; a statement across a year end
        ('leap-day-latest', mk([T('Emp', -1500, ['income'], date='2024-02-01'), T('Rent', 900, date='2024-02-02'),
                                T('Shop', 61.25, date='2024-02-14'), T('Shop', -11.25, date='2024-02-15'), T('Books', 40, date='2024-02-29')],
                               year=2024)),
        ('leap-day-only-views', mk([T('Shop', 12.5, date='2000-02-29')], views=VIEWS, year=2000)),
        ('leap-day-earliest-then-year-end', mk([T('Shop', 5, date='2024-02-29'), T('Shop', 7.5, date='2024-12-31'),
                                                T('Cafe', 2.25, date='2025-01-01'), T('Emp', -900, ['income'], date='2025-01-31')],
                                               views=VIEWS)),
        ('sub-cent-amounts-views', mk([T('Fuel', 183.4449, date='2025-01-03'), T('Fuel', 64.129, date='2025-02-03'), T('Fees', 0.004),
                                       T('Fees', 0.0049, date='2025-02-15'), T('Emp', -900.015, ['income'])], views=VIEWS)),
    ]


# ------------------------------------------------------------------ running the implementation

def decode_extra(v):
    if isinstance(v, dict) and set(v) == {'__date__'}:
        return datetime.date.fromisoformat(v['__date__'])
    if isinstance(v, dict):
        return {k: decode_extra(x) for k, x in v.items()}
    if isinstance(v, list):
        return [decode_extra(x) for x in v]
    return v


def to_impl(t):
    y, m, d = (int(x) for x in t['date'].split('-'))
    out = {'date': datetime.datetime(y, m, d), 'description': t['description'], 'merchant': t['merchant'], 'amount': t['amount'],
           'category': t['category'], 'subcategory': t['subcategory'], 'source': t['source'], 'tags': list(t['tags']),
           'location': t.get('location')}
    if 'raw_description' in t:
        out['raw_description'] = t['raw_description']
    if t.get('extra_fields'):
        out['extra_fields'] = decode_extra(t['extra_fields'])
    if t.get('match_info'):
        out['match_info'] = json.loads(json.dumps(t['match_info']))
    return out


class _JsonShim:
    """Records report.py's json.dumps calls (argument and result) without changing them."""
    def __init__(self, real):
        self._real, self.calls = real, []

    def dumps(self, obj, *a, **k):
        out = self._real.dumps(obj, *a, **k)
        self.calls.append(out)
        return out

    def __getattr__(self, n):
        return getattr(self._real, n)


class Scripts(HTMLParser):
    def __init__(self):
        super().__init__()
        self.scripts, self.cur, self.attrs = [], None, None

    def handle_starttag(self, tag, attrs):
        if tag == 'script' and self.cur is None:
            self.cur, self.attrs = [], dict(attrs)

    def handle_endtag(self, tag):
        if tag == 'script' and self.cur is not None:
            self.scripts.append((self.attrs, ''.join(self.cur)))
            self.cur = None

    def handle_data(self, d):
        if self.cur is not None:
            self.cur.append(d)


def html_scripts(text):
    p = Scripts()
    p.feed(text)
    p.close()
    if p.cur is not None:
        p.scripts.append((p.attrs, ''.join(p.cur)))
    return p.scripts


def spec_ends(t):
    """HTML standard, script data: `</script` (ASCII case-insensitive) followed by TAB LF FF CR SPACE '/' or '>'."""
    return re.search(r'</[sS][cC][rR][iI][pP][tT][\t\n\x0c\r />]', t) is not None


def py_ends(t):
    """what html.parser of CPython 3.12 looks for in CDATA mode"""
    return re.search(r'</\s*script\s*>', t, re.I) is not None


def double_escape(t):
    """`<!--` … `<script` puts a browser's tokenizer in the double-escaped state: the element's own end tag is swallowed"""
    i = t.find('<!--')
    return i >= 0 and re.search(r'<[sS][cC][rR][iI][pP][tT][\t\n\x0c\r />]', t[i:]) is not None


def base_id(name):
    """merchant id scheme of the unchanged tree (used only to *classify* a loss as the pre-registered D12c)"""
    return name.replace("'", '').replace('"', '').replace(' ', '_')


def canon_extra(v):
    return json.loads(json.dumps(v, default=str))


def parse_num(s):
    return float(s.replace(',', ''))


def figure_regex(label, cf, signs):
    pre, _, suf = cf.partition('{amount}')
    return re.compile(label + r'\s*(' + signs + r')\s*' + re.escape(pre) + r'(-?[\d,]+(?:\.\d+)?)' + re.escape(suf))


def parse_text_figures(text, cf):
    out = {}
    spec = [('income', r'Income:', r'\+'), ('spending', r'Spending:', r'-'), ('credits', r'Credits/Refunds:', r'\+'),
            ('cash_flow', r'Net Cash Flow:', r'\+?'), ('transfers_in', r'\bIn:', r'\+'), ('transfers_out', r'\bOut:', r''),
            ('transfers_net', r'Net Transfers:', r'\+?')]
    head = text.split('\nMerchants:', 1)[0]
    for k, label, signs in spec:
        m = figure_regex(label, cf, signs).search(head)
        out[k] = parse_num(m.group(2)) if m else None
    return out


def parse_sections_figures(text, cf):
    out = {}
    tail = text[text.rfind('CASH FLOW SUMMARY'):] if 'CASH FLOW SUMMARY' in text else ''
    tail = re.sub(r'\x1b\[[0-9;]*m', '', tail)
    for k, label, signs in [('income', r'Income:', r'\+'), ('spending', r'Spending:', r'-'), ('credits', r'Credits:', r'\+'),
                            ('cash_flow', r'Cash Flow:', r'\+?')]:
        m = figure_regex(label, cf, signs).search(tail)
        out[k] = parse_num(m.group(2)) if m else None
    return out


def parse_md_figures(text, cf):
    pre, _, suf = cf.partition('{amount}')
    num = r'([+-]?)' + re.escape(pre) + r'([\d,]+\.\d\d)' + re.escape(suf)
    out = {}
    spec = [('income', r'\| Income \| '), ('spending', r'\| Spending \| '), ('credits', r'\| Credits/Refunds \| '),
            ('cash_flow', r'\| \*\*Net Cash Flow\*\* \| \*\*'), ('transfers_in', r'\| In \| '), ('transfers_out', r'\| Out \| '),
            ('transfers_net', r'\| \*\*Net Transfers\*\* \| \*\*')]
    head = text.split('## Monthly Breakdown', 1)[0].split('## Credits/Refunds', 1)[0].split('## By Category', 1)[0]
    for k, label in spec:
        m = re.search(label + num, head)
        if not m:
            out[k] = None
            continue
        v = parse_num(m.group(2))
        if m.group(1) == '-':
            v = -v
        out[k] = -v if k == 'spending' else v
    return out


def old_json_summary(stats):
    """export_json's merchant-level recomputation on the unchanged tree (the D12e `Impl`), for classification only."""
    bm = stats['by_merchant']
    income = sum(d['total'] for d in bm.values() if 'income' in [t.lower() for t in d.get('tags', set())])
    return {'income': round(income, 2),
            'credits': round(abs(sum(d['total'] for d in bm.values() if d['total'] < 0)), 2),
            'transfers_abs': round(abs(sum(d['total'] for d in bm.values() if 'transfer' in [t.lower() for t in d.get('tags', set())])), 2),
            'cash_flow': round(income - stats['total'], 2) if income > 0 else None,
            'spending': round(sum(d['total'] for d in bm.values() if d['total'] > 0), 2)}


class Impl:
    """The real code, in-process, with scratch files under a mkdtemp outside /verif and /repo."""
    def __init__(self):
        self.tmp = tempfile.mkdtemp(prefix='c12-')
        self.n = 0

    def close(self):
        shutil.rmtree(self.tmp, ignore_errors=True)

    def analyse(self, case):
        from tally import analyzer, section_engine
        stats = analyzer.analyze_transactions([to_impl(t) for t in case['txns']])
        if case.get('views'):
            cfg = section_engine.parse_sections(case['views'])
            res = analyzer.classify_by_sections(stats['by_merchant'], cfg, stats['num_months'])
            stats['sections'] = {name: analyzer.compute_section_totals(ms) for name, ms in res.items()}
            stats['_sections_config'] = cfg
        return stats

    def html(self, stats, case, embedded=True, template_dir=None):
        """returns (file text, captured json.dumps outputs, directory)"""
        from tally import report
        self.n += 1
        d = os.path.join(self.tmp, 'o%d' % self.n)
        os.makedirs(d)
        path = os.path.join(d, 'report.html')
        shim = _JsonShim(report.json)
        old_json, old_dir = report.json, report.get_template_dir
        report.json = shim
        if template_dir:
            report.get_template_dir = lambda: __import__('pathlib').Path(template_dir)
        try:
            report.write_summary_file_vue(stats, path, year=case.get('year', 2025), currency_format=case.get('currency', '${amount}'),
                                          sources=case.get('sources'), embedded_html=embedded)
        finally:
            report.json, report.get_template_dir = old_json, old_dir
        with open(path, encoding='utf-8', newline='') as f:
            text = f.read()
        return text, shim.calls, d


def exc_info(e):
    return {'exc': type(e).__name__, 'exc_name': getattr(e, 'name', None)}


def run_case(impl, case, light=False):
    """The property, stated on the implementation alone. Returns (failures, info)."""
    from tally import analyzer
    fails, info = [], {'renders': 0}

    def fail(cls, **kw):
        d = {'class': cls, 'case': case}
        d.update(kw)
        fails.append(d)

    try:
        stats = impl.analyse(case)
    except Exception as e:                      # not an analysable set of transactions: outside the property
        info['not_analysable'] = type(e).__name__
        return fails, info
    cf = case.get('currency', '${amount}')
    own_months = sorted({mk for _, mk, _, _ in own_dates(case)})
    want = {k: stats[STAT_KEY[k]] for k in FIGS}
    info['want'] = want
    bm = stats['by_merchant']
    has_pos_cat = any(v['total'] > 0 for v in stats['by_category'].values())

    def compare(fmt, got, tol, verbose=None, extra=None):
        for k, v in got.items():
            if v is None:
                continue
            if abs(v - want[k]) > tol + 1e-9:
                fail('figures-disagree:' + fmt, fmt=fmt, figure=k, observed=v, required=want[k], verbose=verbose, **(extra or {}))
                return

    # ---- text
    for gb in (['merchant'] if light else ['merchant', 'subcategory']):
        buf = io.StringIO()
        try:
            with contextlib.redirect_stdout(buf):
                analyzer.print_summary(stats, year=case.get('year', 2025), currency_format=cf, group_by=gb)
            info['renders'] += 1
        except Exception as e:
            fail('text-raises:' + type(e).__name__, site='print_summary', group_by=gb, **exc_info(e))
            continue
        got = parse_text_figures(buf.getvalue(), cf)
        if any(v is None for v in got.values()):
            fail('text-figure-missing', site='print_summary', figures=[k for k, v in got.items() if v is None])
        compare('text', got, 0.5)
    if stats.get('sections'):
        buf = io.StringIO()
        try:
            with contextlib.redirect_stdout(buf):
                analyzer.print_sections_summary(stats, year=case.get('year', 2025), currency_format=cf)
            info['renders'] += 1
            got = parse_sections_figures(buf.getvalue(), cf)
            if got.get('credits') is None and want['credits'] > 0:
                fail('text-figure-missing', site='print_sections_summary', figures=['credits'])
            if any(got.get(k) is None for k in ('income', 'spending', 'cash_flow')):
                fail('text-figure-missing', site='print_sections_summary', figures=[k for k, v in got.items() if v is None])
            compare('text-views', got, 0.5)
        except Exception as e:
            fail('text-raises:' + type(e).__name__, site='print_sections_summary', **exc_info(e))
    # ---- markdown, json x verbosity
    for v in ([0] if light else [0, 1, 2]):
        try:
            md = analyzer.export_markdown(stats, verbose=v, currency_format=cf)
            info['renders'] += 1
            got = parse_md_figures(md, cf)
            if any(x is None for x in got.values()):
                fail('markdown-figure-missing', figures=[k for k, x in got.items() if x is None], verbose=v)
            compare('markdown', got, 0.005, verbose=v)
            mm = re.search(r'\*\*Data Period:\*\*\s*(\d+) months', md)
            if mm and int(mm.group(1)) != stats['num_months']:
                fail('dates-disagree:markdown', fmt='markdown', figure='number of months', observed=int(mm.group(1)),
                     required=stats['num_months'], verbose=v)
            if '## Monthly Breakdown' in md:
                rows = re.findall(r'^\| (\d{4,}-\d\d) \|', md.split('## Monthly Breakdown', 1)[1].split('\n## ', 1)[0], re.M)
                if rows and rows != own_months:      # (a table that names its months differently is not compared)
                    fail('dates-disagree:markdown', fmt='markdown', figure='months of the monthly breakdown', observed=rows,
                         required=own_months, verbose=v)
        except Exception as e:
            fail('markdown-raises:' + type(e).__name__, site='export_markdown', verbose=v, has_positive_category=has_pos_cat, **exc_info(e))
        try:
            js = analyzer.export_json(stats, verbose=v)
            info['renders'] += 1
            try:
                summ = json.loads(js)['summary']
            except Exception as e:
                fail('json-not-json', verbose=v, **exc_info(e))
                continue
            full = json.loads(js)
            if ('num_months' in summ and summ['num_months'] != stats['num_months']) or \
                    (isinstance(full.get('by_month'), dict) and sorted(full['by_month']) != own_months):
                fail('dates-disagree:json', fmt='json', figure='months', observed={'num_months': summ.get('num_months'),
                     'by_month': sorted(full.get('by_month') or [])}, required=own_months, verbose=v)
            old = old_json_summary(stats)
            got = {'income': summ.get('income_total'), 'credits': summ.get('credits_total'), 'cash_flow': summ.get('net_cash_flow'),
                   'spending': summ.get('spending_total', summ.get('gross_spending')),
                   'transfers_in': summ.get('transfers_in'), 'transfers_out': summ.get('transfers_out'),
                   'transfers_net': summ.get('transfers_net')}
            for k, x in got.items():
                if x is None:
                    continue
                if abs(x - want[k]) > 0.005 + 1e-9:
                    fail('figures-disagree:json', fmt='json', figure=k, observed=x, required=want[k], verbose=v,
                         merchant_level_value=old.get(k))
                    break
            else:
                tt = summ.get('transfers_total')
                if tt is not None and 'transfers_net' not in summ and abs(tt - abs(want['transfers_net'])) > 0.005 + 1e-9:
                    fail('figures-disagree:json', fmt='json', figure='transfers_abs', observed=tt, required=abs(want['transfers_net']),
                         verbose=v, merchant_level_value=old['transfers_abs'])
        except Exception as e:
            fail('json-raises:' + type(e).__name__, site='export_json', verbose=v, **exc_info(e))
    # ---- html
    for embedded in ([True] if light else [True, False]):
        try:
            text, dumps, d = impl.html(stats, case, embedded=embedded)
            info['renders'] += 1
        except Exception as e:
            nonjson = any(isinstance(x, (datetime.date, datetime.datetime)) for t in case['txns']
                          for x in _leaves(decode_extra(t.get('extra_fields') or {})))
            fail('html-raises:' + type(e).__name__, site='write_summary_file_vue', embedded=embedded,
                 date_valued_extra_field=nonjson, **exc_info(e))
            continue
        intended = dumps[-1] if dumps else None
        if embedded:
            fails_before = len(fails)
            scripts = [s for a, s in html_scripts(text) if s.lstrip().startswith(PREFIX)]
            data = None
            if len(scripts) == 1 and scripts[0].rstrip().endswith(';'):
                try:
                    data = json.loads(scripts[0].strip()[len(PREFIX):-1])
                except Exception:
                    data = None
            triggers = {'script_end_spec': bool(intended and spec_ends(intended)), 'script_end_py': bool(intended and py_ends(intended)),
                        'double_escape': bool(intended and double_escape(intended)),
                        'placeholder_in_data': [k for k, p in PH.items() if intended and p in intended]}
            if data is None:
                cause, at = diagnose(scripts, intended)
                fail('html-data-broken:' + cause, data_scripts_found=len(scripts), diverges_at=at,
                     script_head=(scripts[0][:120] if scripts else None))
            else:
                # a browser's tokenizer is stricter than html.parser: check the standard's rule on the embedded text too
                body = scripts[0]
                if spec_ends(body) or double_escape(body):
                    mm = re.search(r'</[sS][cC][rR][iI][pP][tT][\t\n\x0c\r />]|<!--', body)
                    fail('html-data-broken:script-end', browser_rule=True, diverges_at=body[mm.start():mm.start() + 16])
                check_data(data, stats, case, fail, want)
                # "data through" = the day of the latest transaction, in whatever form the report shows a day: it must be what the
                # report of that one transaction alone shows.  Checked when all transactions fall in ONE calendar year: across a
                # year end the unchanged report takes the greatest 'MM/DD' text whatever the year (finding D12h in
                # notes/C12_notes.md) - documented exclusion
                days = [x for _, _, _, x in own_dates(case)]
                if case.get('calendar') and 'dataThrough' in data and len({y for y, _, _ in days}) == 1 and len(days) > 1:
                    one = dict(case, txns=[case['txns'][max(range(len(days)), key=lambda i: days[i])]], views=None)
                    try:
                        _, dumps1, d1 = impl.html(impl.analyse(one), one, embedded=True)
                        shutil.rmtree(d1, ignore_errors=True)
                        through1 = json.loads(dumps1[-1]).get('dataThrough')
                    except Exception:
                        through1 = None
                    info['data_through_checked'] = through1 is not None
                    if through1 is not None and data['dataThrough'] != through1:
                        fail('dates-disagree:html', figure='dataThrough', observed=data['dataThrough'], required=through1,
                             note='required = dataThrough of the report of the latest transaction alone')
            info['html_checked'] = info.get('html_checked', 0) + 1
            info['triggers'] = triggers
            info['html_ok'] = len(fails) == fails_before
        else:
            try:
                with open(os.path.join(d, 'spending_data.js'), encoding='utf-8') as f:
                    ds = f.read()
                data = json.loads(ds.strip()[len(PREFIX):-1]) if ds.startswith(PREFIX) else None
            except Exception:
                data = None
            if data is None:
                fail('html-external-data-broken')
            else:
                check_data(data, stats, case, lambda cls, **kw: fail(cls, where='spending_data.js', **kw), want)
        shutil.rmtree(d, ignore_errors=True)
    return fails, info


def diagnose(scripts, intended):
    """why does the data script not decode?  Compare what html.parser extracted with the JSON text the implementation meant to
    embed (as it is, or with '<' escaped): cut short at an end tag → 'script-end'; foreign text where a placeholder stood →
    'placeholder-rescan'; anything else → 'other'.  Returns (cause, the intended text at the point of divergence)."""
    if not scripts or intended is None:
        return 'other', None
    body = scripts[0].lstrip()[len(PREFIX):]
    best, bp = None, -1
    for cand in (intended, intended.replace('<', '\\u003c')):
        p = 0
        n = min(len(body), len(cand))
        while p < n and body[p] == cand[p]:
            p += 1
        if p > bp:
            best, bp = cand, p
    rest = best[bp:]
    if bp == len(body) and re.match(r'</\s*script', rest, re.I):
        return 'script-end', rest[:16]
    for k, ph in PH.items():
        for back in range(len(ph)):
            if best[bp - back:].startswith(ph) and bp - back >= 0:
                return 'placeholder-rescan', ph
    return 'other', rest[:16]


def _leaves(v):
    if isinstance(v, dict):
        for x in v.values():
            yield from _leaves(x)
    elif isinstance(v, list):
        for x in v:
            yield from _leaves(x)
    else:
        yield v


def sum_bound(terms, groups=0):
    """how far a float sum of `terms`, added up in any order and any grouping (n - 1 + groups additions, each rounded once), can be
    from their true sum: the standard bound gamma_k * sum|x| with gamma_k = k u / (1 - k u), u = 2^-53 (Higham, Accuracy and Stability
    of Numerical Algorithms, 4.2), plus u |sum| for the rounding of the reference value itself.  0 when every partial sum is exact
    (all terms multiples of 1/4 and small): then the comparison is bit for bit, as it was before amounts with more decimals came in."""
    if all(isinstance(t, (int, float)) and float(t * 4).is_integer() and abs(t) < 2.0 ** 40 for t in terms) and len(terms) < 2 ** 10:
        return 0.0
    u = 2.0 ** -53
    k = max(len(terms) - 1, 0) + groups
    return (k * u / (1 - k * u)) * math.fsum(abs(t) for t in terms) + u * abs(math.fsum(terms))


TYPE_FEED = []      # (transactions in the category loop's own order, typeTotals per category) of every report rendered: fed to the model


def sum_agrees(observed, terms, groups=0):
    return isinstance(observed, (int, float)) and not isinstance(observed, bool) and \
        abs(observed - math.fsum(terms)) <= sum_bound(terms, groups)


def check_data(data, stats, case, fail, want, suffix=''):
    """decoded embedded data == what was analysed"""
    bm = stats['by_merchant']
    hk = {'income': 'incomeTotal', 'spending': 'spendingTotal', 'credits': 'creditsTotal', 'cash_flow': 'cashFlow',
          'transfers_in': 'transfersIn', 'transfers_out': 'transfersOut', 'transfers_net': 'transfersNet'}
    for k, key in hk.items():
        if data.get(key) != want[k]:
            fail('figures-disagree:html' + suffix, fmt='html', figure=k, observed=data.get(key), required=want[k])
            break
    found = []
    cv = data.get('categoryView') or {}
    for cat, c in cv.items():
        for sub, s in (c.get('subcategories') or {}).items():
            for mid, m in (s.get('merchants') or {}).items():
                found.append((cat, sub, mid, m))
    names = [m.get('displayName') for _, _, _, m in found]
    missing = [n for n in bm if names.count(n) == 0]
    dup = [n for n in bm if names.count(n) > 1]
    extra = [n for n in names if n not in bm]
    ids = {}
    for n in bm:
        ids.setdefault(base_id(n), []).append(n)
    collisions = [v for v in ids.values() if len(v) > 1]
    if missing or dup or extra:
        fail('html-merchant-missing' + suffix, missing=missing, duplicated=dup, unexpected=extra, id_collisions=collisions,
             missing_all_in_collision=all(any(n in c for c in collisions) for n in missing) and not dup and not extra)
        return
    for cat, sub, mid, m in found:
        exp = bm[m['displayName']]
        et = exp['transactions']
        gt = m.get('transactions') or []
        ok = len(et) == len(gt) and m.get('ytd') == exp['total'] and m.get('count') == exp['count']
        if ok:
            for a, b in zip(et, gt):
                if not (b.get('description') == a['description'] and b.get('amount') == a['amount'] and b.get('month') == a['month']
                        and b.get('tags') == list(a['tags']) and b.get('source') == a['source'] and b.get('location') == a.get('location')
                        and b.get('date') == a['date']
                        and b.get('extra_fields') == (canon_extra(a['extra_fields']) if a.get('extra_fields') else None)):
                    ok = False
                    break
        if not ok:
            fail('html-transaction-mismatch' + suffix, merchant=m['displayName'],
                 observed=[{k: t.get(k) for k in ('description', 'amount', 'month', 'tags', 'source', 'extra_fields')} for t in gt][:5],
                 required=[{k: (canon_extra(t.get(k)) if k == 'extra_fields' and t.get(k) else t.get(k)) for k in
                            ('description', 'amount', 'month', 'tags', 'source', 'extra_fields')} for t in et][:5])
            return
        # the days, against the case itself (own string slicing, not the analysis): every transaction of the merchant shows its
        # month 'YYYY-MM' and its day 'MM/DD'
        od = sorted((mk, dk) for mname, mk, dk, _ in own_dates(case) if mname == m['displayName'])
        if sorted((t.get('month'), t.get('date')) for t in gt) != od:
            fail('dates-disagree:html' + suffix, merchant=m['displayName'], observed=sorted((t.get('month'), t.get('date')) for t in gt),
                 required=od)
            return
        if sorted(m.get('tags') or []) != sorted(exp.get('tags', set())):
            fail('html-transaction-mismatch' + suffix, merchant=m['displayName'], field='tags')
            return
        # the merchant's monthly figure is one of the analysis' own per-merchant monthly figures, as it is (not re-rounded)
        nm = stats.get('num_months') or 0
        monthly_ok = [exp.get('avg_when_active'), exp.get('monthly_value'), exp['total'] / nm if nm else 0, 0]
        if 'monthly' in m and not any(isinstance(x, (int, float)) and m['monthly'] == x for x in monthly_ok):
            fail('html-merchant-figure-mismatch' + suffix, merchant=m['displayName'], figure='monthly', observed=m['monthly'],
                 analysed={'avg_when_active': exp.get('avg_when_active'), 'total/12': exp.get('monthly_value'),
                           'total/num_months': exp['total'] / nm if nm else 0})
            return
    days = [x for _, _, _, x in own_dates(case)]
    if days and 'numMonths' in data and data['numMonths'] != stats['num_months']:
        fail('dates-disagree:html' + suffix, figure='numMonths', observed=data['numMonths'], required=stats['num_months'])
        return
    # per-category sums add up to the analysed totals: every total in the view is a float sum, in SOME order and grouping, of the
    # analysed totals of the merchants below it (which were just compared bit for bit) - see sum_agrees
    count = sum(d['count'] for d in bm.values())
    grand = sum(c.get('total', 0) for c in cv.values())
    if not sum_agrees(grand, [d['total'] for d in bm.values()], groups=len(cv)) or sum(c.get('count', 0) for c in cv.values()) != count:
        fail('html-category-sums' + suffix, observed=grand, required=math.fsum(d['total'] for d in bm.values()),
             allowed_error=sum_bound([d['total'] for d in bm.values()], len(cv)))
        return
    for cat, c in cv.items():
        subs = c.get('subcategories') or {}
        below = [bm[m['displayName']]['total'] for s in subs.values() for m in s['merchants'].values()]
        if not sum_agrees(c.get('total'), below) or not sum_agrees(sum(s.get('total', 0) for s in subs.values()), below, groups=len(subs)):
            fail('html-category-sums' + suffix, category=cat, observed=c.get('total'), required=math.fsum(below), allowed_error=sum_bound(below))
            return
        for sub, s in subs.items():
            below = [bm[m['displayName']]['total'] for m in s['merchants'].values()]
            if not sum_agrees(s.get('total'), below):
                fail('html-category-sums' + suffix, category=cat, subcategory=sub, observed=s.get('total'), required=math.fsum(below),
                     allowed_error=sum_bound(below))
                return
    # typeTotals: report.py's own copy of the classification.  Per category the four figures are the sums over the transactions
    # LISTED UNDER that category, each counted in ONE figure by the property's reading of the tags (income > investment > transfer by
    # lower-cased membership, otherwise spending when positive); over all categories they add up to the analysed income / investment /
    # transfers in + out / spending  (Props/C12 type_totals_add_up; the chain itself is regenerated into Gen/ReportTypes.lean)
    def own_bucket(t):
        tl = [x.lower() for x in (t.get('tags') or [])]
        a = t.get('amount') or 0
        for k in ('income', 'investment', 'transfer'):
            if k in tl:
                return k, abs(a)
        return ('spending', a) if a > 0 else (None, 0)
    grand = {k: [] for k in ('spending', 'income', 'investment', 'transfer')}
    fed = []
    for cat, c in cv.items():
        tt = c.get('typeTotals')
        if not isinstance(tt, dict) or sorted(tt) != sorted(grand):
            fail('html-type-totals' + suffix, category=cat, observed=tt, required='a record with spending / income / investment / transfer')
            return
        terms = {k: [] for k in grand}
        for s in (c.get('subcategories') or {}).values():
            for m in (s.get('merchants') or {}).values():
                for t in m.get('transactions') or []:
                    k, v = own_bucket(t)
                    if k:
                        terms[k].append(v)
                    fed.append({'category': cat, 'amount': t.get('amount') or 0, 'tags': [x.lower() for x in (t.get('tags') or [])]})
        for k in grand:
            if not sum_agrees(tt[k], terms[k]):
                fail('html-type-totals' + suffix, category=cat, figure=k, observed=tt[k], required=math.fsum(terms[k]), allowed_error=sum_bound(terms[k]),
                     transactions=[{'amount': t.get('amount'), 'tags': t.get('tags')} for s in c['subcategories'].values()
                                   for m in s['merchants'].values() for t in m.get('transactions') or []][:12])
                return
            grand[k] += terms[k]
    analysed = {'income': stats.get('income_total', 0), 'investment': stats.get('investment_total', 0),
                'transfer': stats.get('transfers_in', 0) + stats.get('transfers_out', 0), 'spending': stats.get('spending_total', 0)}
    for k in grand:
        got = sum(c['typeTotals'][k] for c in cv.values())
        if not sum_agrees(got, grand[k], groups=len(cv)) or not sum_agrees(analysed[k], grand[k], groups=1):
            fail('html-type-totals' + suffix, figure=k, observed_sum_over_categories=got, analysed=analysed[k], required=math.fsum(grand[k]),
                 allowed_error=sum_bound(grand[k], len(cv)))
            return
    TYPE_FEED.append((fed, {cat: c['typeTotals'] for cat, c in cv.items()}))
    # views: every merchant of a view appears in it exactly once
    for name, sec in (stats.get('sections') or {}).items():
        exp = [n for n, _ in sec.get('merchants', [])]
        if not exp:
            continue
        got = None
        for sid, s in (data.get('sections') or {}).items():
            if s.get('title') == name:
                got = [m.get('displayName') for m in (s.get('merchants') or {}).values()]
        if got is None or sorted(got) != sorted(exp):
            miss = [n for n in exp if n not in (got or [])]
            fail('html-merchant-missing' + suffix, view=name, missing=miss, id_collisions=collisions,
                 missing_all_in_collision=bool(miss) and all(any(n in c for c in collisions) for n in miss)
                 and got is not None and all(g in exp for g in got) and len(set(got)) == len(got))
            return


# ------------------------------------------------------------------ classification of failures (narrow)

def classify(f):
    c = f.get('class', '')
    if c == 'markdown-raises:NameError' and f.get('site') == 'export_markdown' and f.get('exc_name') == 'gross_spending' \
            and f.get('has_positive_category'):
        return 'D12a'
    if c == 'html-data-broken:script-end' and re.match(r'</\s*script|<!--', f.get('diverges_at') or '', re.I):
        return 'D12b'
    if c in ('html-merchant-missing',) and f.get('missing') and f.get('missing_all_in_collision'):
        return 'D12c'
    if c == 'html-data-broken:placeholder-rescan' and f.get('diverges_at') == PH['JS']:
        return 'D12d'
    if c == 'figures-disagree:json' and f.get('fmt') == 'json' and f.get('figure') in ('income', 'credits', 'cash_flow', 'spending', 'transfers_abs') \
            and f.get('merchant_level_value') is not None and abs(f['observed'] - f['merchant_level_value']) < 1e-9:
        return 'D12e'
    if c == 'html-raises:TypeError' and f.get('site') == 'write_summary_file_vue' and f.get('date_valued_extra_field'):
        return 'D12f'
    return None


# ------------------------------------------------------------------ correspondence streams

def cps(s):
    return [ord(c) for c in s]


def uncps(l):
    return None if l is None else ''.join(chr(x) for x in l)


def string_pool(r, cases, n, exhaustive=False):
    pool = {'', ' ', '<', 'X </script><b>', "Joe's", 'Joes', 'A B', 'A_B', '/* JS_PLACEHOLDER */', '\x7f', '\x1f', '\u2028', '\uffff',
            '\U00010000', '\U0010ffff', '\ud7ff\ue000', '</script', '</SCRIPT\x0c', 'é😀"\\\n'}
    for c in cases:
        for t in c['txns']:
            for s in [t['merchant'], t['description'], t.get('raw_description', '')] + list(t['tags']):
                if is_scalar(s):
                    pool.add(s)
    pool = sorted(pool)
    r.shuffle(pool)
    pool = pool[:n // 2]
    while len(pool) < n:
        k = r.random()
        if k < 0.6:
            pool.append(adv_string(r, False, 5))
        elif k < 0.8:
            pool.append(''.join(chr(r.choice([r.randint(0, 0x7f), r.randint(0x80, 0x7ff), r.randint(0x800, 0xd7ff),
                                              r.randint(0xe000, 0xffff), r.randint(0x10000, 0x10ffff)])) for _ in range(r.randint(0, 6))))
        else:
            pool.append(''.join(r.choice('<>/scriptSCRIPT \t\n\x0c"\\!-') for _ in range(r.randint(1, 14))))
    if exhaustive:
        # every Unicode scalar value once (chunks of 256), and every string of length <= 3 over a small adversarial alphabet
        scal = [c for c in range(0x110000) if not 0xD800 <= c <= 0xDFFF]
        pool += [''.join(chr(c) for c in scal[i:i + 256]) for i in range(0, len(scal), 256)]
        import itertools
        alpha = '</sS> "\\_\''
        for k in (1, 2, 3):
            pool += [''.join(t) for t in itertools.product(alpha, repeat=k)]
    return pool


def lone_id(impl, name, tdir):
    """the id the real write_summary_file_vue gives a merchant that is alone in the report (observed, not re-implemented)"""
    case = {'txns': [T(name, 1.0)], 'views': None, 'currency': '${amount}', 'sources': [], 'year': 2025}
    stats = impl.analyse(case)
    text, dumps, d = impl.html(stats, case, embedded=True, template_dir=tdir)
    shutil.rmtree(d, ignore_errors=True)
    data = json.loads(dumps[-1])
    out = []
    for c in data['categoryView'].values():
        for s in c['subcategories'].values():
            out.extend(s['merchants'].keys())
    return out[0] if len(out) == 1 else None


def mutate(r, enc):
    body = list(enc[1:-1])
    for _ in range(r.randint(1, 3)):
        k = r.random()
        pos = r.randint(0, len(body))
        if k < 0.3 and body:
            del body[min(pos, len(body) - 1)]
        elif k < 0.6:
            body.insert(pos, r.choice(['\\', '"', 'u', '\\u', '\\/', '\\u00e9', '\\uD83D', '\\ude00', '\\ud83d\\ude00', '\x01', 'G', '\\x',
                                       '\\u12', '\\uABCD', '\\b', '\x7f', 'é', '\\ud83d\\u0041']))
        elif body:
            body[min(pos, len(body) - 1)] = r.choice('abcdefABCDEF019"\\ux/')
    return '"' + ''.join(body) + '"'


def py_loads_str(t):
    try:
        v = json.loads(t)
    except Exception:
        return None
    if not isinstance(v, str) or not is_scalar(v):
        return None
    return v


def write_templates(tdir, template, css, js):
    os.makedirs(tdir, exist_ok=True)
    for name, content in (('spending_report.html', template), ('spending_report.css', css), ('spending_report.js', js)):
        with open(os.path.join(tdir, name), 'w', encoding='utf-8', newline='') as f:
            f.write(content)


def gen_template(r):
    # (no CR: the implementation reads its templates with universal newlines)
    noise = lambda: adv_string(r, False, 2).replace('\r', '').replace('/* DATA_PLACEHOLDER */', 'x').replace('/* JS_PLACEHOLDER */', 'y').replace('/* CSS_PLACEHOLDER */', 'z')
    t = ('<html>' + noise() + '<style>/* CSS_PLACEHOLDER */</style>' + noise() + '<script>/* DATA_PLACEHOLDER */</script>' + noise()
         + '<script>/* JS_PLACEHOLDER */</script>' + noise() + '</html>')
    css = 'body{}' + noise()
    js = 'var app=1;' + noise() + r.choice(['', '/* JS_PLACEHOLDER */', 'x'])
    return t, css, js


ORDERS = [('CSS', 'DATA', 'JS'), ('CSS', 'JS', 'DATA'), ('JS', 'CSS', 'DATA'), ('JS', 'DATA', 'CSS'), ('DATA', 'CSS', 'JS'), ('DATA', 'JS', 'CSS')]
VARIANTS = [(e, o) for e in ('unrepaired', 'repaired') for o in ORDERS]   # index 0 = unchanged tree, index 7 = (repaired, CSS-JS-DATA)


def correspondence(ctx, impl, cases, r):
    drv = common.Driver()
    nstr = 400 if ctx.quick else 6000
    pool = string_pool(r, cases, nstr, exhaustive=not ctx.quick)
    tdir = os.path.join(impl.tmp, 'tpl-id')
    write_templates(tdir, '<style>/* CSS_PLACEHOLDER */</style><script>/* DATA_PLACEHOLDER */</script><script>/* JS_PLACEHOLDER */</script>', 'c', 'j')
    # ---- strings: json.dumps, json.loads, make_merchant_id
    out = drv.batch([{'op': 'report', 'fn': 'str', 's': cps(s)} for s in pool])
    bad = {'enc': [], 'dec': [], 'mid': [], 'embdec': []}
    nid = 0
    for i, (s, m) in enumerate(zip(pool, out)):
        enc = json.dumps(s)
        if uncps(m['enc']) != enc:
            bad['enc'].append({'s': s, 'model': uncps(m['enc']), 'implementation': enc})
        if uncps(m['dec']) != s or json.loads(enc) != s:
            bad['dec'].append({'s': s, 'model': uncps(m['dec'])})
        emb = uncps(m['emb'])
        if py_loads_str(emb) != s or uncps(m['embdec']) != s or '<' in emb:
            bad['embdec'].append({'s': s, 'model_embedded': emb})
        if i % (1 if ctx.quick else 4) == 0 and nid < 1500:
            nid += 1
            got = lone_id(impl, s, tdir)
            if got != uncps(m['mid']):
                bad['mid'].append({'name': s, 'model': uncps(m['mid']), 'implementation': got})
    ctx.obligation('correspondence:json.dumps-vs-jsonEncodeStr', 'correspondence', not bad['enc'], cases=len(pool),
                   error=json.dumps(bad['enc'][0])[:1500] if bad['enc'] else None)
    ctx.obligation('correspondence:json.loads-vs-jsonDecodeStr(roundtrip)', 'correspondence', not bad['dec'] and not bad['embdec'], cases=2 * len(pool),
                   error=json.dumps((bad['dec'] + bad['embdec'])[0])[:1500] if bad['dec'] or bad['embdec'] else None)
    ctx.obligation('correspondence:make_merchant_id(observed in write_summary_file_vue)-vs-makeMerchantId', 'correspondence', not bad['mid'],
                   cases=nid, error=json.dumps(bad['mid'][0])[:1500] if bad['mid'] else None)
    # ---- decoder on damaged literals
    muts = []
    for s in pool[:nstr // 2]:
        muts.append(mutate(r, json.dumps(s)))
    out = drv.batch([{'op': 'report', 'fn': 'dec', 't': cps(t)} for t in muts])
    bad_dec = [{'t': t, 'model': uncps(m['dec']), 'implementation': py_loads_str(t)} for t, m in zip(muts, out)
               if is_scalar(t) and uncps(m['dec']) != py_loads_str(t)]
    ndec_ok = sum(1 for t in muts if py_loads_str(t) is not None)
    ctx.obligation('correspondence:json.loads-vs-jsonDecodeStr(damaged literals)', 'correspondence', not bad_dec, cases=len(muts),
                   error=json.dumps(bad_dec[0])[:1500] if bad_dec else None)
    # ---- script end rule vs html.parser
    texts = [json.dumps(s) for s in pool] + [s for s in pool if is_scalar(s)]
    out = drv.batch([{'op': 'report', 'fn': 'ends', 't': cps(t)} for t in texts])
    bad_ends, agree_class, ends_true = [], 0, 0
    for t, m in zip(texts, out):
        if m['ends'] != spec_ends(t):
            bad_ends.append({'t': t, 'model': m['ends'], 'standard_rule': spec_ends(t)})
            continue
        ends_true += m['ends']
        if spec_ends(t) == py_ends(t) and '\x00' not in t:
            agree_class += 1
            sc = html_scripts('<html><script>' + t + '</script><p>z</p></html>')
            observed = not (sc and sc[0][1] == t)
            if observed != m['ends']:
                bad_ends.append({'t': t, 'model': m['ends'], 'html.parser_ended_early': observed})
    ctx.obligation('correspondence:html.parser-vs-scriptDataEnds', 'correspondence', not bad_ends, cases=len(texts),
                   error=json.dumps(bad_ends[0])[:1500] if bad_ends else None)
    # ---- embed + placeholder chain on small synthetic templates, through the real write_summary_file_vue
    nsp = 60 if ctx.quick else 1500
    sp_cases, sp_obs = [], []
    for i in range(nsp):
        case = gen_case(r, {'adversarial': True, 'lone': False, 'collide': False, 'views': False, 'date_fields': False})
        case['txns'] = case['txns'][:4]
        template, css, js = gen_template(r)
        td = os.path.join(impl.tmp, 'tpl%d' % i)
        write_templates(td, template, css, js)
        try:
            stats = impl.analyse(case)
            text, dumps, d = impl.html(stats, case, embedded=True, template_dir=td)
            shutil.rmtree(d, ignore_errors=True)
        except Exception as e:
            continue
        finally:
            shutil.rmtree(td, ignore_errors=True)
        if not dumps:
            sp_obs.append(None)
            sp_cases.append(None)
            continue
        sp_cases.append((template, css, js, dumps[-1]))
        sp_obs.append(text)
    reqs, idx = [], []
    for i, c in enumerate(sp_cases):
        if c is None:
            continue
        reqs.append({'op': 'report', 'fn': 'embed', 't': cps(c[3])})
        idx.append(i)
    emb = drv.batch(reqs)
    reqs2 = []
    for i, e in zip(idx, emb):
        template, css, js, raw = sp_cases[i]
        for (ev, order) in VARIANTS:
            data = PREFIX + uncps(e[ev]) + ';'
            reqs2.append({'op': 'report', 'fn': 'splice', 'template': cps(template), 'css': cps(css), 'js': cps(js), 'data': cps(data),
                          'order': list(order)})
    sp = drv.batch(reqs2)
    alive = set(range(len(VARIANTS)))
    first_bad, verbatim_bad = None, None
    rescans = 0
    for n, i in enumerate(idx):
        outs = [uncps(sp[n * len(VARIANTS) + v]['out']) for v in range(len(VARIANTS))]
        match = {v for v in range(len(VARIANTS)) if outs[v] == sp_obs[i]}
        if not (alive & match) and first_bad is None:
            first_bad = {'template': sp_cases[i][0], 'css': sp_cases[i][1], 'js': sp_cases[i][2], 'implementation_html': sp_obs[i][:600],
                         'model_variants': {str(VARIANTS[v]): outs[v][:600] for v in range(len(VARIANTS))}}
        alive &= match
        # theorem `placeholder_order`: under its hypothesis the repaired order gives the verbatim splice
        rep = sp[n * len(VARIANTS) + 7]
        if rep['hyp'] and rep['out'] != rep['verbatim']:
            verbatim_bad = {'template': sp_cases[i][0]}
        if sp[n * len(VARIANTS) + 6]['out'] != sp[n * len(VARIANTS) + 7]['out']:
            rescans += 1
    none_obs = sum(1 for c in sp_cases if c is None)
    ok = bool(alive) and first_bad is None and none_obs == 0 and verbatim_bad is None and len(idx) > 0
    variant = [VARIANTS[v] for v in sorted(alive)]
    ctx.notes['impl_embed_variant'] = [{'embed': e, 'order': list(o)} for e, o in variant]
    ctx.obligation('correspondence:write_summary_file_vue-vs-embed+splice', 'correspondence', ok, cases=len(idx),
                   error=(json.dumps(first_bad or verbatim_bad or {'json.dumps not observable in report.py': none_obs})[:1500] if not ok else None))
    # the decidable hypothesis of `placeholder_order` on the REAL template files
    tpl = common.read(os.path.join(common.SRC, 'spending_report.html'))
    css = common.read(os.path.join(common.SRC, 'spending_report.css'))
    js = common.read(os.path.join(common.SRC, 'spending_report.js'))
    t2 = tpl.replace(PH['CSS'], css).replace(PH['JS'], js)
    ctx.obligation('hypothesis:real-template-has-exactly-one-data-placeholder', 'hypothesis',
                   t2.count(PH['DATA']) == 1 and tpl.count(PH['CSS']) == 1 and tpl.count(PH['JS']) == 1 and PH['JS'] not in css and PH['DATA'] not in css,
                   error='placeholder counts: %r' % {k: t2.count(v) for k, v in PH.items()})
    # ---- category view and figures
    cv_bad, fg_bad, ncv, no_scale, scales = [], [], 0, 0, {}
    reqs, metas = [], []
    for case in cases:
        try:
            stats = impl.analyse({**case, 'views': None})
        except Exception:
            continue
        bm = stats['by_merchant']
        if not all(is_scalar(n) and is_scalar(d['category'] + d['subcategory']) for n, d in bm.items()):
            continue
        # the model computes in integers; the unit is 1/S of the currency unit where S is the scale at which every amount of the case is
        # whole (cents for two-decimal amounts, 10^-3 .. 10^-6 for the sub-cent stream); amounts that are no decimals at all are left
        # to the implementation-only oracle
        S = amount_scale(case['txns'])
        if S is None:
            no_scale += 1
            continue
        scales[S] = scales.get(S, 0) + 1
        rows = []
        for n, d in bm.items():
            cat = d.get('category') or 'Uncategorized'
            cat = 'Uncategorized' if cat == 'Unknown' else cat
            rows.append({'id': cps(base_id(n)), 'cat': cps(cat), 'sub': [], 'ytd': int(round(d['total'] * S)), 'count': d['count']})
        ft = [{'merchant': cps(t['merchant']), 'amount': int(round(t['amount'] * S)),
               'income': 'income' in [x.lower() for x in t['tags']], 'transfer': 'transfer' in [x.lower() for x in t['tags']],
               'investment': 'investment' in [x.lower() for x in t['tags']]} for t in case['txns']]
        reqs.append({'op': 'report', 'fn': 'catview', 'rows': rows})
        reqs.append({'op': 'report', 'fn': 'figures', 'txns': ft})
        metas.append((case, stats, S))
    outs = drv.batch(reqs)
    for n, (case, stats, S) in enumerate(metas):
        cvm, fgm = outs[2 * n], outs[2 * n + 1]
        bm = stats['by_merchant']
        c2 = {**case, 'txns': [{k: v for k, v in t.items() if k != 'extra_fields'} for t in case['txns']], 'views': None}
        try:
            st2 = impl.analyse(c2)
            text, dumps, d = impl.html(st2, c2, embedded=True, template_dir=tdir)
            shutil.rmtree(d, ignore_errors=True)
            data = json.loads(dumps[-1])
        except Exception as e:
            cv_bad.append({'case': c2, 'error': type(e).__name__})
            continue
        ncv += 1
        kept = [mid for c in data['categoryView'].values() for s in c['subcategories'].values() for mid in s['merchants']]
        sums = {c: int(round(v['total'] * S)) for c, v in data['categoryView'].items()}
        model_kept = sorted(uncps(k) for k in cvm['kept'])
        model_sums = {uncps(k): v for k, v in cvm['sums']}
        repaired_view = len(kept) == len(bm) and sum(sums.values()) == cvm['analysed']
        if not ((sorted(kept) == model_kept and sums == model_sums) or (not cvm['distinct'] and repaired_view)):
            cv_bad.append({'merchants': list(bm), 'model_kept': model_kept, 'implementation_kept': kept, 'model_sums': model_sums,
                           'implementation_sums': sums})
        flow = {'flow_income': stats['income_total'], 'flow_spending': stats['spending_total'], 'flow_credits': stats['credits_total'],
                'flow_cash': stats['cash_flow']}
        if any(int(round(v * S)) != fgm[k] for k, v in flow.items()):
            fg_bad.append({'case': case, 'unit': '1/%d' % S, 'model': fgm, 'implementation': flow})
            continue
        from tally import analyzer
        summ = json.loads(analyzer.export_json(stats))['summary']
        jm = {'income_total': fgm['json_income'], 'credits_total': fgm['json_credits'], 'net_cash_flow': fgm['json_net']}
        jf = {'income_total': fgm['flow_income'], 'credits_total': fgm['flow_credits'],
              'net_cash_flow': fgm['flow_cash'] if fgm['flow_income'] > 0 else None}
        if S == 100:
            obs = {k: (None if summ.get(k) is None else int(round(summ[k] * 100))) for k in jm}
            bad = obs != jm and obs != jf
        else:
            # export_json rounds its summary to cents FOR DISPLAY (round(x, 2)); the model figure is exact in units of 1/S:
            # the printed figure is within half a cent of it (+ one unit for the float in between)
            obs = {k: summ.get(k) for k in jm}

            def near(model):
                return all((obs[k] is None) == (model[k] is None) and
                           (obs[k] is None or abs(obs[k] * S - model[k]) <= S / 200 + 1) for k in jm)
            bad = not near(jm) and not near(jf)
        if bad:
            fg_bad.append({'case': case, 'unit': '1/%d' % S, 'model_unrepaired': jm, 'model_repaired': jf, 'implementation': obs})
    ctx.obligation('correspondence:build_category_view-vs-categoryViewSums', 'correspondence', not cv_bad, cases=ncv,
                   error=json.dumps(cv_bad[0], default=str)[:1500] if cv_bad else None)
    ctx.obligation('correspondence:analyze_transactions/export_json-summary-vs-flow/json figures', 'correspondence', not fg_bad, cases=len(metas),
                   error=json.dumps(fg_bad[0], default=str)[:1500] if fg_bad else None)
    return {'strings': len(pool), 'ids_observed': nid, 'damaged_literals': len(muts), 'damaged_literals_still_valid': ndec_ok,
            'script_end_texts': len(texts), 'script_end_true': ends_true, 'script_end_compared_with_html.parser': agree_class,
            'splice_cases': len(idx), 'splice_cases_where_order_matters': rescans, 'category_view_cases': ncv,
            'category_view_cases_by_amount_unit': {'1/%d' % k: v for k, v in sorted(scales.items())},
            'cases_with_non_decimal_amounts_left_to_the_oracle': no_scale}


def observed_ids(data):
    """displayName -> set of ids under which the real report lists it (category view and every view)"""
    seen = {}
    for c in (data.get('categoryView') or {}).values():
        for sc in (c.get('subcategories') or {}).values():
            for mid, m in (sc.get('merchants') or {}).items():
                seen.setdefault(m.get('displayName'), set()).update({mid, m.get('id')})
    for sec in (data.get('sections') or {}).values():
        for mid, m in (sec.get('merchants') or {}).items():
            seen.setdefault(m.get('displayName'), set()).update({mid, m.get('id')})
    return seen


def alloc_correspondence(ctx, impl, idc, tdir):
    """the allocation table (Model.allocIds, theorems merchant_ids_unique / category_view_sums_unique_ids) against the ids the
    real write_summary_file_vue hands out: same name → same id, for every name of the family, and the category view built on
    the model's ids keeps the same ids and per-category sums as the real one."""
    drv = common.Driver()
    reqs, metas, bad = [], [], []
    for case in idc:
        try:
            stats = impl.analyse(case)
            text, dumps, d = impl.html(stats, case, embedded=True, template_dir=tdir)
            shutil.rmtree(d, ignore_errors=True)
            data = json.loads(dumps[-1])
        except Exception as e:
            bad.append({'case': case, 'error': type(e).__name__})
            continue
        bm = stats['by_merchant']
        if not all(is_scalar(n) and is_scalar((d.get('category') or '') + (d.get('subcategory') or '')) for n, d in bm.items()):
            continue
        # order of the make_merchant_id calls: the views (in order, non-empty ones), then by_merchant
        order = [n for sec in (stats.get('sections') or {}).values() for n, _ in sec.get('merchants', [])] + list(bm)
        distinct = list(dict.fromkeys(order))
        rows = []
        for n in distinct:
            dd = bm[n]
            cat = dd.get('category') or 'Uncategorized'
            cat = 'Uncategorized' if cat == 'Unknown' else cat
            rows.append({'id': [], 'cat': cps(cat), 'sub': [], 'ytd': int(round(dd['total'] * 100)), 'count': dd['count']})
        reqs.append({'op': 'report', 'fn': 'alloc', 'names': [cps(n) for n in order], 'rows': rows})
        metas.append((case, order, data))
    outs = drv.batch(reqs)
    nnames = 0
    for (case, order, data), m in zip(metas, outs):
        table = {uncps(k): uncps(v) for k, v in m['table']}
        nnames += len(table)
        obs = observed_ids(data)
        model = {k: {v} for k, v in table.items()}
        kept = sorted(mid for c in data['categoryView'].values() for sc in c['subcategories'].values() for mid in sc['merchants'])
        sums = {c: int(round(v['total'] * 100)) for c, v in data['categoryView'].items()}
        # the category view iterates by_merchant; its dict order after the views differs from the table's, compare as sets / maps
        if obs != model:
            bad.append({'names_in_call_order': order, 'model': table, 'implementation': {k: sorted(map(str, v)) for k, v in obs.items()}})
        elif not m['distinct'] or sorted(uncps(k) for k in m['kept']) != kept or {uncps(k): v for k, v in m['sums']} != sums \
                or m['total'] != m['analysed']:
            bad.append({'names_in_call_order': order, 'model_kept': sorted(uncps(k) for k in m['kept']), 'implementation_kept': kept,
                        'model_sums': {uncps(k): v for k, v in m['sums']}, 'implementation_sums': sums})
    ctx.obligation('correspondence:make_merchant_id(table observed in write_summary_file_vue)-vs-allocIds+categoryView', 'correspondence',
                   not bad and len(metas) > 0, cases=len(metas), error=json.dumps(bad[0], default=str)[:1500] if bad else None)
    return {'id_alloc_tables': len(metas), 'id_alloc_names': nnames}


def calendar_correspondence(ctx, calc):
    """Model/Report.lean `validDay` / `isLeap` vs datetime on a grid (every (m, d) in 0..13 x 0..32 for 16 years), and
    `monthKey` / `dayKey` / `monthsSeen` / `numMonths` vs what analyze_transactions keeps of the days of the calendar cases
    (the 'month' and 'date' of every transaction, the keys of by_month in order of appearance, num_months)."""
    import calendar
    from tally import analyzer
    drv = common.Driver()
    years = CAL_YEARS + [1000, 1600, 2001, 9999]
    grid = [[y, m, d] for y in years for m in range(0, 14) for d in range(0, 33)]
    reqs = [{'op': 'report', 'fn': 'calendar', 'days': grid}]
    metas = []
    for c in calc:
        try:
            stats = analyzer.analyze_transactions([to_impl(t) for t in c['txns']])
        except Exception:
            continue
        pos = {}
        real = []
        for t in c['txns']:
            k = pos.get(t['merchant'], 0)
            pos[t['merchant']] = k + 1
            tx = stats['by_merchant'][t['merchant']]['transactions'][k]
            real.append((tx['month'], tx['date']))
        metas.append((c, real, list(stats['by_month']), stats['num_months']))
        reqs.append({'op': 'report', 'fn': 'calendar', 'days': [list(x) for _, _, _, x in own_dates(c)]})
    outs = drv.batch(reqs)
    bad_grid = []
    for i, ((y, m, d), v, lp) in enumerate(zip(grid, outs[0]['valid'], outs[0]['leap'])):
        try:
            dt = datetime.datetime(y, m, d)
            ok, keys = True, [dt.strftime('%Y-%m'), dt.strftime('%m/%d')]
        except ValueError:
            ok, keys = False, None
        mkeys = [uncps(outs[0]['month'][i]), uncps(outs[0]['day'][i])]
        if ok != v or lp != calendar.isleap(y) or (ok and keys != mkeys):
            bad_grid.append({'day': [y, m, d], 'datetime_accepts': ok, 'validDay': v, 'isleap': calendar.isleap(y), 'isLeap': lp,
                             'strftime': keys, 'monthKey_dayKey': mkeys})
    ctx.obligation('correspondence:datetime/calendar.isleap/strftime-vs-validDay/isLeap/monthKey/dayKey', 'correspondence', not bad_grid, cases=len(grid),
                   error=json.dumps(bad_grid[0])[:800] if bad_grid else None)
    bad = []
    for (c, real, seen, nm), o in zip(metas, outs[1:]):
        model = list(zip((uncps(x) for x in o['month']), (uncps(x) for x in o['day'])))
        if model != real or [uncps(x) for x in o['months_seen']] != seen or o['num_months'] != nm or not all(o['valid']):
            bad.append({'days': [t['date'] for t in c['txns']], 'model': model, 'implementation': real,
                        'model_months_seen': [uncps(x) for x in o['months_seen']], 'by_month_keys': seen,
                        'model_num_months': o['num_months'], 'num_months': nm})
    ctx.obligation("correspondence:analyze_transactions('month','date',by_month,num_months)-vs-monthKey/dayKey/monthsSeen/numMonths",
                   'correspondence', not bad and len(metas) > 0, cases=len(metas), error=json.dumps(bad[0], default=str)[:1500] if bad else None)
    return {'calendar_grid_days': len(grid), 'calendar_cases': len(metas)}


# ------------------------------------------------------------------ verdict

REQUIRED = ('every format x verbosity renders without exception; income / spending / credits / transfers / cash flow parsed back from '
            'each format equal the analysed figures; the HTML data script, decoded by html.parser then json, contains every merchant '
            'and every transaction exactly once with equal description/amount/month/tags/source/extra fields and category sums that add up')


def conclude(ctx, prop_fail, search):
    """common.conclude without its cap of three classes: every distinct failure class gets its own VIOLATION + replay."""
    listed = {f['id']: f for f in ctx.findings_for()}
    unlisted = []

    def triage(pfs):
        for pf in pfs:
            fid = classify(pf)
            if fid and fid in listed:
                ctx.known_finding(fid, listed[fid]['what'])
            else:
                pf['would_classify_as'] = fid
                unlisted.append(pf)
    triage(prop_fail)
    broken = ctx.broken()
    if not unlisted and broken and search is not None:
        triage(search() or [])
    if unlisted:
        seen = set()
        for pf in unlisted:
            key = pf.get('class', 'x')
            if key in seen:
                continue
            seen.add(key)
            ctx.violation('counterexample', {'counterexample': pf, 'required': REQUIRED,
                                             'failing_inputs_found': sum(1 for x in unlisted if x.get('class') == key),
                                             'pre_registered_defect': pf.get('would_classify_as'),
                                             'broken_obligations': [o['name'] for o in broken]}, tag=re.sub(r'[^A-Za-z0-9]+', '-', key))
    elif broken:
        ctx.violation('broken-obligation', {'broken_obligations': broken, 'lean_log': ctx.notes.get('lean_log_tail', ''), 'required': REQUIRED,
                                            'note': 'a proof obligation or the model/implementation correspondence no longer checks; the search '
                                                    'on the real code found no input on which the property fails'}, nofail=True)


def type_totals_correspondence(ctx):
    """every report rendered by this run: the per-category typeTotals of the embedded data vs `ReportTypes.typeTotalsByCat` over
    `Gen.ReportTypes.type_contrib` (REGENERATED from report.py's own chain), the transactions fed in the order the report's loop walks
    them (category, subcategory, merchant, transaction) - so the float sums are the same additions in the same order: bit for bit"""
    feeds = TYPE_FEED[:400 if ctx.quick else 6000]
    bad, both = [], 0
    if feeds:
        drv = common.Driver()
        outs = drv.batch([{'op': 'typetotals', 'txns': [{'amount': common.float_bits(float(t['amount'])), 'tags': t['tags'], 'merchant': '',
                                                        'category': t['category'], 'subcategory': '', 'month': ''} for t in fed]}
                          for fed, _ in feeds])
        for (fed, tt), mo in zip(feeds, outs):
            got = {c: {'spending': a, 'income': b, 'investment': i, 'transfer': x} for c, a, b, i, x in mo.get('by_category', [])}
            want = {c: {k: common.float_bits(float(v)) for k, v in rec.items()} for c, rec in tt.items() if any(t['category'] == c for t in fed)}
            both += sum(1 for t in fed if sum(k in t['tags'] for k in ('income', 'investment', 'transfer')) >= 2)
            if got != want and len(bad) < 3:
                bad.append({'transactions': fed[:20], 'model': got, 'implementation': want})
    ctx.obligation('correspondence:build_category_view(typeTotals)-vs-typeTotalsByCat/type_contrib', 'correspondence', not bad, cases=len(feeds),
                   error=json.dumps(bad[0], default=str)[:1500] if bad else None)
    return {'type_totals_reports': len(feeds), 'transactions_with_two_special_tags': both}


def nontrivial(case, info):
    strs = [t['description'] for t in case['txns']] + [t['merchant'] for t in case['txns']]
    adversarial = any(re.search(r'[<"\\\u0080-\U0010ffff]|PLACEHOLDER', s) for s in strs)
    return adversarial and len({t['merchant'] for t in case['txns']}) >= 2 and info.get('html_checked')


def run(ctx):
    from .. import regen
    common.lean_phase(ctx, 'TallyVerif.Props.C12', regen.regen_c12)
    del TYPE_FEED[:]
    r = ctx.rng
    impl = Impl()
    try:
        prop_fail = []
        if ctx.replay:
            rp = json.loads(common.read(ctx.replay))
            ce = rp.get('counterexample', {})
            cases = [ce['case']] if 'case' in ce else []
            for c in cases:
                fails, info = run_case(impl, c)
                prop_fail.extend(fails)
            ctx.cov['evaluations'] = len(cases)
            conclude(ctx, prop_fail, None)
            return ctx.finish()
        n = 220 if ctx.quick else 20000
        labelled = corpus()
        cases = [c for _, c in labelled] + [gen_case(r) for _ in range(n)]
        renders, nontriv, trig = 0, set(), {'script_end': 0, 'placeholder': 0, 'collision': 0, 'date_field': 0, 'views': 0, 'lone_surrogate': 0,
                                            'all_nonpositive': 0, 'amounts_not_whole_cents': 0, 'amounts_not_decimal': 0,
                                            'category_sums_compared_under_float_order_bound': 0}
        for i, c in enumerate(cases):
            fails, info = run_case(impl, c)
            prop_fail.extend(fails)
            renders += info['renders']
            if nontrivial(c, info):
                nontriv.add(json.dumps(c, sort_keys=True))
            tg = info.get('triggers') or {}
            trig['script_end'] += bool(tg.get('script_end_spec') or tg.get('script_end_py'))
            trig['placeholder'] += bool(tg.get('placeholder_in_data'))
            names = {t['merchant'] for t in c['txns']}
            trig['collision'] += len({base_id(x) for x in names}) < len(names)
            trig['date_field'] += any('__date__' in json.dumps(t.get('extra_fields') or {}) for t in c['txns'])
            trig['views'] += bool(c.get('views'))
            trig['lone_surrogate'] += any(not is_scalar(t['description'] + t['merchant']) for t in c['txns'])
            trig['all_nonpositive'] += all(t['amount'] <= 0 for t in c['txns'])
            sc = amount_scale(c['txns'])
            trig['amounts_not_whole_cents'] += sc is not None and sc > 100
            trig['amounts_not_decimal'] += sc is None
            trig['category_sums_compared_under_float_order_bound'] += bool(info.get('html_ok')) and \
                any(not float(t['amount'] * 4).is_integer() for t in c['txns'])
        # ---- id-allocation stream: adversarial merchant-name families (all ordered small subsets + random families)
        idc = id_cases(r, ctx.quick)
        idstat = {'cases': len(idc), 'with_views': 0, 'natural_id_shared_by_two_names': 0,
                  'natural_id_equals_generated_id_of_another_name': 0, 'distinct_name_sets': set()}
        for c in idc:
            fails, info = run_case(impl, c, light=True)
            prop_fail.extend(fails)
            renders += info['renders']
            names = c['id_family']
            idstat['with_views'] += bool(c.get('views'))
            idstat['natural_id_shared_by_two_names'] += len({base_id(x) for x in names}) < len(names)
            idstat['natural_id_equals_generated_id_of_another_name'] += bool(natural_id_clash(names))
            idstat['distinct_name_sets'].add(tuple(sorted(names)))
            if info.get('html_checked'):
                nontriv.add(json.dumps(c, sort_keys=True))
        idstat['distinct_name_sets'] = len(idstat['distinct_name_sets'])
        # ---- calendar stream: edge days by position (latest / earliest / only / all on one day / one month / across a year end /
        # months without transactions in between / every month end), every format x verbosity
        calc = cal_cases(r, ctx.quick)
        calstat = {'cases': len(calc), 'by_shape': {}, 'with_views': 0, 'latest_transaction_on_29_feb': 0, 'only_day_is_29_feb': 0,
                   'earliest_transaction_on_29_feb': 0, 'latest_on_31_dec_or_1_jan': 0, 'spanning_a_year_end': 0, 'single_transaction': 0,
                   'months_without_transactions_in_between': 0, 'years': set(), 'data_through_checked_single_year': 0}
        for c in calc:
            fails, info = run_case(impl, c)
            prop_fail.extend(fails)
            renders += info['renders']
            days = [x for _, _, _, x in own_dates(c)]
            calstat['by_shape'][c['calendar']['shape']] = calstat['by_shape'].get(c['calendar']['shape'], 0) + 1
            calstat['with_views'] += bool(c.get('views'))
            calstat['latest_transaction_on_29_feb'] += max(days)[1:] == (2, 29)
            calstat['earliest_transaction_on_29_feb'] += min(days)[1:] == (2, 29)
            calstat['only_day_is_29_feb'] += set(x[1:] for x in days) == {(2, 29)}
            calstat['latest_on_31_dec_or_1_jan'] += max(days)[1:] in ((12, 31), (1, 1))
            calstat['spanning_a_year_end'] += len({y for y, _, _ in days}) > 1
            calstat['single_transaction'] += len(days) == 1
            ms = sorted({y * 12 + mo for y, mo, _ in days})
            calstat['months_without_transactions_in_between'] += any(b - a > 1 for a, b in zip(ms, ms[1:]))
            calstat['years'] |= {y for y, _, _ in days}
            calstat['data_through_checked_single_year'] += bool(info.get('data_through_checked'))
            if info.get('html_checked') and len(days) > 1:
                nontriv.add(json.dumps(c, sort_keys=True))
        calstat['years'] = '%d distinct, %d … %d' % (len(calstat['years']), min(calstat['years']), max(calstat['years']))
        try:
            corr = correspondence(ctx, impl, cases[:120 if ctx.quick else 3000], r)
            step = max(1, len(idc) // (120 if ctx.quick else 2500))
            corr.update(alloc_correspondence(ctx, impl, idc[::step], os.path.join(impl.tmp, 'tpl-id')))
            corr.update(calendar_correspondence(ctx, calc[::max(1, len(calc) // 2500)]))
            corr.update(type_totals_correspondence(ctx))
        except Exception as e:
            corr = {'error': repr(e)[:500]}
            ctx.obligation('correspondence:driver', 'correspondence', False, error=repr(e)[:800])
        ctx.cov['evaluations'] = len(cases) + len(idc) + len(calc)
        ctx.cov['traces_validated_against_impl'] = sum(v for k, v in corr.items() if isinstance(v, int) and k in
                                                       ('strings', 'ids_observed', 'damaged_literals', 'script_end_compared_with_html.parser',
                                                        'splice_cases', 'category_view_cases', 'id_alloc_tables', 'calendar_cases'))
        ctx.cov['distinct_nontrivial'] = len(nontriv)
        ctx.cov['rule'] = ('generated transaction lists (1–22 txns; amounts: 60 %% k/4 so that float sums are exact, 30 %% with 3–6 decimals — '
                           'per-mille and sub-cent fees 0.004 / 0.0049 / 0.005, fuel = litres × price per litre, converted currency = amount × '
                           'rate, thousandths, ties like 2.675 / 1.005 — and 10 %% no decimals at all (0.1 + 0.2, thirds, unrounded products); '
                           'embedded transaction amounts, merchant ytd / monthly and the money-flow figures are compared BIT FOR BIT with '
                           'the analysis (report.py rounds nothing), category / subcategory totals against the correctly rounded sum of the '
                           'analysed merchant totals within the float-summation bound γ_k·Σ|x| (k = number of additions; 0 = exact for the '
                           'k/4 amounts), figures printed by JSON / markdown to half a cent; adversarial descriptions / merchant '
                           'names / tags / sources / extra fields: script end tags in several spellings, quotes, backslashes, the three template '
                           'placeholders, format braces, BMP + astral + line-separator characters, controls, single lone surrogates; merchant '
                           'families that differ only in quotes / spaces / underscores; all-negative and all-zero totals; with and without views; '
                           'date-valued extra fields) → analyze_transactions → print_summary ×2, print_sections_summary, export_markdown ×3, '
                           'export_json ×3, write_summary_file_vue ×2; non-trivial = adversarial character in a description or merchant name, '
                           'at least two merchants, and the HTML was produced and decoded.  PLUS the id-allocation stream '
                           '(%d cases, %d distinct name sets, %d where a name\'s natural id equals the `<base>_<n>` id generated for another '
                           'name, %d with views): merchant-name families = closure of a base name under the preimages of the id '
                           'normalisation (quotes inserted, space<->underscore) and under `_n` / ` n` suffixing, incl. chains (A, A\', '
                           'A 2, A_2, A\' 2, A_2_2, …) and near misses (_1, _02, trailing _); every ordered triple (thorough: and ordered '
                           '4-subset) of a 6–8 name part of the closure, and random families of 3–8 names in random order → all formats '
                           '(light) + HTML decoded: every merchant exactly once, transactions equal, sums conserved; every such case '
                           'counts as non-trivial when the HTML was decoded.  DATES: every transaction day is a real calendar day (29–31 '
                           'included, 15 %% edge days); PLUS the calendar stream (%d cases, every format x verbosity): edge days - 29 Feb of '
                           '2000 / 2024 / 2028 / 2096 / 2400, 28 Feb, 1 Mar, 31 Dec, 1 Jan, 31 Jan, 30 Apr in 12 years from 1900 to 2400 (leap, '
                           'non-leap, century) - BY POSITION in the data set: the only transaction, the latest (%d on 29 Feb, %d on 31 Dec / 1 Jan), '
                           'the earliest (%d on 29 Feb), all transactions on that one day, one month with its first and last day, across a '
                           'year end (%d cases span years), months without transactions in between (%d), every month end of the year; list '
                           'order sorted / reversed / shuffled; %d with views.  Date oracle (all streams; expected values from the ISO day '
                           'strings by slicing): JSON by_month keys, markdown monthly breakdown rows, per-merchant (month, day) of every embedded '
                           'transaction; dataThrough = the dataThrough of the report of the latest transaction alone, when all days fall in one '
                           'calendar year (calendar stream); JSON num_months / '
                           'markdown Data Period / HTML numMonths = the analysed number of months (itself tied to the model\'s count of distinct '
                           'calendar months by the calendar correspondence)'
                           % (idstat['cases'], idstat['distinct_name_sets'], idstat['natural_id_equals_generated_id_of_another_name'],
                              idstat['with_views'], calstat['cases'], calstat['latest_transaction_on_29_feb'], calstat['latest_on_31_dec_or_1_jan'],
                              calstat['earliest_transaction_on_29_feb'], calstat['spanning_a_year_end'],
                              calstat['months_without_transactions_in_between'], calstat['with_views']))
        ctx.notes['renders'] = renders
        ctx.notes['input_classes'] = trig
        ctx.notes['id_allocation_stream'] = idstat
        ctx.notes['calendar_stream'] = calstat
        ctx.notes['correspondence'] = corr
        for lab, c in labelled[:3]:
            ctx.sample({'witness': lab, 'txns': c['txns'][:2]})
        for c in cases[len(labelled):len(labelled) + 3]:
            ctx.sample({'txns': c['txns'][:2], 'n': len(c['txns']), 'views': bool(c['views'])})

        def search():
            out = []
            for i in range(1500 if ctx.quick else 6000):
                if i % 4 == 3:
                    c = cal_case(r, r.choice(edge_days()), r.choice(CAL_SHAPES))
                else:
                    c = gen_case(r, {'adversarial': True, 'family': i % 3 == 0})
                fails, _ = run_case(impl, c, light=True)
                out.extend(fails)
                if len({f['class'] for f in out}) >= 4:
                    break
            ctx.cov['evaluations'] += i + 1
            return out

        conclude(ctx, prop_fail, search)
        return ctx.finish(extra_trusted=[
            'hand model Model/Report.lean of json.dumps string escaping, json.loads scanstring, str.replace, make_merchant_id (natural id and '
            'the memoised allocation table), build_category_view '
            'and the export_json summary, tied by differential correspondence only (no translator)',
            'strings are lists of Unicode scalar values in the model; lone surrogates are exercised on the implementation only',
            'scriptDataEnds follows the HTML standard; html.parser (CPython 3.12: </\\s*script\\s*>) is compared with it on the texts where the two '
            'rules agree; browsers, Vue and the report JavaScript are outside the model',
            'figures are parsed back from text/markdown with regular expressions written for the current layouts; for amounts that are '
            'multiples of 0.25 float arithmetic is exact and sums are compared exactly; for the sub-cent stream category sums are compared '
            'within the standard recursive-summation error bound (order of additions is not part of the property); the Lean figures / '
            'category-view models run in integer units of 10^-2 … 10^-6 per case, non-decimal amounts are implementation-oracle only; '
            'JSON values (numbers, nesting) other than strings are trusted to json'])
    finally:
        impl.close()
