"""C04 — expressions mean what the reference says.

Proof: Props/C04.lean — laws proved on the evaluator model `Expr.eval` for every oracle family,
context and scope (double negation, De Morgan, short-circuit, commutation of quiet operands,
÷0, chain = conjunction, name / attribute case — per node and for WHOLE trees (`mapNames_case`,
`same_lowered_names`: every identifier position respelled) —, ASCII letter case of text, date vs ISO, date parts,
comprehension = filter∘map, any, :=).
Tie: differential evaluator correspondence on well-typed expressions (type-directed random stream,
all small expressions over a compact grammar, boundary transactions).
Oracle on the implementation alone: the same laws as metamorphic relations, plus Python's own
comprehension / any / all / sum / len / next on the supplemental rows as the reference answer.
"""
import ast
import copy
import datetime
import json
import math

from .. import common, regen, exprs
from ..gen import exprs as GE
from ..gen import rules as GR
from . import evalcorr, rules_common as RC

ROWS = evalcorr.ROWS


def ev(text, txn, variables=None, ds=None):
    return exprs.impl_eval(text, txn, variables, ROWS if ds is None else ds, root=False)


def same(a, b):
    return exprs.same_outcome(a, b)


def as_bool(o):
    if 'ok' not in o:
        return o
    v = o['ok']
    t = v['t']
    truth = {'none': False, 'bool': v.get('v'), 'int': v.get('v') not in ('0', '-0'), 'str': v.get('v') != '', 'list': bool(v.get('v')),
             'row': bool(v.get('v')), 'date': True, 'gen': True, 'other': True}.get(t)
    if t == 'flt':
        truth = v['v'] == 'nan' or common.bits_float(v['v']) != 0.0
    if t == 'td':
        truth = v['v'] not in ('0',)
    return {'ok': {'t': 'bool', 'v': truth}}


class CaseSwap(ast.NodeTransformer):
    """upper-case every name / function name / attribute, and flip the ASCII case of the text operands the
    reference calls case-insensitive (==, !=, in, contains, startswith, anyof, normalized)"""
    CI_FUNCS = {'contains', 'startswith', 'anyof', 'normalized'}

    def __init__(self, binders):
        self.binders = binders

    def visit_Name(self, n):
        return ast.copy_location(ast.Name(id=n.id.upper(), ctx=n.ctx), n)

    def visit_Attribute(self, n):
        self.generic_visit(n)
        n.attr = n.attr.upper()
        return n

    def visit_Call(self, n):
        self.generic_visit(n)
        if isinstance(n.func, ast.Name) and n.func.id.lower() in self.CI_FUNCS:
            n.args = [ast.Constant(a.value.swapcase()) if isinstance(a, ast.Constant) and isinstance(a.value, str) and a.value.isascii() else a
                      for a in n.args]
        return n

    def visit_Compare(self, n):
        self.generic_visit(n)
        if all(isinstance(o, (ast.Eq, ast.NotEq, ast.In, ast.NotIn)) for o in n.ops):
            def sw(a):
                return ast.Constant(a.value.swapcase()) if isinstance(a, ast.Constant) and isinstance(a.value, str) and a.value.isascii() else a
            # only when no operand is a date-like literal compared with a date (ISO strings have no letters anyway)
            n.left = sw(n.left)
            n.comparators = [sw(c) for c in n.comparators]
        return n


def case_swapped(text):
    try:
        tree = ast.parse(text, mode='eval')
    except SyntaxError:
        return None
    # membership `x in [list comprehension]` compares list elements case-SENSITIVELY: leave such expressions alone
    for n in ast.walk(tree):
        if isinstance(n, ast.Compare) and any(isinstance(c, (ast.ListComp, ast.Name, ast.Subscript, ast.Call)) and isinstance(o, (ast.In, ast.NotIn))
                                              for o, c in zip(n.ops, n.comparators)):
            return None
    out = ast.unparse(ast.fix_missing_locations(CaseSwap(set()).visit(tree)))
    return out


# ------------------------------------------------------------------ whole-tree identifier respelling (theorem `mapNames_case`)

class Respell(ast.NodeTransformer):
    """Respell IDENTIFIERS only — exactly the positions `Expr.mapNames` rewrites: every `Name.id` (variable / primitive /
    data-source loads, `txn` / `field` / row receivers, function names, comprehension binders, walrus targets) and every
    `Attribute.attr` (attributes and string-method names).  Constants (text operands, `row["key"]` subscripts) are left alone.
    `spell(kind, ident)` gives the new spelling; the spellings are recorded in visit order (for the replay file)."""

    def __init__(self, spell):
        self.spell = spell
        self.seq = []
        self.kinds = {}

    def _new(self, kind, ident):
        new = self.spell(kind, ident)
        self.seq.append(new)
        if new != ident:
            self.kinds[kind] = self.kinds.get(kind, 0) + 1
        return new

    def visit_Name(self, n):
        kind = 'binder-or-walrus-target' if isinstance(n.ctx, ast.Store) else 'name'
        return ast.copy_location(ast.Name(id=self._new(kind, n.id), ctx=n.ctx), n)

    def visit_Call(self, n):
        if isinstance(n.func, ast.Name):
            n.func = ast.copy_location(ast.Name(id=self._new('function', n.func.id), ctx=n.func.ctx), n.func)
        elif isinstance(n.func, ast.Attribute):
            n.func.value = self.visit(n.func.value)
            n.func.attr = self._new('method', n.func.attr)
        else:
            n.func = self.visit(n.func)
        n.args = [self.visit(a) for a in n.args]
        return n

    def visit_Attribute(self, n):
        n.value = self.visit(n.value)
        n.attr = self._new('attribute', n.attr)
        return n


def random_case(r, ident):
    return ''.join(c.upper() if r.random() < 0.5 else c.lower() for c in ident)


def respelled(r, body, mode, seq=None):
    """(new tree, recorded spellings, table-or-None, kinds touched).  Modes: 'upper', 'lower', 'table' (one random spelling per
    identifier), 'each' (a random spelling per OCCURRENCE: a binder `X` may be used as `x`), 'seq' (replay of recorded spellings)."""
    table = None
    if mode == 'upper':
        spell = lambda k, i: i.upper()
    elif mode == 'lower':
        spell = lambda k, i: i.lower()
    elif mode == 'table':
        table = {}
        def spell(k, i):
            if i not in table:
                table[i] = random_case(r, i)
            return table[i]
    elif mode == 'each':
        spell = lambda k, i: random_case(r, i)
    else:
        it = iter(seq)
        spell = lambda k, i: next(it)
    t = Respell(spell)
    new = t.visit(copy.deepcopy(body))
    return new, t.seq, table, t.kinds


def ev_tree(body, txn, variables=None, ds=None):
    """the real evaluator on an AST (no unparse / re-parse: `None`, `True`, `in` … are tokens, not identifiers, in TEXT)"""
    def go():
        from tally import expr_parser as EP
        ctx = EP.TransactionContext.from_transaction(txn, variables, ROWS if ds is None else ds)
        return EP.TransactionEvaluator(ctx).evaluate(body)
    return exprs.impl_outcome(go)


# every identifier position of the language, written out (BASE_TXN, NAME_VARS, ROWS)
NAME_VARS = {'is_large': False, 'lbl': 'uber eats 123 seattle', 'half': 22.75, 'm0': []}
NAME_POSITIONS = [
    'amount + month + year + day + weekday', 'description + source', 'date', 'true and not false', 'lbl + description', 'half * 2 if is_large else half',
    'txn.amount + txn.month + txn.year + txn.day + txn.weekday', 'txn.description + txn.source + txn.location', 'txn.date', 'txn.nope', 'txn.true',
    'field.memo + field.type', 'field.description + field.source + field.location', 'field.amount', 'field.date', 'field.nope',
    'exists(field.memo) and not exists(field.nope)', 'exists(nosuchvar)', 'exists(description, 1)',
    'rows[0].item', 'rows[0].amount + orders[0].amount', 'len(rows) + len(orders) + len(empty)', 'rows[0]["item"]', 'rows[0].nope', 'amount.item', 'lbl.item',
    '[r.item for r in rows if r.amount > 1]', '[x.item + y.item for x in rows for y in orders if x.amount > y.amount]',
    '[r.item for r in rows if r.amount > 1 if r.item != "pen"]', '[[y.amount + x.amount for y in orders] for x in rows]',
    'sum(r.amount for r in rows)', 'sum((r.amount for r in rows), 1)', 'sum((r.amount for r in rows), "a")', 'sum([r.amount for r in rows], half)',
    'any(r.item == "pen" for r in rows)', 'all(r.amount > 0 for r in rows)', 'any([r.amount > 40 for r in rows])', 'all(rows)',
    'next(r.item for r in rows if r.amount < 1)', 'next((r.item for r in empty), "none")', 'next(r for r in empty)', 'next(rows)', 'next(rows, 1)',
    'min(r.amount for r in rows)', 'max(r.amount for r in rows)', 'min(amount, 3, month)', 'max(1, amount)', 'min([r.amount for r in rows])',
    'max(empty)', 'min((r.amount for r in rows), 1)', 'len(r for r in rows)', 'exists(r for r in rows)', 'exists((r for r in rows), 1)',
    'contains(r for r in rows)', 'abs(r for r in rows)', 'trim((r for r in rows))', 'nosuchfn(r for r in rows)',
    '(m := [r.item for r in rows]) and len(m) == 3', 'len(m := [r.item for r in rows]) + len(m)', '(k := amount * 2) + k',
    '(amount := 1) + amount + txn.amount', '[(k := r.amount) + k for r in rows]', 'any(r.amount == 3 for r in rows) and r.item',
    '[r for r in rows][0].item', '[r for r in rows if r.amount < 1][0].item.upper()',
    'description.lower()', 'description.upper().strip()', 'description.startswith("UBER")', 'description.endswith("tle")',
    'description.replace("UBER", "x")', 'description.title()', 'description.startswith()', 'description.replace("a")', 'amount.lower()',
    'rows[0].item.lower().startswith("b")', 'field.memo.lower()', 'txn.description.upper()',
    'contains("uber")', 'contains(description, "EATS")', 'regex("uber\\s+eats")', 'normalized("ubereats")', 'anyof("zzz", "eats")', 'startswith("uber")',
    'fuzzy("UBER EATS 123 Seatle")', 'extract("(\\d+)")', 'split(" ", 1)', 'substring(0, 4)', 'trim("  x ")', 'regex_replace(description, "[0-9]+", "#")',
    'uppercase(source)', 'lowercase(source)', 'strip_prefix(description, "uber ")', 'strip_suffix(description, " seattle")', 'abs(0 - amount)',
    'round(amount / 3, 1)', 'nosuchfn(1)', 'nosuchvar', 'len(m0) > 0 and m0[0].item == "x"', 'len(amount)', 'len()', 'sum()', 'any(rows, 1)',
    '1 < amount < 100 <= year', '"2025-03-14" == date', 'date >= "2025-01-01" and month in [3, 4]', '"uber" in description and "x" not in source',
    'not (amount > 10 or is_large)', '-amount + (0 - half) % 7 / 2', 'amount if description else month',
]


def name_case_items(r, quick):
    items = [(t, evalcorr.BASE_TXN, NAME_VARS, ROWS, 'positions') for t in NAME_POSITIONS]
    items += list(evalcorr.random_items(r, 700 if quick else 12000, ill=0.0, depth=3))
    small = list(evalcorr.small_items(1))
    items += r.sample(small, min(len(small), 300 if quick else 3000))
    return items


def name_case_run(r, items, modes=('upper', 'lower', 'table', 'each')):
    """→ (property failures on the implementation alone, model-vs-implementation disagreements on the respelled trees,
    mapNames-vs-NodeTransformer tree disagreements, stats)"""
    from tally import expr_parser as EP
    fails, corr_cases, corr_meta, tree_cases, tree_meta = [], [], [], [], []
    stats = {'expressions': 0, 'respellings': 0, 'changed_positions': {}, 'outcomes': {}}
    for text, txn, variables, ds, label in items:
        try:
            body = EP.parse_expression(text).body
        except EP.ExpressionError:
            continue
        if not text.isascii():
            continue
        stats['expressions'] += 1
        base = ev_tree(copy.deepcopy(body), txn, variables, ds)
        key = 'ok' if 'ok' in base else (base['err'] if base['err'] == 'expr' else base['cls'])
        stats['outcomes'][key] = stats['outcomes'].get(key, 0) + 1
        cj = exprs.ctx_json(txn, variables, ds)
        for mode in modes:
            new, seq, table, kinds = respelled(r, body, mode)
            if not any(kinds.values()):
                continue
            stats['respellings'] += 1
            for k, v in kinds.items():
                stats['changed_positions'][k] = stats['changed_positions'].get(k, 0) + v
            got = ev_tree(copy.deepcopy(new), txn, variables, ds)
            shown = ast.unparse(new)
            if not same(base, got) and not (('ok' in base and exprs.nan_in(base['ok'])) and ('ok' in got and exprs.nan_in(got['ok']))):
                fails.append({'class': 'name-case', 'expr': text, 'mode': mode, 'spellings': seq, 'respelled': shown, 'observed': base,
                              'observed_respelled': got, 'txn': RC.jtxn(txn), 'variables': variables or {}, 'sources': 'ROWS' if ds else 'none'})
            corr_cases.append({'expr': exprs.ast_json(new), 'ctx': cj, 'convert_py': False})
            corr_meta.append((shown, got, text, mode))
            if mode != 'each':
                rename = mode if table is None else [[k, v] for k, v in table.items()]
                tree_cases.append({'op': 'eval', 'dump': True, 'expr': exprs.ast_json(body), 'ctx': cj, 'oracle': [], 'rename': rename})
                tree_cases.append({'op': 'eval', 'dump': True, 'expr': exprs.ast_json(new), 'ctx': cj, 'oracle': []})
                tree_meta.append((text, mode, shown))
    dis = []
    n_corr = 0
    for (shown, got, text, mode), m in zip(corr_meta, exprs.model_eval(corr_cases)):
        if m.get('err') == 'unmodelled' or ('ok' in got and exprs.nan_in(got['ok'])):
            continue
        n_corr += 1
        if not same(m, got):
            dis.append({'expr': shown, 'respelling_of': text, 'mode': mode, 'model': {x: y for x, y in m.items() if x != 'scope'}, 'implementation': got})
    outs = common.Driver().batch(tree_cases)
    tree_dis = []
    for k, (text, mode, shown) in enumerate(tree_meta):
        a, b = outs[2 * k].get('dump'), outs[2 * k + 1].get('dump')
        if a is None or a != b:
            tree_dis.append({'expr': text, 'mode': mode, 'Expr.mapNames': a, 'NodeTransformer': b, 'respelled': shown})
    stats['model_vs_impl'] = n_corr
    stats['trees'] = len(tree_meta)
    return fails, dis, tree_dis, stats


def name_case_replay(ce):
    from tally import expr_parser as EP
    txn = RC.untxn(ce['txn'])
    ds = ROWS if ce.get('sources') == 'ROWS' else {}
    body = EP.parse_expression(ce['expr']).body
    new, _, _, _ = respelled(None, body, 'seq', ce['spellings'])
    return not same(ev_tree(copy.deepcopy(body), txn, ce.get('variables'), ds), ev_tree(new, txn, ce.get('variables'), ds))


def law_failures(r, txn, variables, ds):
    """Metamorphic laws on the real evaluator. Returns list of failure dicts."""
    fails = []
    vars_typed = {'is_large': ('bool', txn['amount'] > 100), 'lbl': ('str', txn['description'].lower())}
    vs = {k: v for k, (t, v) in vars_typed.items()}
    env = GE.Env(txn, vars_typed, ds)
    a = GE.gen_expr(r, env, 'bool', depth=2)
    b = GE.gen_expr(r, env, 'bool', depth=2)
    n1, n2, n3 = (GE.gen_expr(r, env, 'num', depth=1) for _ in range(3))

    def chk(cls, lhs, rhs, conv=None):
        x, y = ev(lhs, txn, vs, ds), ev(rhs, txn, vs, ds)
        if conv:
            y = conv(y)
        if not same(x, y):
            fails.append({'class': cls, 'lhs': lhs, 'rhs': rhs, 'observed_lhs': x, 'observed_rhs': y, 'txn': RC.jtxn(txn),
                          'expr': lhs})
    chk('double-negation', f'not not ({a})', f'({a})', as_bool)
    chk('de-morgan-and', f'not (({a}) and ({b}))', f'(not ({a})) or (not ({b}))')
    chk('de-morgan-or', f'not (({a}) or ({b}))', f'(not ({a})) and (not ({b}))')
    oa, ob = ev(a, txn, vs, ds), ev(b, txn, vs, ds)
    if 'ok' in oa and 'ok' in ob and ':=' not in a + b:
        chk('and-commutes', f'({a}) and ({b})', f'({b}) and ({a})')
        chk('or-commutes', f'({a}) or ({b})', f'({b}) or ({a})')
    o1, o2, o3 = (ev(x, txn, vs, ds) for x in (n1, n2, n3))
    if all('ok' in o for o in (o1, o2, o3)) and ':=' not in n1 + n2 + n3:
        for p, q in (('<', '<='), ('<=', '>'), ('==', '<'), ('>=', '!=')):
            chk('chain-vs-conjunction', f'({n1}) {p} ({n2}) {q} ({n3})', f'(({n1}) {p} ({n2})) and (({n2}) {q} ({n3}))')
    chk('division-by-zero', f'({n1}) / (({n2}) - ({n2}))' if ('ok' in o1 and 'ok' in o2 and not _nonfinite(o2) and ':=' not in n1 + n2) else '1 / 0', '0')
    chk('modulo-by-zero', f'({n1}) % 0' if 'ok' in o1 else '1 % 0', '0')
    sw = case_swapped(a)
    if sw:
        chk('letter-case', a, sw)
    return fails


FALSE_GUARDS = ['contains("ZZZQ")', 'len(rows) > 99', 'startswith("zzzz")', 'amount > 1000000000000', 'regex("^zzz$")', 'false',
                'len([r for r in rows if r.amount > 1000000000]) > 0', 'anyof("QQQ", "ZZZ")', 'normalized("qqqq")', 'month == 13', 'fuzzy("QQQQQQQQ")',
                'len(m) > 0', 'description == "no such line"']
TRUE_GUARDS = ['len(rows) >= 0', 'amount == amount', 'true', 'contains("")', 'len(description) >= 0', 'not contains("ZZZQ")', 'month >= 0', 'len(m) == 0']
PARTIAL = ['nosuchvar', 'field.nope == "x"', 'rows[99].item == "x"', '[r for r in rows if r.amount > 1000000000][0].item == "Book"', 'amount > "x"',
           'next(r for r in rows if r.amount > 1000000000)', 'regex("(")', '1 < description', 'm[0].item == "Book"', 'contains(5)',
           'extract("(") == ""', 'max(r.amount for r in m) > 1']


def short_circuit_items(r, n):
    """(text, must) pairs: `must` is 'false' / 'true' / 'error' — what left-to-right short-circuit evaluation gives."""
    out = []
    for _ in range(n):
        g0, g1, p = r.choice(FALSE_GUARDS), r.choice(TRUE_GUARDS), r.choice(PARTIAL)
        k = r.random()
        if k < 0.3:
            out.append((f'{g0} and {p}', 'false'))
        elif k < 0.5:
            out.append((f'{g1} or {p}', 'true'))
        elif k < 0.6:
            out.append((f'{g1} and {g0} and {p}', 'false'))
        elif k < 0.7:
            out.append((f'({g0} or {g1}) or {p}', 'true'))
        elif k < 0.8:
            out.append((f'{p} and {g0}', 'error'))
        elif k < 0.9:
            out.append((f'{p} or {g1}', 'error'))
        else:
            out.append((f'{g1} and {p}', 'error'))
    return out


SC_VARS = {'m': []}      # `m`: an empty list bound by the user (the documented guard idiom `len(m) > 0 and m[0].x == …`)


def short_circuit_failures(r, txn, n):
    fails = []
    for text, must in short_circuit_items(r, n):
        o = ev(text, txn, SC_VARS)
        got = 'error' if 'ok' not in o else ('true' if as_bool(o)['ok']['v'] else 'false')
        if got != must:
            fails.append({'class': 'short-circuit', 'expr': text, 'observed': o, 'required': must, 'txn': RC.jtxn(txn), 'variables': {'m': []}})
    return fails


LITERALS = ['CAFÉ\u00a0ROMA', 'ＡＭＡＺＯＮ', 'ﬁne', '™', '½ OFF', 'A\u2009B', 'ROMA', 'AMAZON', 'netflix.com', 'US*AB12', '*STEAM', 'A+B', '(x', '[y', 'a|b', 'c?d', '^UBER', 'UBER$', 'a\\\\b', 'x{2}', '$5', 'J.CREW', 'T?J', 'AT&T', '#45']
LITERAL_DESCRIPTIONS = ['CAFÉ\u00a0ROMA 12', 'ＡＭＡＺＯＮ ＭＫＴＰ', 'ﬁne foods™', '½ OFF SALE', 'A\u2009B STORE', 'CAFÉ ROMA', 'AMAZON MKTP', 'NETFLIXXCOM 12', 'NETFLIX.COM 12', 'US*AB12 STORE', 'USAB12 STORE', 'USSSAB12', '*STEAM GAMES', 'STEAM GAMES', 'A+B MARKET',
                        'AAB MARKET', 'UBER (x TRIP', 'a|b shop', 'a shop', 'cd', 'c?d', 'UBER$ x', 'xUBER', '^UBER', 'xx', 'x{2}', 'J.CREW', 'JXCREW',
                        'TJ MAXX', 'T?J', 'pay $5', 'AT&T #45']


def literal_failures(r, n):
    """contains / startswith / anyof take TEXT, not patterns: the reference reading is Python's `in` / str.startswith on upper-cased text."""
    fails = []
    for _ in range(n):
        desc = r.choice(LITERAL_DESCRIPTIONS)
        txn = {'description': desc, 'amount': 1.0, 'field': None, 'source': None, 'location': None}
        p1, p2 = r.choice(LITERALS), r.choice(LITERALS)
        q1, q2 = p1.replace('\\\\', '\\'), p2.replace('\\\\', '\\')
        U = desc.upper()
        for text, want in ((f'contains("{p1}")', q1.upper() in U), (f'startswith("{p1}")', U.startswith(q1.upper())),
                           (f'anyof("{p1}", "{p2}")', q1.upper() in U or q2.upper() in U),
                           (f'anyof("{p2}")', q2.upper() in U), (f'"{p1}" in description', q1.upper() in U)):
            o = ev(text, txn)
            if not same(o, {'ok': exprs.val_json(want)}):
                fails.append({'class': 'literal-text', 'expr': text, 'observed': o, 'required': {'ok': exprs.val_json(want)}, 'txn': RC.jtxn(txn)})
        for text, want in ((f'description == "{desc}"', True), ('len(description)', len(desc)), ('substring(0, 3)', desc[0:3]),
                           ('uppercase(description)', desc.upper()), ('split(" ", 0)', desc.split(' ')[0].strip())):
            o = ev(text, txn)
            if '"' not in desc and not same(o, {'ok': exprs.val_json(want)}):
                fails.append({'class': 'literal-text', 'expr': text, 'observed': o, 'required': {'ok': exprs.val_json(want)}, 'txn': RC.jtxn(txn)})
        x, y = ev(f'anyof("{p1}", "{p2}")', txn), ev(f'contains("{p1}") or contains("{p2}")', txn)
        if not same(x, y):
            fails.append({'class': 'anyof-vs-or-of-contains', 'lhs': f'anyof("{p1}", "{p2}")', 'rhs': f'contains("{p1}") or contains("{p2}")',
                          'observed_lhs': x, 'observed_rhs': y, 'txn': RC.jtxn(txn), 'expr': f'anyof("{p1}", "{p2}")'})
    return fails


NORM_DESCRIPTIONS = ['WHOLE\tFOODS MKT', 'WHOLE\u00a0FOODS', 'WHOLE\u2009FOODS 12', 'WHOLE FOODS', 'WHOLEFOODS', "TRADER JOE'S #5", 'TRADER  JOES', 'TRADER-JOE.S', 'A*B C',
                     'WHOLE\u3000FOODS', 'WHOLE\nFOODS', 'whole.foods', 'WHOLE FOOD']
NORM_PATTERNS = ['WHOLEFOODS', 'WHOLE FOODS', 'whole-foods', 'TRADERJOES', "TRADER JOE'S", 'ABC', 'WHOLE\tFOODS', 'FOODS MKT', 'wholefood']


def spec_norm(x):
    """normalized(): blanks of EVERY kind, hyphens, apostrophes, dots and asterisks do not count, letter case does not count"""
    return ''.join(ch for ch in x.upper() if not ch.isspace() and ch not in "-'.*")


def normalized_failures(r, n):
    fails = []
    for _ in range(n):
        desc, pat = r.choice(NORM_DESCRIPTIONS), r.choice(NORM_PATTERNS)
        txn = {'description': desc, 'amount': 1.0, 'field': None, 'source': None, 'location': None}
        lit = pat.replace('\\', '\\\\').replace('"', '\\"').replace('\t', '\\t').replace('\n', '\\n')
        for text, want in ((f'normalized("{lit}")', spec_norm(pat) in spec_norm(desc)), (f'not normalized("{lit}")', spec_norm(pat) not in spec_norm(desc))):
            o = ev(text, txn)
            if not same(o, {'ok': exprs.val_json(want)}):
                fails.append({'class': 'normalized-ignores-blanks-and-punctuation', 'expr': text, 'observed': o, 'required': {'ok': exprs.val_json(want)},
                              'txn': RC.jtxn(txn)})
    return fails


VALUE_OPERANDS = ['amount', 'source', 'description', '0', '""', '"x"', 'rows', 'empty', 'len(rows)', 'field.memo', '(m2 := rows)', 'amount - amount',
                  'trim(description)', 'month', 'date', '1.5', 'extract("(ZZZQ)")', 'true', 'false']


def boolean_result_failures(r, txn, n):
    """`and` / `or` are BOOLEAN: whatever the operands evaluate to, the result is True or False (their truth values combined)"""
    fails = []
    t = dict(txn, field=dict(txn.get('field') or {}, memo='m'))
    for _ in range(n):
        x, y = r.choice(VALUE_OPERANDS), r.choice(VALUE_OPERANDS)
        ox, oy = ev(x, t), ev(y, t)
        if 'ok' not in ox or 'ok' not in oy:
            continue
        bx, by = as_bool(ox)['ok']['v'], as_bool(oy)['ok']['v']
        for text, want in ((f'{x} and {y}', bool(bx and by)), (f'{x} or {y}', bool(bx or by)), (f'({x} and {y}) == {str(bool(bx and by)).lower()}', True)):
            o = ev(text, t)
            if not same(o, {'ok': exprs.val_json(want)}):
                fails.append({'class': 'and-or-give-a-boolean', 'expr': text, 'observed': o, 'required': {'ok': exprs.val_json(want)}, 'txn': RC.jtxn(t)})
    return fails


def _nonfinite(o):
    v = o.get('ok', {})
    return v.get('t') == 'flt' and (v['v'] == 'nan' or math.isinf(common.bits_float(v['v'])))


SHADOW = {'amount': 7, 'description': 'vardesc', 'month': 99, 'year': 1, 'day': 77, 'weekday': 9, 'source': 'VARSRC', 'rows': 5, 'orders': 6}
NEAR = [(100.004, 100), (99.996, 100), (0.004, 0), (-0.004, 0), (0.1 + 0.2, 0.3), (1e-9, 0), (100.0049999, 100.005), (33.335, 33.33),
        (2.675, 2.67), (1.0000000000000002, 1), (5e-324, 0), (1234567.891, 1234567.89), (100, 100.0), (0.30000000000000004, 0.3)]


def resolution_items():
    """(text, variables, python value): a user variable named like a transaction primitive or a data source wins over it
    (documented order: comprehension / := scope, user variables, transaction primitives, data sources); a binder wins over both"""
    out = []
    for name, val in SHADOW.items():
        out.append((name, {name: val}, val))
        out.append((name.upper(), {name: val}, val))
        out.append((f'{name} == {val!r}', {name: val}, True))
        src = 'orders' if name == 'rows' else 'rows'
        out.append((f'len([{name} for {name} in {src}])', {name: val}, len(ROWS[src])))
        out.append((f'({name} := 3) + {name}', {name: val}, 6))
    out.append(('amount + txn.amount', {'amount': 7}, None))          # txn.<name> still reads the transaction
    return out


def resolution_failures(txn):
    fails = []
    for text, vs, val in resolution_items():
        if val is None:
            val = 7 + txn['amount']
        o = ev(text, txn, vs)
        exp = {'ok': exprs.val_json(val)}
        if not same(o, exp):
            fails.append({'class': 'name-resolution-order', 'expr': text, 'variables': vs, 'observed': o, 'required': exp, 'txn': RC.jtxn(txn)})
    return fails


def near_items():
    out = []
    for x, y in NEAR:
        for op in ('==', '!=', '<', '<=', '>', '>='):
            out.append((f'{x!r} {op} {y!r}', eval(f'{x!r} {op} {y!r}')))
            out.append((f'{y!r} {op} {x!r}', eval(f'{y!r} {op} {x!r}')))
        out.append((f'{y!r} <= {x!r} == {y!r}', eval(f'{y!r} <= {x!r} == {y!r}')))
        out.append((f'{x!r} - {y!r} == 0', eval(f'{x!r} - {y!r} == 0')))
    return out


def near_failures():
    """numbers that are nearly equal compare as Python compares them (no tolerance anywhere)"""
    fails = []
    t = {'description': 'x', 'amount': 0.0, 'field': None, 'source': None, 'location': None}
    for text, val in near_items():
        o = ev(text, t)
        if not same(o, {'ok': exprs.val_json(val)}):
            fails.append({'class': 'comparison-of-nearly-equal-numbers', 'expr': text, 'observed': o, 'required': {'ok': exprs.val_json(val)}, 'txn': RC.jtxn(t)})
    for x, y in NEAR:
        tt = dict(t, amount=float(x))
        for text, val in ((f'amount == {y!r}', float(x) == y), (f'amount != {y!r}', float(x) != y), (f'amount <= {y!r}', float(x) <= y),
                          (f'amount < {y!r} or amount == {y!r}', float(x) < y or float(x) == y)):
            o = ev(text, tt)
            if not same(o, {'ok': exprs.val_json(val)}):
                fails.append({'class': 'comparison-of-nearly-equal-numbers', 'expr': text, 'observed': o, 'required': {'ok': exprs.val_json(val)}, 'txn': RC.jtxn(tt)})
    return fails


def reference_failures(txn):
    """dates, date parts and comprehension-style constructs against Python's own answer."""
    fails = []
    d = txn.get('date')
    rows = ROWS['rows']

    def want(cls, text, value):
        o = ev(text, txn)
        exp = {'ok': exprs.val_json(value)}
        if not same(o, exp):
            fails.append({'class': cls, 'expr': text, 'observed': o, 'required': exp, 'txn': RC.jtxn(txn)})
    if d:
        for delta in (-31, -1, 0, 1, 400):
            iso = (d + datetime.timedelta(days=delta)).isoformat()
            other = d + datetime.timedelta(days=delta)
            for op, fn in (('>=', d >= other), ('<', d < other), ('==', d == other), ('!=', d != other), ('<=', d <= other), ('>', d > other)):
                want('date-vs-iso', f'date {op} "{iso}"', fn)
                want('date-vs-iso', f'"{iso}" {op} date', {'>=': other >= d, '<': other < d, '==': other == d, '!=': other != d,
                                                           '<=': other <= d, '>': other > d}[op])
        want('date-parts', 'month', d.month); want('date-parts', 'year', d.year)
        want('date-parts', 'day', d.day); want('date-parts', 'weekday', d.weekday())
    else:
        for nme in ('month', 'year', 'day', 'weekday'):
            want('date-parts', nme, 0)
    a = txn['amount']
    want('comprehension', '[r.item for r in rows if r.amount > 1]', [r['item'] for r in rows if r['amount'] > 1])
    want('comprehension', '[r.amount * 2 for r in rows]', [r['amount'] * 2 for r in rows])
    want('comprehension', 'len([r for r in rows if r.amount < amount])', len([r for r in rows if r['amount'] < a]))
    want('any', 'any(r.amount > amount for r in rows)', any(r['amount'] > a for r in rows))
    want('all', 'all(r.amount > amount for r in rows)', all(r['amount'] > a for r in rows))
    want('sum', 'sum(r.amount for r in rows)', sum(r['amount'] for r in rows))
    want('sum', 'sum([r.amount for r in rows if r.amount > 1], 10)', sum([r['amount'] for r in rows if r['amount'] > 1], 10))
    want('next', 'next((r.item for r in rows if r.amount < amount), "none")', next((r['item'] for r in rows if r['amount'] < a), 'none'))
    want('min-max', 'max(r.amount for r in rows)', max(r['amount'] for r in rows))
    want('walrus', '(m := [r.item for r in rows]) and len(m) == %d' % len(rows), True)
    want('walrus', 'len(m := [r.item for r in rows]) + len(m)', 2 * len(rows))
    want('nested', '[x.item for x in rows for y in rows if x.amount > y.amount]',
         [x['item'] for x in rows for y in rows if x['amount'] > y['amount']])
    desc = txn['description']
    want('text', 'contains("' + desc[:3].swapcase().replace('"', '') + '")' if desc[:3].replace('"', '') else 'contains("")', True)
    want('text', 'substring(0, 4)', desc[0:4])
    want('text', 'split(" ", 0)', desc.split(' ')[0].strip() if desc else '')
    want('text', 'uppercase(description)', desc.upper())
    want('text', 'trim(description)', desc.strip())
    return fails


def run(ctx):
    lo = common.lean_phase(ctx, 'TallyVerif.Props.C04', regen.regen_expr_tables)
    r = ctx.rng
    prop_fail = []
    # correspondence: well-typed random stream + all small expressions
    nrand = 2500 if ctx.quick else 120000
    items = list(evalcorr.random_items(r, nrand, ill=0.0, depth=3))
    n1, dis1, st1 = evalcorr.run_stream(items, root=False)
    small = list(evalcorr.small_items(1))
    if not ctx.quick:
        lvl2 = list(evalcorr.small_items(2))
        small += r.sample(lvl2, min(len(lvl2), 150000))
    n2, dis2, st2 = evalcorr.run_stream(small, root=False)
    ctx.obligation('correspondence:well-typed random expressions, TransactionEvaluator-vs-Expr.eval', 'correspondence', not dis1,
                   cases=n1, error=json.dumps(dis1[0], default=str)[:1500] if dis1 else None)
    ctx.obligation('correspondence:all small expressions over the compact grammar × boundary transactions', 'correspondence', not dis2,
                   cases=n2, error=json.dumps(dis2[0], default=str)[:1500] if dis2 else None)
    # guards in front of partial operands (an operand that raises unless the guard short-circuits), and text taken literally
    sc_items = [(text, GR.gen_txn(r), SC_VARS, ROWS, 'short-circuit') for text, _ in short_circuit_items(r, 400 if ctx.quick else 8000)]
    for _ in range(150 if ctx.quick else 3000):
        t_lit = {'description': r.choice(LITERAL_DESCRIPTIONS), 'amount': 1.0, 'field': None, 'source': None, 'location': None}
        p1, p2 = r.choice(LITERALS), r.choice(LITERALS)
        sc_items.append((r.choice([f'contains("{p1}")', f'startswith("{p1}")', f'anyof("{p1}", "{p2}")', f'"{p1}" in description']), t_lit, None, ROWS, 'literal'))
    for text, vs, _ in resolution_items():
        sc_items.append((text, evalcorr.BASE_TXN, vs, ROWS, 'resolution'))
    for _ in range(150 if ctx.quick else 3000):
        t_n = {'description': r.choice(NORM_DESCRIPTIONS), 'amount': 1.0, 'field': None, 'source': None, 'location': None}
        pat = r.choice(NORM_PATTERNS).replace('"', '\\"').replace('\t', '\\t').replace('\n', '\\n')
        sc_items.append((f'normalized("{pat}")', t_n, None, ROWS, 'normalized'))
        x, y = r.choice(VALUE_OPERANDS), r.choice(VALUE_OPERANDS)
        sc_items.append((f'{x} {r.choice(["and", "or"])} {y}', evalcorr.BASE_TXN, None, ROWS, 'boolean-result'))
    for text, _ in near_items():
        sc_items.append((text, evalcorr.BASE_TXN, None, ROWS, 'near'))
    n5, dis5, st5 = evalcorr.run_stream(sc_items, root=False)
    ctx.obligation('correspondence:guarded partial operands (short-circuit) and literal text arguments', 'correspondence', not dis5,
                   cases=n5, error=json.dumps(dis5[0], default=str)[:1500] if dis5 else None)
    # identifiers respelled over whole trees (Props/C04 `mapNames_case`, `same_lowered_names`)
    nc_fail, nc_dis, nc_tree, nc_stats = ([], [], [], {}) if ctx.replay else name_case_run(r, name_case_items(r, ctx.quick))
    if not ctx.replay:
        ctx.obligation('correspondence:Expr.mapNames-vs-ast.NodeTransformer over Name.id / Attribute.attr (tree against tree: upper, lower, per-identifier table)',
                       'correspondence', not nc_tree, cases=nc_stats['trees'], error=json.dumps(nc_tree[0], default=str)[:1500] if nc_tree else None)
        ctx.obligation('correspondence:respelled identifiers at every position (binders, walrus targets, functions, methods, attributes), TransactionEvaluator-vs-Expr.eval',
                       'correspondence', not nc_dis, cases=nc_stats['model_vs_impl'], error=json.dumps(nc_dis[0], default=str)[:1500] if nc_dis else None)
        ctx.notes['name_case'] = nc_stats
        prop_fail.extend(nc_fail)
    # how constant are the generated conditions?
    const = total = 0
    for text, txn, variables, ds, label in items[:400]:
        if label != 'random:bool':
            continue
        outs = set()
        for t2 in (txn, evalcorr.BASE_TXN, {'description': 'zzz', 'amount': -1.0, 'field': None, 'source': None, 'location': None},
                   dict(txn, amount=-(txn['amount'] or 1) * 3, description=txn['description'][::-1])):
            outs.add(json.dumps(exprs.impl_eval(text, t2, variables, ds, root=False), sort_keys=True))
        total += 1
        const += len(outs) == 1
    ctx.notes['fraction_of_constant_conditions'] = round(const / max(total, 1), 3)
    # the laws on the implementation
    nl = 0
    if ctx.replay:
        ce = json.loads(common.read(ctx.replay)).get('counterexample', {})
        if ce.get('class') == 'short-circuit':
            t = RC.untxn(ce['txn'])
            o = ev(ce['expr'], t, SC_VARS)
            got = 'error' if 'ok' not in o else ('true' if as_bool(o)['ok']['v'] else 'false')
            if got != ce['required']:
                prop_fail.append(ce)
        elif ce.get('class') == 'name-case':
            if name_case_replay(ce):
                prop_fail.append(ce)
        elif 'lhs' in ce:
            t = RC.untxn(ce['txn'])
            vs = {'is_large': t['amount'] > 100, 'lbl': t['description'].lower()}
            x, y = ev(ce['lhs'], t, vs), ev(ce['rhs'], t, vs)
            if ce['class'] == 'double-negation':
                y = as_bool(y)
            if not same(x, y):
                prop_fail.append(ce)
        elif 'expr' in ce and 'required' in ce:
            t = RC.untxn(ce['txn'])
            if not same(ev(ce['expr'], t), ce['required']):
                prop_fail.append(ce)
    else:
        nlaw = 300 if ctx.quick else 12000
        for _ in range(nlaw):
            txn = GR.gen_txn(r)
            prop_fail.extend(law_failures(r, txn, None, ROWS))
            nl += 1
        for _ in range(60 if ctx.quick else 2000):
            prop_fail.extend(reference_failures(GR.gen_txn(r)))
            nl += 1
        for _ in range(40 if ctx.quick else 1500):
            prop_fail.extend(short_circuit_failures(r, GR.gen_txn(r), 10))
            nl += 10
        prop_fail.extend(normalized_failures(r, 120 if ctx.quick else 4000))
        for _ in range(20 if ctx.quick else 600):
            prop_fail.extend(boolean_result_failures(r, GR.gen_txn(r), 8))
        nl += 120 + 160
        prop_fail.extend(resolution_failures(GR.gen_txn(r)))
        prop_fail.extend(near_failures())
        prop_fail.extend(literal_failures(r, 150 if ctx.quick else 5000))
        nl += 150 if ctx.quick else 5000
        for t in (evalcorr.BASE_TXN, {'description': '', 'amount': 0.0, 'field': None, 'source': None, 'location': None},
                  {'description': 'x', 'amount': -0.01, 'date': datetime.date(2024, 12, 31), 'field': {}, 'source': '', 'location': ''},
                  {'description': 'Jan', 'amount': 0.01, 'date': datetime.date(2025, 1, 1), 'field': None, 'source': 'S', 'location': None}):
            prop_fail.extend(reference_failures(t))
    ncn = nc_stats.get('model_vs_impl', 0)
    ctx.cov['evaluations'] = n1 + n2 + n5 + nl + 2 * ncn
    ctx.cov['traces_validated_against_impl'] = n1 + n2 + n5 + ncn
    ctx.cov['distinct_nontrivial'] = len({i[0] for i in items}) + len({i[0] for i in small})
    ctx.cov['exhaustive'] = False
    ctx.cov['rule'] = ('type-directed random expressions (bool / num / str; literals drawn from the transaction\'s own words so that '
                       'conditions are not constant — measured fraction reported), ALL expressions with ≤ 1 operator (thorough: a 150k sample of '
                       '≤ 2) over a 12-leaf grammar × 3 boundary transactions, compared model vs real evaluator; then the laws of the '
                       'reference as metamorphic relations on the real evaluator and Python\'s own comprehensions as the reference answer; guards in front of partial '
                       'operands (false-guard and P = False, true-guard or P = True, P first = error) and contains/startswith/anyof/in on text full of regex '
                       'metacharacters against Python\'s own `in`/startswith; user variables named like primitives / data sources (resolution order) and '
                       'comparisons of nearly equal numbers against Python\'s own — all also run model-vs-implementation. '
                       "identifiers: every Name.id / Attribute.attr of hand-written expressions covering each identifier position + the random and small streams is "
                       "respelled (upper, lower, a random spelling per identifier, a random spelling per occurrence) — implementation alone must not change its answer, "
                       "model = implementation on the respelled tree, and the model's `Expr.mapNames` = the Python transformer tree against tree. "
                       'distinct_nontrivial = distinct expression texts evaluated')
    ctx.notes['outcomes_random'] = st1['outcomes']
    ctx.notes['outcomes_small'] = st2['outcomes']
    ctx.notes['unmodelled_skipped'] = {'random': st1['unmodelled'], 'small': st2['unmodelled']}
    for it in items[:4]:
        ctx.sample({'expr': it[0], 'txn': RC.jtxn(it[1])})

    def search():
        out = []
        for _ in range(4000):
            out.extend(law_failures(r, GR.gen_txn(r), None, ROWS))
            out.extend(short_circuit_failures(r, GR.gen_txn(r), 3))
            if not out and _ % 50 == 0:
                out.extend(name_case_run(r, [(t, evalcorr.BASE_TXN, NAME_VARS, ROWS, 'positions') for t in NAME_POSITIONS] +
                                         list(evalcorr.random_items(r, 100, ill=0.0, depth=3)))[0])
            if not out and _ % 10 == 0:
                out.extend(literal_failures(r, 5))
            if not out and _ == 0:
                out.extend(resolution_failures(GR.gen_txn(r)) + near_failures() + normalized_failures(r, 200))
            if not out:
                out.extend(boolean_result_failures(r, GR.gen_txn(r), 3))
            if out:
                break
        ctx.cov['evaluations'] += 4000
        return out

    def classify(pf):
        return None

    common.conclude(ctx, prop_fail, classify=classify, search=search,
                    required='and/or/not Boolean with left-to-right short-circuit; chain = conjunction of links; ==/!=/in and the match '
                             'functions ignore ASCII letter case; dates compare against ISO strings; month/year/day/weekday are those of the date; '
                             '÷0 and %0 give 0; comprehensions, any/all/sum/len/next and := behave like the Python construct; logically '
                             'equivalent rewritings and the letter case of function, variable, attribute and method names never change the result')
    return ctx.finish(extra_trusted=[
        'the laws are proved on the model Expr.eval; the model is tied to TransactionEvaluator by differential runs (this check and C08\'s exhaustive table)',
        'regex case-insensitivity is a law of the regex oracle (re.IGNORECASE), exercised on CPython, not proved',
        'non-ASCII case mapping is an oracle; the letter-case theorems are for ASCII text',
        'observation C04-obs (binder of an abandoned generator stays bound) is a kernel-checked example, not claimed as a law'])
