"""C04 — expressions mean what the reference says.

Proof: Props/C04.lean — laws proved on the evaluator model `Expr.eval` for every oracle family,
context and scope (double negation, De Morgan, short-circuit, commutation of quiet operands,
÷0, chain = conjunction, name / attribute case, ASCII letter case of text, date vs ISO, date parts,
comprehension = filter∘map, any, :=).
Tie: differential evaluator correspondence on well-typed expressions (type-directed random stream,
all small expressions over a compact grammar, boundary transactions).
Oracle on the implementation alone: the same laws as metamorphic relations, plus Python's own
comprehension / any / all / sum / len / next on the supplemental rows as the reference answer.
"""
import ast
import datetime
import json
import math

from .. import common, regen, exprs
from ..gen import exprs as GE
from ..gen import rules as GR
from . import evalcorr, rules_common as RC

ROWS = evalcorr.ROWS


def ev(text, txn, variables=None, ds=None):
    return exprs.impl_eval(text, txn, variables, ROWS if ds is None else ds, root=False)


def same(a, b):
    return exprs.same_outcome(a, b)


def as_bool(o):
    if 'ok' not in o:
        return o
    v = o['ok']
    t = v['t']
    truth = {'none': False, 'bool': v.get('v'), 'int': v.get('v') not in ('0', '-0'), 'str': v.get('v') != '', 'list': bool(v.get('v')),
             'row': bool(v.get('v')), 'date': True, 'gen': True, 'other': True}.get(t)
    if t == 'flt':
        truth = v['v'] == 'nan' or common.bits_float(v['v']) != 0.0
    if t == 'td':
        truth = v['v'] not in ('0',)
    return {'ok': {'t': 'bool', 'v': truth}}


class CaseSwap(ast.NodeTransformer):
    """upper-case every name / function name / attribute, and flip the ASCII case of the text operands the
    reference calls case-insensitive (==, !=, in, contains, startswith, anyof, normalized)"""
    CI_FUNCS = {'contains', 'startswith', 'anyof', 'normalized'}

    def __init__(self, binders):
        self.binders = binders

    def visit_Name(self, n):
        return ast.copy_location(ast.Name(id=n.id.upper(), ctx=n.ctx), n)

    def visit_Attribute(self, n):
        self.generic_visit(n)
        n.attr = n.attr.upper()
        return n

    def visit_Call(self, n):
        self.generic_visit(n)
        if isinstance(n.func, ast.Name) and n.func.id.lower() in self.CI_FUNCS:
            n.args = [ast.Constant(a.value.swapcase()) if isinstance(a, ast.Constant) and isinstance(a.value, str) and a.value.isascii() else a
                      for a in n.args]
        return n

    def visit_Compare(self, n):
        self.generic_visit(n)
        if all(isinstance(o, (ast.Eq, ast.NotEq, ast.In, ast.NotIn)) for o in n.ops):
            def sw(a):
                return ast.Constant(a.value.swapcase()) if isinstance(a, ast.Constant) and isinstance(a.value, str) and a.value.isascii() else a
            # only when no operand is a date-like literal compared with a date (ISO strings have no letters anyway)
            n.left = sw(n.left)
            n.comparators = [sw(c) for c in n.comparators]
        return n


def case_swapped(text):
    try:
        tree = ast.parse(text, mode='eval')
    except SyntaxError:
        return None
    # membership `x in [list comprehension]` compares list elements case-SENSITIVELY: leave such expressions alone
    for n in ast.walk(tree):
        if isinstance(n, ast.Compare) and any(isinstance(c, (ast.ListComp, ast.Name, ast.Subscript, ast.Call)) and isinstance(o, (ast.In, ast.NotIn))
                                              for o, c in zip(n.ops, n.comparators)):
            return None
    out = ast.unparse(ast.fix_missing_locations(CaseSwap(set()).visit(tree)))
    return out


def law_failures(r, txn, variables, ds):
    """Metamorphic laws on the real evaluator. Returns list of failure dicts."""
    fails = []
    vars_typed = {'is_large': ('bool', txn['amount'] > 100), 'lbl': ('str', txn['description'].lower())}
    vs = {k: v for k, (t, v) in vars_typed.items()}
    env = GE.Env(txn, vars_typed, ds)
    a = GE.gen_expr(r, env, 'bool', depth=2)
    b = GE.gen_expr(r, env, 'bool', depth=2)
    n1, n2, n3 = (GE.gen_expr(r, env, 'num', depth=1) for _ in range(3))

    def chk(cls, lhs, rhs, conv=None):
        x, y = ev(lhs, txn, vs, ds), ev(rhs, txn, vs, ds)
        if conv:
            y = conv(y)
        if not same(x, y):
            fails.append({'class': cls, 'lhs': lhs, 'rhs': rhs, 'observed_lhs': x, 'observed_rhs': y, 'txn': RC.jtxn(txn),
                          'expr': lhs})
    chk('double-negation', f'not not ({a})', f'({a})', as_bool)
    chk('de-morgan-and', f'not (({a}) and ({b}))', f'(not ({a})) or (not ({b}))')
    chk('de-morgan-or', f'not (({a}) or ({b}))', f'(not ({a})) and (not ({b}))')
    oa, ob = ev(a, txn, vs, ds), ev(b, txn, vs, ds)
    if 'ok' in oa and 'ok' in ob and ':=' not in a + b:
        chk('and-commutes', f'({a}) and ({b})', f'({b}) and ({a})')
        chk('or-commutes', f'({a}) or ({b})', f'({b}) or ({a})')
    o1, o2, o3 = (ev(x, txn, vs, ds) for x in (n1, n2, n3))
    if all('ok' in o for o in (o1, o2, o3)) and ':=' not in n1 + n2 + n3:
        for p, q in (('<', '<='), ('<=', '>'), ('==', '<'), ('>=', '!=')):
            chk('chain-vs-conjunction', f'({n1}) {p} ({n2}) {q} ({n3})', f'(({n1}) {p} ({n2})) and (({n2}) {q} ({n3}))')
    chk('division-by-zero', f'({n1}) / (({n2}) - ({n2}))' if ('ok' in o1 and 'ok' in o2 and not _nonfinite(o2) and ':=' not in n1 + n2) else '1 / 0', '0')
    chk('modulo-by-zero', f'({n1}) % 0' if 'ok' in o1 else '1 % 0', '0')
    sw = case_swapped(a)
    if sw:
        chk('letter-case', a, sw)
    return fails


FALSE_GUARDS = ['contains("ZZZQ")', 'len(rows) > 99', 'startswith("zzzz")', 'amount > 1000000000000', 'regex("^zzz$")', 'false',
                'len([r for r in rows if r.amount > 1000000000]) > 0', 'anyof("QQQ", "ZZZ")', 'normalized("qqqq")', 'month == 13', 'fuzzy("QQQQQQQQ")',
                'len(m) > 0', 'description == "no such line"']
TRUE_GUARDS = ['len(rows) >= 0', 'amount == amount', 'true', 'contains("")', 'len(description) >= 0', 'not contains("ZZZQ")', 'month >= 0', 'len(m) == 0']
PARTIAL = ['nosuchvar', 'field.nope == "x"', 'rows[99].item == "x"', '[r for r in rows if r.amount > 1000000000][0].item == "Book"', 'amount > "x"',
           'next(r for r in rows if r.amount > 1000000000)', 'regex("(")', '1 < description', 'm[0].item == "Book"', 'contains(5)',
           'extract("(") == ""', 'max(r.amount for r in m) > 1']


def short_circuit_items(r, n):
    """(text, must) pairs: `must` is 'false' / 'true' / 'error' — what left-to-right short-circuit evaluation gives."""
    out = []
    for _ in range(n):
        g0, g1, p = r.choice(FALSE_GUARDS), r.choice(TRUE_GUARDS), r.choice(PARTIAL)
        k = r.random()
        if k < 0.3:
            out.append((f'{g0} and {p}', 'false'))
        elif k < 0.5:
            out.append((f'{g1} or {p}', 'true'))
        elif k < 0.6:
            out.append((f'{g1} and {g0} and {p}', 'false'))
        elif k < 0.7:
            out.append((f'({g0} or {g1}) or {p}', 'true'))
        elif k < 0.8:
            out.append((f'{p} and {g0}', 'error'))
        elif k < 0.9:
            out.append((f'{p} or {g1}', 'error'))
        else:
            out.append((f'{g1} and {p}', 'error'))
    return out


SC_VARS = {'m': []}      # `m`: an empty list bound by the user (the documented guard idiom `len(m) > 0 and m[0].x == …`)


def short_circuit_failures(r, txn, n):
    fails = []
    for text, must in short_circuit_items(r, n):
        o = ev(text, txn, SC_VARS)
        got = 'error' if 'ok' not in o else ('true' if as_bool(o)['ok']['v'] else 'false')
        if got != must:
            fails.append({'class': 'short-circuit', 'expr': text, 'observed': o, 'required': must, 'txn': RC.jtxn(txn), 'variables': {'m': []}})
    return fails


LITERALS = ['netflix.com', 'US*AB12', '*STEAM', 'A+B', '(x', '[y', 'a|b', 'c?d', '^UBER', 'UBER$', 'a\\\\b', 'x{2}', '$5', 'J.CREW', 'T?J', 'AT&T', '#45']
LITERAL_DESCRIPTIONS = ['NETFLIXXCOM 12', 'NETFLIX.COM 12', 'US*AB12 STORE', 'USAB12 STORE', 'USSSAB12', '*STEAM GAMES', 'STEAM GAMES', 'A+B MARKET',
                        'AAB MARKET', 'UBER (x TRIP', 'a|b shop', 'a shop', 'cd', 'c?d', 'UBER$ x', 'xUBER', '^UBER', 'xx', 'x{2}', 'J.CREW', 'JXCREW',
                        'TJ MAXX', 'T?J', 'pay $5', 'AT&T #45']


def literal_failures(r, n):
    """contains / startswith / anyof take TEXT, not patterns: the reference reading is Python's `in` / str.startswith on upper-cased text."""
    fails = []
    for _ in range(n):
        desc = r.choice(LITERAL_DESCRIPTIONS)
        txn = {'description': desc, 'amount': 1.0, 'field': None, 'source': None, 'location': None}
        p1, p2 = r.choice(LITERALS), r.choice(LITERALS)
        q1, q2 = p1.replace('\\\\', '\\'), p2.replace('\\\\', '\\')
        U = desc.upper()
        for text, want in ((f'contains("{p1}")', q1.upper() in U), (f'startswith("{p1}")', U.startswith(q1.upper())),
                           (f'anyof("{p1}", "{p2}")', q1.upper() in U or q2.upper() in U),
                           (f'anyof("{p2}")', q2.upper() in U), (f'"{p1}" in description', q1.upper() in U)):
            o = ev(text, txn)
            if not same(o, {'ok': exprs.val_json(want)}):
                fails.append({'class': 'literal-text', 'expr': text, 'observed': o, 'required': {'ok': exprs.val_json(want)}, 'txn': RC.jtxn(txn)})
        x, y = ev(f'anyof("{p1}", "{p2}")', txn), ev(f'contains("{p1}") or contains("{p2}")', txn)
        if not same(x, y):
            fails.append({'class': 'anyof-vs-or-of-contains', 'lhs': f'anyof("{p1}", "{p2}")', 'rhs': f'contains("{p1}") or contains("{p2}")',
                          'observed_lhs': x, 'observed_rhs': y, 'txn': RC.jtxn(txn), 'expr': f'anyof("{p1}", "{p2}")'})
    return fails


def _nonfinite(o):
    v = o.get('ok', {})
    return v.get('t') == 'flt' and (v['v'] == 'nan' or math.isinf(common.bits_float(v['v'])))


def reference_failures(txn):
    """dates, date parts and comprehension-style constructs against Python's own answer."""
    fails = []
    d = txn.get('date')
    rows = ROWS['rows']

    def want(cls, text, value):
        o = ev(text, txn)
        exp = {'ok': exprs.val_json(value)}
        if not same(o, exp):
            fails.append({'class': cls, 'expr': text, 'observed': o, 'required': exp, 'txn': RC.jtxn(txn)})
    if d:
        for delta in (-31, -1, 0, 1, 400):
            iso = (d + datetime.timedelta(days=delta)).isoformat()
            other = d + datetime.timedelta(days=delta)
            for op, fn in (('>=', d >= other), ('<', d < other), ('==', d == other), ('!=', d != other), ('<=', d <= other), ('>', d > other)):
                want('date-vs-iso', f'date {op} "{iso}"', fn)
                want('date-vs-iso', f'"{iso}" {op} date', {'>=': other >= d, '<': other < d, '==': other == d, '!=': other != d,
                                                           '<=': other <= d, '>': other > d}[op])
        want('date-parts', 'month', d.month); want('date-parts', 'year', d.year)
        want('date-parts', 'day', d.day); want('date-parts', 'weekday', d.weekday())
    else:
        for nme in ('month', 'year', 'day', 'weekday'):
            want('date-parts', nme, 0)
    a = txn['amount']
    want('comprehension', '[r.item for r in rows if r.amount > 1]', [r['item'] for r in rows if r['amount'] > 1])
    want('comprehension', '[r.amount * 2 for r in rows]', [r['amount'] * 2 for r in rows])
    want('comprehension', 'len([r for r in rows if r.amount < amount])', len([r for r in rows if r['amount'] < a]))
    want('any', 'any(r.amount > amount for r in rows)', any(r['amount'] > a for r in rows))
    want('all', 'all(r.amount > amount for r in rows)', all(r['amount'] > a for r in rows))
    want('sum', 'sum(r.amount for r in rows)', sum(r['amount'] for r in rows))
    want('sum', 'sum([r.amount for r in rows if r.amount > 1], 10)', sum([r['amount'] for r in rows if r['amount'] > 1], 10))
    want('next', 'next((r.item for r in rows if r.amount < amount), "none")', next((r['item'] for r in rows if r['amount'] < a), 'none'))
    want('min-max', 'max(r.amount for r in rows)', max(r['amount'] for r in rows))
    want('walrus', '(m := [r.item for r in rows]) and len(m) == %d' % len(rows), True)
    want('walrus', 'len(m := [r.item for r in rows]) + len(m)', 2 * len(rows))
    want('nested', '[x.item for x in rows for y in rows if x.amount > y.amount]',
         [x['item'] for x in rows for y in rows if x['amount'] > y['amount']])
    desc = txn['description']
    want('text', 'contains("' + desc[:3].swapcase().replace('"', '') + '")' if desc[:3].replace('"', '') else 'contains("")', True)
    want('text', 'substring(0, 4)', desc[0:4])
    want('text', 'split(" ", 0)', desc.split(' ')[0].strip() if desc else '')
    want('text', 'uppercase(description)', desc.upper())
    want('text', 'trim(description)', desc.strip())
    return fails


def run(ctx):
    lo = common.lean_phase(ctx, 'TallyVerif.Props.C04', regen.regen_expr_tables)
    r = ctx.rng
    prop_fail = []
    # correspondence: well-typed random stream + all small expressions
    nrand = 2500 if ctx.quick else 120000
    items = list(evalcorr.random_items(r, nrand, ill=0.0, depth=3))
    n1, dis1, st1 = evalcorr.run_stream(items, root=False)
    small = list(evalcorr.small_items(1))
    if not ctx.quick:
        lvl2 = list(evalcorr.small_items(2))
        small += r.sample(lvl2, min(len(lvl2), 150000))
    n2, dis2, st2 = evalcorr.run_stream(small, root=False)
    ctx.obligation('correspondence:well-typed random expressions, TransactionEvaluator-vs-Expr.eval', 'correspondence', not dis1,
                   cases=n1, error=json.dumps(dis1[0], default=str)[:1500] if dis1 else None)
    ctx.obligation('correspondence:all small expressions over the compact grammar × boundary transactions', 'correspondence', not dis2,
                   cases=n2, error=json.dumps(dis2[0], default=str)[:1500] if dis2 else None)
    # guards in front of partial operands (an operand that raises unless the guard short-circuits), and text taken literally
    sc_items = [(text, GR.gen_txn(r), SC_VARS, ROWS, 'short-circuit') for text, _ in short_circuit_items(r, 400 if ctx.quick else 8000)]
    for _ in range(150 if ctx.quick else 3000):
        t_lit = {'description': r.choice(LITERAL_DESCRIPTIONS), 'amount': 1.0, 'field': None, 'source': None, 'location': None}
        p1, p2 = r.choice(LITERALS), r.choice(LITERALS)
        sc_items.append((r.choice([f'contains("{p1}")', f'startswith("{p1}")', f'anyof("{p1}", "{p2}")', f'"{p1}" in description']), t_lit, None, ROWS, 'literal'))
    n5, dis5, st5 = evalcorr.run_stream(sc_items, root=False)
    ctx.obligation('correspondence:guarded partial operands (short-circuit) and literal text arguments', 'correspondence', not dis5,
                   cases=n5, error=json.dumps(dis5[0], default=str)[:1500] if dis5 else None)
    # how constant are the generated conditions?
    const = total = 0
    for text, txn, variables, ds, label in items[:400]:
        if label != 'random:bool':
            continue
        outs = set()
        for t2 in (txn, evalcorr.BASE_TXN, {'description': 'zzz', 'amount': -1.0, 'field': None, 'source': None, 'location': None},
                   dict(txn, amount=-(txn['amount'] or 1) * 3, description=txn['description'][::-1])):
            outs.add(json.dumps(exprs.impl_eval(text, t2, variables, ds, root=False), sort_keys=True))
        total += 1
        const += len(outs) == 1
    ctx.notes['fraction_of_constant_conditions'] = round(const / max(total, 1), 3)
    # the laws on the implementation
    nl = 0
    if ctx.replay:
        ce = json.loads(common.read(ctx.replay)).get('counterexample', {})
        if ce.get('class') == 'short-circuit':
            t = RC.untxn(ce['txn'])
            o = ev(ce['expr'], t, SC_VARS)
            got = 'error' if 'ok' not in o else ('true' if as_bool(o)['ok']['v'] else 'false')
            if got != ce['required']:
                prop_fail.append(ce)
        elif 'lhs' in ce:
            t = RC.untxn(ce['txn'])
            vs = {'is_large': t['amount'] > 100, 'lbl': t['description'].lower()}
            x, y = ev(ce['lhs'], t, vs), ev(ce['rhs'], t, vs)
            if ce['class'] == 'double-negation':
                y = as_bool(y)
            if not same(x, y):
                prop_fail.append(ce)
        elif 'expr' in ce and 'required' in ce:
            t = RC.untxn(ce['txn'])
            if not same(ev(ce['expr'], t), ce['required']):
                prop_fail.append(ce)
    else:
        nlaw = 300 if ctx.quick else 12000
        for _ in range(nlaw):
            txn = GR.gen_txn(r)
            prop_fail.extend(law_failures(r, txn, None, ROWS))
            nl += 1
        for _ in range(60 if ctx.quick else 2000):
            prop_fail.extend(reference_failures(GR.gen_txn(r)))
            nl += 1
        for _ in range(40 if ctx.quick else 1500):
            prop_fail.extend(short_circuit_failures(r, GR.gen_txn(r), 10))
            nl += 10
        prop_fail.extend(literal_failures(r, 150 if ctx.quick else 5000))
        nl += 150 if ctx.quick else 5000
        for t in (evalcorr.BASE_TXN, {'description': '', 'amount': 0.0, 'field': None, 'source': None, 'location': None},
                  {'description': 'x', 'amount': -0.01, 'date': datetime.date(2024, 12, 31), 'field': {}, 'source': '', 'location': ''},
                  {'description': 'Jan', 'amount': 0.01, 'date': datetime.date(2025, 1, 1), 'field': None, 'source': 'S', 'location': None}):
            prop_fail.extend(reference_failures(t))
    ctx.cov['evaluations'] = n1 + n2 + n5 + nl
    ctx.cov['traces_validated_against_impl'] = n1 + n2 + n5
    ctx.cov['distinct_nontrivial'] = len({i[0] for i in items}) + len({i[0] for i in small})
    ctx.cov['exhaustive'] = False
    ctx.cov['rule'] = ('type-directed random expressions (bool / num / str; literals drawn from the transaction\'s own words so that '
                       'conditions are not constant — measured fraction reported), ALL expressions with ≤ 1 operator (thorough: a 150k sample of '
                       '≤ 2) over a 12-leaf grammar × 3 boundary transactions, compared model vs real evaluator; then the laws of the '
                       'reference as metamorphic relations on the real evaluator and Python\'s own comprehensions as the reference answer; guards in front of partial '
                       'operands (false-guard and P = False, true-guard or P = True, P first = error) and contains/startswith/anyof/in on text full of regex '
                       'metacharacters against Python\'s own `in`/startswith, both also run model-vs-implementation. '
                       'distinct_nontrivial = distinct expression texts evaluated')
    ctx.notes['outcomes_random'] = st1['outcomes']
    ctx.notes['outcomes_small'] = st2['outcomes']
    ctx.notes['unmodelled_skipped'] = {'random': st1['unmodelled'], 'small': st2['unmodelled']}
    for it in items[:4]:
        ctx.sample({'expr': it[0], 'txn': RC.jtxn(it[1])})

    def search():
        out = []
        for _ in range(4000):
            out.extend(law_failures(r, GR.gen_txn(r), None, ROWS))
            out.extend(short_circuit_failures(r, GR.gen_txn(r), 3))
            if not out and _ % 10 == 0:
                out.extend(literal_failures(r, 5))
            if out:
                break
        ctx.cov['evaluations'] += 4000
        return out

    def classify(pf):
        return None

    common.conclude(ctx, prop_fail, classify=classify, search=search,
                    required='and/or/not Boolean with left-to-right short-circuit; chain = conjunction of links; ==/!=/in and the match '
                             'functions ignore ASCII letter case; dates compare against ISO strings; month/year/day/weekday are those of the date; '
                             '÷0 and %0 give 0; comprehensions, any/all/sum/len/next and := behave like the Python construct; logically '
                             'equivalent rewritings never change the result')
    return ctx.finish(extra_trusted=[
        'the laws are proved on the model Expr.eval; the model is tied to TransactionEvaluator by differential runs (this check and C08\'s exhaustive table)',
        'regex case-insensitivity is a law of the regex oracle (re.IGNORECASE), exercised on CPython, not proved',
        'non-ASCII case mapping is an oracle; the letter-case theorems are for ASCII text',
        'observation C04-obs (binder of an abandoned generator stays bound) is a kernel-checked example, not claimed as a law'])
