"""C14 — migrating merchant_categories.csv to merchants.rules preserves classification.

Decided by (lean/TallyVerif/Props/C14.lean, model lean/TallyVerif/Model/Migrate.lean):
  literal_roundtrip      pyUnescape (pyEscape p) = ok p for every one-line pattern (repaired escaping)
  modifier_equiv         generated modifier expression ⇔ check_all_conditions, every form and combination
  per_rule_agree         migrated rule matches ⇔ CSV tuple matches          (H_upper, H_empty)
  migration_preserves    both classifiers: same merchant/category/subcategory and tag set (via C01 / C02)
  structure_*            the generated file parses back to one rule per CSV row
  date_range_equiv / date_range_preserved / key_le_iff_chronological / range_across_years_holds_in_both
                         the condition generated for [date:A..B] holds exactly on A ≤ d ≤ B, for every pair of ends (§7)
  + the counterexample theorems for the pinned converter (D14a, D14b) and for relative dates (D14c).
  FROM THE FILE TEXT (§8 of Props/C14.lean, model lean/TallyVerif/Model/Legacy.lean = parse_pattern_with_modifiers + load_merchant_rules):
  modifier_regexes_as_modelled   the regular expressions / flags / order regenerated from modifier_parser.py = the table the scanners implement
  parse_blocks / parse_render / parse_render_canonical / blanks_insensitive / parse_shape / parse_ok_prefix / parse_error_local
  comment_lines_inert(_text) / crlf_is_lf / load_written_table / load_written_std / row_local / moderr_row_keeps_cell
  migration_preserves_from_file  the classification theorem for every file text the loader accepts
  (streams, oracles and generators of this part: harness/props/legacy_loader.py)

Tie (every run, on the tree under test):
  pyUnescape  vs CPython literal decoding (tokenize + ast.literal_eval), exhaustive over `\\x` for printable x,
              all octal forms, all \\xhh, samples of \\u / \\U / \\N, malformed forms, random bodies
  pyEscape    vs what csv_to_merchants_content writes between regex(" and ")
  modifierExpr / checkAll / evaluation  vs _modifier_to_expr / check_all_conditions / expr_parser on boundary transactions
  render / parse  vs csv_to_merchants_content / parse_merchants
  classify    both model classifiers vs both real pipelines (regex, upper, lower, today are shipped as oracle tables)
  H_upper / H_empty  tested on every (pattern, description) pair generated.
  literal values: every numeric literal of the generated modifier expression, read by CPython, is the SAME DOUBLE as the CSV threshold
              (oracle on the converter alone; spelling-agnostic — `200`, `200.0`, `2e2` pass, `12345.7` for 12345.67 does not)
Generator classes added after the seeded-regression round: rows sharing all outputs with the previous / an earlier row (runs of
spellings, exact duplicates) with group-structured patterns (numbered/named groups and back-references, conditional groups, leading
inline flags); amount thresholds with 7+ significant digits and transactions on their precision probes. search() draws half of its
cases from these classes at a higher density.
Calendar stream (round 4): files whose rows carry [date:A..B] ranges with both ends on, or one day off, a month / year boundary
(1st, last day, Jan 1, Dec 31, Feb 29, the 28th), within one year or reaching several years on, same-numbered or different months at
the two ends; the oracle runs both real pipelines once per file and classifies one transaction per PROBE DATE (1st, 15th, last day of
every month from the month before the range to the month after it, the year ends around it, each end ±1 day). search() draws every
sixth case (thorough: every fourth) from this stream.
The implementation may be the pinned converter or carry the D14a / D14b repairs: the correspondence detects
which (`fixA`, `fixB`) and uses the matching model; the PROPERTY ORACLE below does not care.

Property oracle (implementation only): for a CSV rule file and a transaction,
  (a) get_all_rules(csv) + normalize_merchant        (legacy tuple loop)
  (b) the real cli._migrate_csv_to_rules → get_all_rules(merchants.rules) + normalize_merchant
must give the same merchant, category, subcategory and tag set, and (b) must load without error.
"""
import ast
import contextlib
import copy
import datetime
import io
import json
import os
import re
import struct
import tokenize
import warnings
from fractions import Fraction

from .. import common, regen
from ..gen import rules as G
from . import legacy_loader as LL
from .rules_common import Budget, jtxn, untxn

REQUIRED = ('for every CSV rule file the loader accepts, the generated merchants.rules loads without error and '
            'normalize_merchant returns the same merchant, category, subcategory and tag set for every transaction '
            'as it did with the CSV rules')

# ------------------------------------------------------------------------------------------------ helpers


def cps(s):
    return [ord(c) for c in s]


def uncps(l):
    return ''.join(chr(x) for x in l)


@contextlib.contextmanager
def quiet():
    with contextlib.redirect_stdout(io.StringIO()), warnings.catch_warnings():
        warnings.simplefilter('ignore')
        yield


def doubles_unit(values):
    """common power-of-two denominator of a set of finite doubles"""
    d = 1
    for v in values:
        d = max(d, Fraction(v).denominator)
    return d


def exact(v, unit):
    return str(int(Fraction(v) * unit))


# ------------------------------------------------------------------------------------------------ literal decoding

def cpy_literal(body):
    """What CPython makes of the one-line literal "<body>": ('ok', value) | ('malformed',)."""
    text = '"' + body + '"'
    try:
        with warnings.catch_warnings():
            warnings.simplefilter('ignore')
            v = ast.literal_eval(text)
    except (SyntaxError, ValueError):
        return ('malformed',)
    if not isinstance(v, str):
        return ('malformed',)
    # exactly ONE string token spanning the whole text (no implicit concatenation, no comment, no continuation)
    try:
        toks = [t for t in tokenize.generate_tokens(io.StringIO(text).readline)
                if t.type not in (tokenize.NEWLINE, tokenize.NL, tokenize.ENDMARKER)]
    except (tokenize.TokenError, SyntaxError, IndentationError):
        return ('malformed',)
    if len(toks) != 1 or toks[0].type != tokenize.STRING or toks[0].string != text:
        return ('malformed',)
    return ('ok', v)


def literal_bodies(r, quick):
    out = []
    printable = [chr(c) for c in range(0x20, 0x7f)]
    for x in printable:                                   # every \x, alone and in context
        for tail in ('', '1', 'A7', 'g', '\\', ' z'):
            out.append('\\' + x + tail)
            out.append('ab\\' + x + tail)
    for a in '01234567':                                   # every octal form
        out.append('\\' + a)
        out.append('\\' + a + '8')
        for b in '01234567':
            out.append('\\' + a + b)
            out.append('\\' + a + b + '9x')
            for c in '01234567':
                out.append('\\' + a + b + c)
                out.append('\\' + a + b + c + '7')
    hexd = '0123456789abcdefABCDEF'
    for a in hexd:                                         # every \xhh
        out.append('\\x' + a)
        out.append('\\x' + a + 'g')
        for b in hexd:
            out.append('\\x' + a + b)
            out.append('\\x' + a + b + '0')
    out += ['\\x', '\\xg1', '\\u', '\\u12', '\\u123', '\\u123g', '\\U', '\\U0001F60', '\\U0001F600', '\\U00110000',
            '\\UFFFFFFFF', '\\U0010FFFF', '\\U0000D800', '\\ud800', '\\udfff', '\\ue000', '\\uD7FF', '\\u0041', '\\u00e9x',
            '\\N{DIGIT ONE}', '\\N{NO SUCH NAME}', '\\N', '\\N{', '\\N{}', 'a"b', '"', 'a" "b', 'a" + "b', '\\"', '\\\\"',
            '\\\\\\"', 'a\nb', 'a\rb', 'a\x00b', 'a\\\nb', 'a\\\rb', 'a\\\x00', '\\', 'abc\\', '\\\\', '\\\\\\', '', ' ',
            '#', 'a#b', "'", "it's", '\t', 'é', '€\\b', '\U0001F600\\1', '\\777', '\\400', '\\08', '\\8', '\\9']
    for _ in range(300 if quick else 3000):                # \u / \U samples
        out.append('\\u%04x' % r.randrange(0x10000) + r.choice(['', '0', 'z']))
        out.append('\\U%08x' % r.choice([r.randrange(0x110000), r.randrange(0x110000, 0x200000), r.randrange(0xd800, 0xe000)]))
    alpha = ['\\', '\\', '"', "'", 'a', 'b', 'n', 'x', 'u', 'U', 'N', '0', '1', '7', '8', '4', 'f', 'g', '{', '}', ' ', '(', ')', '|',
             '[', ']', 'd', 'w', 's', '.', '$', '^', '?', '+', '*', 'é']
    for _ in range(1500 if quick else 40000):
        out.append(''.join(r.choice(alpha) for _ in range(r.randint(0, 9))))
    seen, res = set(), []
    for b in out:
        if b not in seen:
            seen.add(b)
            res.append(b)
    return res


def literal_stream(ctx, r):
    bodies = literal_bodies(r, ctx.quick)
    model = common.Driver().batch([{'op': 'migrate', 'kind': 'unescape', 'body': cps(b)} for b in bodies])
    fails, unsupported, okc = [], 0, 0
    for b, m in zip(bodies, model):
        ref = cpy_literal(b)
        if m.get('err') == 'unsupported' or b.startswith('""'):
            # "" at the start of the body opens a TRIPLE-quoted literal (or an empty one): a token form the converter never
            # writes (it escapes every quote) and the one-line literal model does not cover
            unsupported += 1
            continue
        got = ('ok', uncps(m['ok'])) if 'ok' in m else ('malformed',)
        if got != ref:
            fails.append({'body': b, 'cpython': ref, 'model': got})
        elif got[0] == 'ok':
            okc += 1
    ctx.obligation('correspondence:CPython-literal-decoding-vs-Migrate.pyUnescape', 'correspondence', not fails,
                   cases=len(bodies), error=json.dumps(fails[0])[:800] if fails else None)
    ctx.notes['literal_bodies'] = {'total': len(bodies), 'decoded': okc, 'model_declines(unsupported)': unsupported}
    return len(bodies)


# ------------------------------------------------------------------------------------------------ generators

SPECIAL_DESCS = ['UBER TRIP', 'uber trip 12.50', 'SAY "HI" STORE', "JOE'S DINER #45", 'A\\B IMPORTS', 'SHOP [WEB] 0042', 'AMAZON.COM*MK1',
                 'NETFLIX  COM', 'LYFT RIDE 1', 'COSTCO WHSE #123', 'TAB\tSEP', 'CAFÉ ROMA', 'SEATTLE COFFEE', 'X', 'PAYPAL *UBER',
                 # merchants as statements print them outside ASCII: BMP (kana, kanji, symbols) and beyond it (U+20BB7, emoji)
                 'ACH\x1cPAYROLL', 'WHOLEFDS\u2028MKT 12', 'A\x0bB STORE', 'NEL\x85X', 'FORM\x0cFEED CO', 'PARA\u2029GRAPH', 'RS\x1eUNIT\x1dGS',
                 '\U00020bb7野家 SHIBUYA', '\U0001f600 CAFE 12', 'CAFE \u2615 ROMA', 'スターバックス 渋谷', 'SQ *\U0001f355 PIZZA', 'ÅNGSTRÖM №5']


def gen_desc(r):
    if r.random() < 0.35:
        return r.choice(SPECIAL_DESCS)
    t = G.gen_txn(r)
    d = t['description']
    k = r.random()
    if k < 0.08:
        d += ' "Q"'
    elif k < 0.14:
        d += ' C\\D'
    elif k < 0.2:
        d = d.replace(' ', ' [', 1) + ']' if ' ' in d else d
    return d


def structured_forms(r, tok, other, words, hit):
    """Patterns whose meaning depends on the GROUP STRUCTURE or on the position of the pattern inside the regular expression it is
    compiled in: numbered / named capture groups, numbered / named back-references, conditional groups, leading inline flags.
    All are legal in a legacy CSV (the pattern cell is handed to re.search as it is); a converter is only correct on them if every
    row's pattern reaches `regex("…")` as a regular expression of its own."""
    t0, t1 = tok[:1], re.escape(tok[1:2])
    return [
        lambda: '(' + tok + ')',
        lambda: f'({other}|{tok})' + r'\s*(\S*)',
        lambda: r'(\w)\1',
        lambda: r'(\d)\1',
        lambda: '(' + t0 + ')' + t1 + r'.*\1' if len(tok) > 1 else r'(\w)\1',
        lambda: '(' + other + ')?' + tok + r'(\s|$)\2',
        lambda: f'(?P<m>{tok})',
        lambda: f'(?P<m>{other}|{tok})' + r'\b',
        lambda: r'(?P<c>\w)(?P=c)',
        lambda: '(?P<m>' + t0 + ')' + t1 + '.*(?P=m)' if len(tok) > 1 else r'(?P<c>\w)(?P=c)',
        lambda: f'(?P<m>{tok})' + r'\s+(?P<n>\S+)',
        lambda: r'(\s)?(?(1)' + tok + '|' + other + ')',
        lambda: '(?i)' + tok.lower(),
        lambda: '(?i)(?P<m>' + tok.lower() + ')',
        lambda: '(?s)' + tok + '.*',
        lambda: '(?m)^' + (words[0] if hit else tok),
        lambda: '(?is)' + tok.lower() + r'.(\w)\1?',
        lambda: '(?a)' + tok + r'\b',
    ]


def gen_pattern(r, desc, structured=False):
    """A regular expression in the style people write in merchant_categories.csv; about half match `desc`.
    `structured`: mostly patterns from `structured_forms` (used for rows that share their outputs with a neighbour)."""
    words = [w for w in re.split(r'[^A-Za-z0-9]+', desc.upper()) if w] or ['X']
    hit = r.random() < 0.65
    tok = r.choice(words) if hit else r.choice(G.MERCHANT_TOKENS)
    other = r.choice(G.MERCHANT_TOKENS)
    sf = structured_forms(r, tok, other, words, hit)
    if r.random() < (0.6 if structured else 0.1):
        return r.choice(sf)()
    lineish = [ch for ch in desc if ch in '\x0b\x0c\x1c\x1d\x1e\x85\u2028\u2029']
    if lineish and r.random() < 0.7:
        # characters that SOME line splitters treat as line ends (str.splitlines) and the CSV reader, the rules reader and `re` do not: they are
        # ordinary characters of a pattern cell, a name or a tag
        c = r.choice(lineish)
        i = desc.index(c)
        return r.choice([desc[max(0, i - 3):i + 4], c, desc.split(' ')[0], '[' + c + ']', desc[max(0, i - 2):i] + '(' + c + '|\\s)+' + desc[i + 1:i + 3]])
    wide = [ch for ch in desc if ord(ch) > 127]
    if wide and r.random() < 0.6:
        # the pattern names the characters of the description that are not ASCII: alone, in a class, next to a word
        c = r.choice(wide)
        return r.choice([c, '[' + ''.join(dict.fromkeys(wide)) + ']', c + r'\s*' + tok if hit else c, tok + '.*' + c, '(' + c + ')+', c + '{1,2}',
                         ''.join(ch for ch in desc.split()[0])])
    k = r.random()
    forms = [
        lambda: tok,
        lambda: tok.lower(),
        lambda: r'\b' + tok + r'\b',
        lambda: tok + r'\s*\d+',
        lambda: tok + r'\s+\S+',
        lambda: '^' + (words[0] if hit else tok),
        lambda: tok + '$',
        lambda: tok + r'(?!.*ZZZ)',
        lambda: tok + r'(?=\s)',
        lambda: r'(?<!X)' + tok,
        lambda: f'{tok}|{other}',
        lambda: f'({other}|{tok})',
        lambda: f'(?:{tok}|{other})' + r'\b',
        lambda: r'(\w)\1',
        lambda: '(' + tok[:1] + ')' + re.escape(tok[1:2]) + r'.*\1' if len(tok) > 1 else tok,
        lambda: r'[A-Z]{3,}\s#\d+',
        lambda: r'\[' + tok + r'\]',
        lambda: '"' + tok + '"',
        lambda: tok + r'\s"',
        lambda: r"JOE'S",
        lambda: r'A\\B',
        lambda: r'\\',
        lambda: tok.replace('E', r'\x45', 1),
        lambda: tok.replace('A', r'\101', 1),
        lambda: tok.replace('O', r'O', 1),
        lambda: r'\d+\.\d{2}',
        lambda: r'\.COM\*',
        lambda: r'\t',
        lambda: r'#\d+',
        lambda: r'\N{DIGIT ONE}',
        lambda: tok + r'\ ' + r'\S',
        lambda: '.*' + tok + '.*',
        lambda: tok[:2] + '.' + tok[3:] if len(tok) > 3 else tok,
        lambda: '(?i)' + tok.lower(),
        lambda: tok + ' and ' + other,              # shaped like an expression, is a regex (D1, repaired)
        lambda: '(' + tok + ')',
        lambda: '(',                                  # invalid regex: skipped on both sides
        lambda: tok + '[',
    ]
    return r.choice(forms)() if k < 0.8 else tok


# thresholds that need MORE than 6 significant digits (and more than float32 / 2 decimals hold): every one is a plain `[\d.]+`
# literal a CSV may carry; the migrated expression has to denote the same double
PRECISE_VALUES = ['12345.67', '100000.25', '250000.75', '1234567', '10250.75', '1000.125', '2500000.5', '123456.78', '99999.99',
                  '1000000.01', '1234.5678', '0.1234567', '16777217', '33554433.5', '4999.995', '123456789.12', '0.000012345',
                  '9007199254740993', '12345678901234567890', '100000000000000000000000.5', '1234.5678901234567']


def gen_precise_value(r):
    k = r.random()
    if k < 0.35:
        return r.choice(PRECISE_VALUES)
    if k < 0.7:
        return f'{r.randint(10000, 9999999)}.{r.randint(1, 99):02d}'
    if k < 0.85:
        return str(r.randint(1000001, 999999999))
    return f'{r.randint(1, 9999)}.{r.randint(1, 99999):05d}'


def precision_probes(v):
    """Amounts that tell v from what v becomes when it is written with too few digits (k significant digits, k decimals, an
    integer, a float32): the coarser value w itself and the midpoint of v and w. Empty when every such rendering is exact."""
    cands = set()
    for k in (3, 4, 5, 6, 7, 8, 9, 10, 12, 15):
        cands.add(float('%.*g' % (k, v)))
    for k in (0, 1, 2, 3):
        cands.add(float(round(v, k)))
    cands.add(float(int(v)))
    try:
        cands.add(struct.unpack('f', struct.pack('f', v))[0])
    except OverflowError:
        pass
    out = []
    for w in sorted(cands):
        if w != v:
            out += [w, (v + w) / 2, round((v + w) / 2, 2)]
    return [x for x in out if x != v]


def gen_modifiers(r, amount_hint, date_hint, allow_relative=False, precise=0.2):
    """Returns (text, [('amount', v…) | ('date', d…)] boundary hints). `precise`: share of amount values drawn from the
    many-significant-digits class."""
    mods, hints = '', []
    sp = lambda s: s.replace('§', r.choice(['', '', ' ']))
    vals = [0, 5, 50, 100, 100.5, 1500, 99.99, 0.01, 20.5, 300, abs(amount_hint)]
    for _ in range(r.choice([0, 0, 1, 1, 1, 2])):
        v = r.choice(vals)
        vt = r.choice([repr(v), ('%.2f' % v), str(int(v)) if float(v).is_integer() else repr(v)])
        if vt.startswith('0.') and r.random() < 0.2:
            vt = vt[1:]
        op = r.choice(['>', '>=', '<', '<=', '=', '=', ':'])
        if r.random() < precise:
            if op == ':':
                lo, hi = sorted((gen_precise_value(r), gen_precise_value(r)), key=float)
                mods += sp(f'[amount§:§{lo}§-§{hi}]')
                hints += [('amount', float(lo)), ('amount', float(hi))]
            else:
                vt = gen_precise_value(r)
                mods += sp(f'[amount§{op}§{vt}]')
                hints.append(('amount', float(vt)))
        elif op == ':':
            lo = r.choice([0, 10, 50, 99.99])
            hi = r.choice([100, 100.004, 500, 5000])
            mods += sp(f'[amount§:§{lo}§-§{hi}]')
            hints += [('amount', float(lo)), ('amount', float(hi))]
        else:
            mods += sp(f'[amount§{op}§{vt}]')
            hints.append(('amount', float(vt)))
    d0 = date_hint
    for _ in range(r.choice([0, 0, 0, 1, 1, 2])):
        k = r.random()
        if k < 0.3:
            d = d0 + datetime.timedelta(days=r.choice([0, 0, 1, -1, 40]))
            mods += sp(f'[date§=§{d.isoformat()}]')
            hints.append(('date', d))
        elif k < 0.6:
            a = r.choice([datetime.date(d0.year, 1, 1), d0, d0 - datetime.timedelta(days=10), datetime.date(d0.year, d0.month, 1)])
            b = r.choice([datetime.date(d0.year, 12, 31), d0, a + datetime.timedelta(days=30), datetime.date(d0.year, 6, 30)])
            mods += sp(f'[date§:§{a.isoformat()}§..§{b.isoformat()}]')
            hints += [('date', a), ('date', b)]
        elif k < 0.92 or not allow_relative:
            m = r.choice([d0.month, d0.month % 12 + 1, 1, 12])
            mods += sp(f'[month§=§{m}]') if r.random() < 0.8 else f'[month={m:02d}]'
            hints.append(('month', m))
        else:
            mods += f'[date:last{r.choice([7, 30, 365, 100000])}days]'
    if r.random() < 0.04:
        mods += r.choice(['[month=13]', '[amount>abc]', '[AMOUNT>5]', '[date=2025-02-30]', '[amount>1.2.3]'])
    return mods, hints


def boundary_txn(r, desc, hints, base):
    amount, d = base['amount'], base['date']
    ah = [h[1] for h in hints if h[0] == 'amount']
    dh = [h[1] for h in hints if h[0] == 'date']
    mh = [h[1] for h in hints if h[0] == 'month']
    if ah and r.random() < 0.8:
        v = r.choice(ah)
        probes = precision_probes(v)
        if probes and r.random() < 0.35:
            amount = r.choice(probes)
        else:
            amount = v + r.choice([0, 0, 0.004, -0.004, 0.01, -0.01, 0.0099, -0.0099, 0.011, -0.011, 1, -1, 0.005])
    if r.random() < 0.12:
        amount = -amount
    if dh and r.random() < 0.8:
        d = r.choice(dh) + datetime.timedelta(days=r.choice([0, 0, 1, -1]))
    elif mh and r.random() < 0.7:
        m = r.choice(mh)
        d = r.choice([datetime.date(2025, m, 1), datetime.date(2025, m, 28), datetime.date(2025, m, 1) - datetime.timedelta(days=1),
                      datetime.date(2024, m, 15)])
    return {'description': desc, 'amount': float(amount), 'date': d}


# ---- date ranges aligned to the calendar ("the whole of March", "all of 2025", "December 2024 up to the end of December 2025")

ONE_DAY = datetime.timedelta(days=1)
LEAP_YEARS = [2016, 2020, 2024, 2028]


def month_last(y, m):
    return datetime.date(y + (m == 12), m % 12 + 1, 1) - ONE_DAY


def on_calendar_boundary(d):
    """first or last day of a month"""
    try:
        return d.day == 1 or (d + ONE_DAY).day == 1
    except OverflowError:
        return True


def gen_calendar_range(r):
    """The two ends of a [date:A..B] modifier, both ON a calendar boundary or one day off it: A = the 1st of a month (Jan 1 often),
    the day before / after it, the last day of a month, seldom a mid-month day; B = the last day of a month (Dec 31 and the leap
    February 29 often), the day before / after it (so also Jan 1 and the 28th of a leap February), the 1st of a month, the 28th,
    seldom a mid-month day.  The range covers part of one year or 1, 2, 3, 5 further years; the month of B is the SAME-numbered month
    as that of A (40 %), December, the month before A's (whole years counted from A) or any month; 12 % run from a January to a
    December.  A range that would be reversed is moved one year on (85 %) or kept as it is (an empty range is a legal CSV modifier)."""
    y1 = r.choice([2019, 2020, 2021, 2022, 2023, 2023, 2024, 2024, 2024, 2025, 2025, 2026])
    m1 = r.choice([1, 1, 2, 2, 3, 12, 12, r.randint(1, 12), r.randint(1, 12)])
    y2 = y1 + r.choice([0, 0, 0, 0, 0, 0, 1, 1, 1, 1, 2, 2, 3, 5])
    k = r.random()
    m2 = m1 if k < 0.4 else 12 if k < 0.55 else (m1 - 2) % 12 + 1 if k < 0.7 else r.randint(1, 12)
    if r.random() < 0.12:       # whole calendar years: January … December
        m1, m2 = 1, 12
    if r.random() < 0.15:       # the range ends in a leap February
        m2, y2 = 2, min((y for y in LEAP_YEARS if y >= y2), default=2028)
    ks = r.choice(['first'] * 12 + ['first-1', 'first+1', 'first-1', 'first+1', 'last', 'mid'])
    ke = r.choice(['last'] * 12 + ['last-1', 'last+1', 'last-1', 'last+1', 'first', 'day28', 'mid'])

    def ends(y2):
        first, last = datetime.date(y1, m1, 1), month_last(y2, m2)
        a = {'first': first, 'first-1': first - ONE_DAY, 'first+1': first + ONE_DAY, 'last': month_last(y1, m1),
             'mid': first.replace(day=15)}[ks]
        b = {'last': last, 'last-1': last - ONE_DAY, 'last+1': last + ONE_DAY, 'first': last.replace(day=1),
             'day28': last.replace(day=28), 'mid': last.replace(day=14)}[ke]
        return a, b
    a, b = ends(y2)
    if a > b and r.random() < 0.85:
        a, b = ends(y2 + 1)
    return a, b


def calendar_probe_dates(ranges):
    """The dates a calendar-aligned range has to be tried on: the first, the 15th and the last day of EVERY month from the month before
    the range to the month after it; Jan 1 and Dec 31 of every year it touches and Dec 31 / Jan 1 of the years just outside; each end of
    the range and the day before and after it."""
    out = set()
    for a, b in ranges:
        lo, hi = min(a, b), max(a, b)
        for d in (a, b):
            out.update([d - ONE_DAY, d, d + ONE_DAY])
        y, m = (lo.year, lo.month - 1) if lo.month > 1 else (lo.year - 1, 12)
        stop = (hi.year, hi.month + 1) if hi.month < 12 else (hi.year + 1, 1)
        while (y, m) <= stop:
            out.update([datetime.date(y, m, 1), datetime.date(y, m, 15), month_last(y, m)])
            y, m = (y, m + 1) if m < 12 else (y + 1, 1)
        for y in range(lo.year, hi.year + 1):
            out.update([datetime.date(y, 1, 1), datetime.date(y, 12, 31)])
        out.update([datetime.date(lo.year - 1, 12, 31), datetime.date(hi.year + 1, 1, 1)])
    return sorted(out)


def gen_calendar_case(r):
    """One CSV rule file whose rows carry calendar-aligned date ranges (alone; with a [month=…] or an amount modifier; two ranges on
    one row), mostly with patterns that match the description, often followed by a row without modifiers (what the transaction
    falls back to outside the range) + the transactions of `calendar_probe_dates` (`sweep`: same description and amount, one per
    date).  `txn` is one of them (the case as the single-transaction streams see it)."""
    desc = gen_desc(r)
    words = [w for w in re.split(r'[^A-Za-z0-9]+', desc.upper()) if w] or ['X']
    amount = r.choice([5.0, 20.5, 50.0, 99.99, 100.0, 1500.0])
    sp = lambda s: s.replace('§', r.choice(['', '', '', ' ']))
    n = r.choice([1, 2, 2, 3, 3, 4])
    rows, ranges, fallback = [], [], False
    for i in range(n):
        tok, other = r.choice(words), r.choice(G.MERCHANT_TOKENS)
        k = r.random()
        if k < 0.3:
            pat = gen_pattern(r, desc)
        else:
            pat = r.choice([tok, tok, tok.lower(), '^' + words[0], tok + r'\b', f'{other}|{tok}', tok + '.*', '(?i)' + tok.lower()])
        mods = ''
        if i == n - 1 and n > 1 and r.random() < 0.4:
            fallback = True         # last row without modifiers: what a transaction outside the ranges falls back to
        else:
            for _ in range(2 if r.random() < 0.1 else 1):
                a, b = gen_calendar_range(r)
                ranges.append((a, b))
                mods += sp(f'[date§:§{a.isoformat()}§..§{b.isoformat()}]')
            k = r.random()
            if k < 0.15:
                a, b = ranges[-1]
                mods += f'[month={r.choice([a.month, b.month, b.month % 12 + 1, r.randint(1, 12)])}]'
            elif k < 0.3:
                mods = r.choice(['[amount>5]', '[amount>=5]', '[amount<=1500]', '[amount<1500.01]', '[amount:5-1500]', '[amount=50]']) + mods
            elif k < 0.36:
                d = r.choice(ranges[-1])
                mods += f'[date={d.isoformat()}]'
        cat = r.choice(G.CATS)
        tags = '|'.join(r.sample(['business', 'Travel', 'x y', 'promo', 'RECURRING'], r.choice([0, 0, 1, 2])))
        rows.append([pat + mods, f'M{i} {tok[:6]}', cat[0], cat[1], tags])
    if not ranges:
        ranges.append(gen_calendar_range(r))
    sweep = calendar_probe_dates(ranges)
    txn = {'description': desc, 'amount': amount, 'date': r.choice(sweep)}
    layout = {'tags_column': r.random() < 0.85, 'comments': r.random() < 0.3, 'blank': r.random() < 0.3}
    return {'rows': rows, 'layout': layout, 'txn': txn, 'corner': None, 'share': [None] * n, 'sweep': sweep, 'calendar': True,
            'fallback': fallback}


CORNER_KINDS = ['relative-first', 'relative-later', 'legacy-expression', 'empty-rule', 'untrimmed', 'tag-syntax', 'upper']


def gen_case(r, corner=None, focus=False):
    """One CSV rule file + one transaction.  `corner` selects a pre-registered corner class (one row of that class).
    Rows may SHARE their outputs (merchant, category, subcategory, tags, modifiers) with the previous row ("several spellings of one
    merchant on consecutive rows"), with an earlier non-adjacent row, or be an exact duplicate; such rows mostly carry
    group-structured patterns.  `focus` (used by search()) raises the share of these rows and of many-digit thresholds."""
    desc = gen_desc(r)
    base = {'amount': r.choice([0.0, 5.0, 50.0, 100.0, 100.004, 99.99, 1500.0, 20.5, round(r.uniform(0, 600), 2),
                                12345.68, round(r.uniform(10000, 3000000), 2)]),
            'date': datetime.date(r.choice([2024, 2025]), r.choice([1, 2, 6, 12, r.randint(1, 12)]), r.choice([1, 15, 28, r.randint(1, 28)]))}
    n = r.choice([1, 2, 3, 3, 4, 6])
    p_share, p_precise = (0.6, 0.6) if focus else (0.25, 0.2)
    # which rows take their outputs from another row: share[i] = index of that row (i-1: adjacent run) or None
    share = [None] * n
    for i in range(1, n):
        if r.random() < p_share:
            share[i] = i - 1 if r.random() < 0.8 else r.randrange(i)
    in_run = [share[i] is not None or i in share for i in range(n)]
    rows, hints, parts = [], [], []
    for i in range(n):
        pat = gen_pattern(r, desc, structured=in_run[i])
        mods, h = gen_modifiers(r, base['amount'], base['date'], precise=p_precise)
        tag_only = r.random() < 0.22
        cat = r.choice(G.CATS)
        tags = '|'.join(r.sample(['business', 'Travel', 'x y', 'income', '{field.type}', 'RECURRING'], r.choice([0, 0, 1, 2])))
        if r.random() < 0.1 and tags:
            tags = ' ' + tags.replace('|', ' | ') + ' |'
        if tag_only and not tags.strip(' |'):
            tags = 'misc'
        merchant = r.choice([f'M{i} {pat[:4].strip() or "x"}', 'Uber', "Joe's Diner", 'A & B: Co', 'Shop #1', 'name]', '100%'])
        merchant = re.sub(r'[\[\]"\\]', '', merchant).strip() or f'M{i}'
        out = [merchant, '' if tag_only else cat[0], '' if tag_only else cat[1], tags]
        if share[i] is not None:
            j = share[i]
            mods, h, out = parts[j][1], parts[j][2], list(parts[j][3])
            if r.random() < 0.08:
                pat = parts[j][0]                 # exact duplicate row
        hints += h
        parts.append((pat, mods, h, out))
        rows.append([pat + mods] + out)
    if corner:
        i = r.randrange(n)
        if corner == 'relative-first':
            rows[i][0] = gen_pattern(r, desc) + '[date:last30days]' + r.choice(['', '[month=3]'])
        elif corner == 'relative-later':
            rows[i][0] = gen_pattern(r, desc) + r.choice(['[amount>5]', '[month=1]', '[date=2025-01-15]']) + '[date:last7days]'
        elif corner == 'legacy-expression':
            rows[i][0] = r.choice(['(1)', 'contains("UBER")', 'amount>5', '(amount > 1)', 'month == 1', 'true and true'])
        elif corner == 'empty-rule':
            rows[i][2:5] = ['', '', '']
        elif corner == 'untrimmed':
            which = r.choice([1, 2, 3])
            rows[i][which] = r.choice([' ', '  ']) + (rows[i][which] or 'Name') + r.choice(['', ' '])
            if not rows[i][2].strip():
                rows[i][2] = ' Food'
        elif corner == 'tag-syntax':
            rows[i][4] = r.choice(['a,b', 'x(y', 'a)|b', 'q, r|s', 'fn(a,b)'])
        elif corner == 'upper':
            if r.random() < 0.5:
                desc = r.choice(['STRAßE 5', 'ǆ shop', 'ﬁsh market'])
                rows[i][0] = {'STRAßE 5': 'STRASSE', 'ǆ shop': 'ǅ', 'ﬁsh market': 'FISH'}[desc]
            else:
                w = (re.findall(r'[a-zA-Z]+', desc) or ['x'])[0]
                desc = desc.lower()
                rows[i][0] = '(?-i:' + w.lower() + ')'
            rows[i][2] = rows[i][2] or 'Food'
    layout = {'tags_column': r.random() < 0.85, 'comments': r.random() < 0.4, 'blank': r.random() < 0.4}
    txn = boundary_txn(r, desc, hints, base)
    if r.random() < 0.25:
        txn['field'] = {'type': r.choice(['ACH', 'card', ''])}
    return {'rows': rows, 'layout': layout, 'txn': txn, 'corner': corner, 'share': share}


def render_csv(case):
    import csv
    buf = io.StringIO()
    w = csv.writer(buf, lineterminator='\n')
    lay = case['layout']
    five = lay['tags_column'] or any(row[4] for row in case['rows'])
    lines = []
    if lay['comments']:
        lines.append('# my merchant rules')
    w.writerow(['Pattern', 'Merchant', 'Category', 'Subcategory'] + (['Tags'] if five else []))
    for i, row in enumerate(case['rows']):
        if lay['blank'] and i == 1:
            buf.write('\n')
        if lay['comments'] and i % 2 == 1:
            buf.write('#OLD,Old,Old,Old\n   # indented comment\n')
        w.writerow(row if five else row[:4])
    if lay['blank']:
        buf.write('\n  \n')
    return '\n'.join(lines + [buf.getvalue()]) if lines else buf.getvalue()


# ------------------------------------------------------------------------------------------------ the two real pipelines

def tagset(info):
    return sorted(set((info or {}).get('tags', [])))


def run_pipelines(csv_text, txn, b, want_detail=False):
    """The property oracle's observation. Returns dict(legacy=…, migrated=… | load_error=…, content=…)."""
    from tally import merchant_utils as MU, cli
    from tally.merchant_engine import MerchantParseError
    cfg = os.path.join(b.dir, f'cfg{b.n}')
    b.n += 1
    os.makedirs(cfg)
    csv_path = os.path.join(cfg, 'merchant_categories.csv')
    with open(csv_path, 'w', encoding='utf-8', newline='') as f:
        f.write(csv_text)
    kw = dict(amount=txn['amount'], txn_date=txn.get('date'), field=copy.deepcopy(txn.get('field')))
    MU.clear_engine_cache()
    rules_csv = MU.get_all_rules(csv_path)
    m, c, s, info = MU.normalize_merchant(txn['description'], rules_csv, **kw)
    out = {'legacy': [m, c, s, tagset(info)], 'rules_csv': rules_csv}
    with quiet():
        ok = cli._migrate_csv_to_rules(csv_path, cfg, backup=False)
    rp = os.path.join(cfg, 'merchants.rules')
    out['content'] = common.read(rp) if os.path.exists(rp) else None
    if not ok or out['content'] is None:
        out['load_error'] = 'migration-failed'
        MU.clear_engine_cache()
        return out
    try:
        MU.clear_engine_cache()
        with quiet():
            rules_new = MU.get_all_rules(rp)
            m2, c2, s2, info2 = MU.normalize_merchant(txn['description'], rules_new, **kw)
        if MU.get_cached_engine() is None:
            out['load_error'] = 'not-loaded-as-rules-file'
        else:
            out['migrated'] = [m2, c2, s2, tagset(info2)]
            out['engine'] = MU.get_cached_engine()
    except MerchantParseError as e:
        out['load_error'] = f'MerchantParseError line {e.line_number}'
    except Exception as e:   # anything else escaping normalize_merchant on the migrated file
        out['load_error'] = f'raised {type(e).__name__}'
    finally:
        MU.clear_engine_cache()
    return out


class Scratch(Budget):
    def __enter__(self):
        super().__enter__()
        self.n = 0
        return self


def row_features(rule, txn):
    """Input class of one loaded CSV tuple (used to label / classify a failure narrowly)."""
    from tally import merchant_utils as MU, expr_parser as EP
    pattern, merchant, category, subcategory, parsed, source, tags = rule
    f = set()
    if any(c.operator == 'relative' for c in parsed.date_conditions):
        f.add('relative-date')
    if MU._is_expression_pattern(pattern):
        t = {'description': txn['description'], 'amount': txn['amount'] or 0, 'field': txn.get('field'), 'source': None, 'location': None}
        if txn.get('date'):
            t['date'] = txn['date']
        try:
            EP.matches_transaction(pattern, t)
            f.add('legacy-expression')
        except EP.ExpressionError:
            pass
        except Exception:
            f.add('legacy-expression')
    if '\\' in pattern or '"' in pattern:
        f.add('backslash-or-quote')
    a = txn['amount']
    if a is not None and any(c.operator == '=' and a != c.value and abs(a - c.value) < 0.01 for c in parsed.amount_conditions):
        f.add('amount-eq')          # strictly inside the epsilon window of an [amount=v] modifier
    if any(v is not None and float('%.6g' % v) != v for c in parsed.amount_conditions for v in (c.value, c.min_value, c.max_value)):
        f.add('many-digit-threshold')   # an amount threshold that needs 7 or more significant digits
    if any(c.operator == ':' and (on_calendar_boundary(c.start_date) or on_calendar_boundary(c.end_date)) for c in parsed.date_conditions):
        f.add('calendar-range')     # a [date:A..B] range with an end on the first / last day of a month
    if not (category or '') and not tags:
        f.add('empty-rule')
    if any((x or '') != (x or '').strip() for x in (merchant, category, subcategory)) or not (merchant or '').strip():
        f.add('untrimmed')
    if any(re.search(r'[,()]', t) for t in tags):
        f.add('tag-syntax')
    if re_search(pattern, txn['description'].upper()) != re_search(pattern, txn['description']):
        f.add('upper')              # H_upper fails for this very (pattern, description) pair
    return f


def modifiers_disagree(parsed, txn):
    """check_all_conditions(parsed, amount, date) against the evaluation of the expression generated for these modifiers (both by the
    implementation's own primitives).  Only used to NAME a failure after the modifier class instead of the pattern class."""
    from tally import merchant_engine as ME, expr_parser as EP
    from tally.modifier_parser import check_all_conditions
    if not (parsed.amount_conditions or parsed.date_conditions):
        return False
    try:
        text = ME._modifier_to_expr(parsed)
        chk = bool(check_all_conditions(parsed, txn['amount'], txn.get('date')))
        if not text:
            return not chk
        t = {'description': txn['description'], 'amount': txn['amount'] or 0}
        if txn.get('date'):
            t['date'] = txn['date']
        try:
            with quiet():
                hit = bool(EP.matches_transaction(text, t))
        except Exception:
            hit = False
        return hit != chk
    except Exception:
        return False


def legacy_rule_truth(rule, txn):
    from tally import merchant_utils as MU, expr_parser as EP
    from tally.modifier_parser import check_all_conditions
    pattern, merchant, category, subcategory, parsed, source, tags = rule
    t = {'description': txn['description'], 'amount': txn['amount'] or 0, 'field': txn.get('field'), 'source': None, 'location': None}
    if txn.get('date'):
        t['date'] = txn['date']
    try:
        use_regex = not MU._is_expression_pattern(pattern)
        if not use_regex:
            try:
                return bool(EP.matches_transaction(pattern, t))
            except EP.ExpressionError:
                use_regex = True
        if re.search(pattern, txn['description'].upper(), re.IGNORECASE):
            if parsed and (parsed.amount_conditions or parsed.date_conditions):
                return bool(check_all_conditions(parsed, txn['amount'], txn.get('date')))
            return True
        return False
    except (re.error, EP.ExpressionError):
        return False


def engine_rule_truth(rule, txn):
    from tally import expr_parser as EP
    t = {'description': txn['description'], 'amount': txn['amount'] or 0, 'field': txn.get('field'), 'source': None, 'location': None}
    if txn.get('date'):
        t['date'] = txn['date']
    try:
        with quiet():
            return bool(EP.matches_transaction(rule.match_expr, t))
    except EP.ExpressionError:
        return False


def oracle(case, b):
    """Property failure (dict) or None for one case."""
    csv_text = case.get('csv_text') or render_csv(case)
    txn = case['txn']
    obs = run_pipelines(csv_text, txn, b)
    rules = obs['rules_csv']
    feats = [row_features(rule, txn) for rule in rules]
    base = {'csv_text': csv_text, 'txn': jtxn(txn), 'legacy': obs['legacy'], 'generated_rules_file': obs['content']}
    if 'load_error' in obs:
        # which rows break the file on their own?
        culprit = set()
        for i, rule in enumerate(rules):
            single = single_row_content(rule)
            try:
                from tally import merchant_engine as ME
                with quiet():
                    ME.parse_merchants(single)
            except Exception:
                culprit |= (feats[i] or {'other'})
                base.setdefault('rows_that_do_not_load', []).append(list(rule[:4]))
        label = load_label(culprit)
        return dict(base, **{'class': label, 'failure': 'does-not-load', 'features': sorted(culprit), 'observed': obs['load_error'],
                             'required': 'the generated merchants.rules loads'})
    if obs['migrated'] == obs['legacy']:
        return None
    # responsible row: first row whose per-rule truth differs, else the rows that match
    eng = obs['engine']
    resp = set()
    # engine rule k belongs to CSV row idx[k]: all rows, or (converter with the D14e repair) the rows that have a category or tags
    idx = list(range(len(rules)))
    if len(eng.rules) != len(rules):
        idx = [i for i, rule in enumerate(rules) if (rule[2] or '') or rule[6]]
    if len(eng.rules) == len(idx):
        for i, er in zip(idx, eng.rules):
            rule = rules[i]
            if legacy_rule_truth(rule, txn) != engine_rule_truth(er, txn):
                resp |= (feats[i] or {'other'})
                if modifiers_disagree(rule[4], txn):
                    resp.add('modifiers-disagree')  # the row's modifiers ALONE answer differently on the two sides for this transaction
                base.setdefault('rows_matching_differently', []).append(list(rule[:4]))
                break
    if not resp:
        # every row matches alike on both sides: the difference is in names or tags
        matching = [i for i, rule in enumerate(rules) if legacy_rule_truth(rule, txn)]
        names_l, names_m = obs['legacy'][:3], obs['migrated'][:3]
        if names_l != names_m and [x.strip() for x in names_l] == names_m and any('untrimmed' in feats[i] for i in matching):
            resp.add('untrimmed')
        elif names_l == names_m and obs['legacy'][3] != obs['migrated'][3] and any('tag-syntax' in feats[i] for i in matching):
            resp.add('tag-syntax')
    label = diff_label(resp, txn, rules)
    return dict(base, **{'class': label, 'failure': 'classification-differs', 'features': sorted(resp), 'observed': obs['migrated'],
                         'required': obs['legacy']})


def run_pipelines_many(csv_text, txns, b):
    """`run_pipelines` for SEVERAL transactions against one migration of the file: a list of (legacy, migrated) answers, or None when
    the generated file does not load / the migration fails (the caller then goes through `oracle`)."""
    from tally import merchant_utils as MU, cli
    cfg = os.path.join(b.dir, f'cfg{b.n}')
    b.n += 1
    os.makedirs(cfg)
    csv_path = os.path.join(cfg, 'merchant_categories.csv')
    with open(csv_path, 'w', encoding='utf-8', newline='') as f:
        f.write(csv_text)

    def answers(rules):
        out = []
        for txn in txns:
            m, c, s, info = MU.normalize_merchant(txn['description'], rules, amount=txn['amount'], txn_date=txn.get('date'),
                                                  field=copy.deepcopy(txn.get('field')))
            out.append([m, c, s, tagset(info)])
        return out
    try:
        MU.clear_engine_cache()
        legacy = answers(MU.get_all_rules(csv_path))
        with quiet():
            ok = cli._migrate_csv_to_rules(csv_path, cfg, backup=False)
        rp = os.path.join(cfg, 'merchants.rules')
        if not ok or not os.path.exists(rp):
            return None
        MU.clear_engine_cache()
        with quiet():
            rules_new = MU.get_all_rules(rp)
            if MU.get_cached_engine() is None:
                return None
            migrated = answers(rules_new)
    except Exception:
        return None
    finally:
        MU.clear_engine_cache()
    return list(zip(legacy, migrated))


def oracle_sweep(case, b):
    """The property oracle on every transaction of case['sweep'] (the case's description and amount on each probe date).  Both real
    pipelines are built once for the file; a date on which they answer differently goes through `oracle` (one call per distinct
    pair of answers) so that the failure carries the same fields and label as any other.  Returns (failures, transactions tried)."""
    csv_text = case.get('csv_text') or render_csv(case)
    txns = [dict(case['txn'], date=d) for d in case['sweep']]
    res = run_pipelines_many(csv_text, txns, b)
    if res is None:
        return [], 0            # does not load: reported by the single-transaction oracle on case['txn']
    out, seen = [], set()
    for txn, (legacy, migrated) in zip(txns, res):
        if legacy != migrated:
            key = json.dumps([legacy, migrated])
            if key in seen or len(seen) >= 6:
                continue
            seen.add(key)
            pf = oracle(dict(case, csv_text=csv_text, txn=txn), b)
            if pf:
                out.append(pf)
    return out, len(txns)


def single_row_content(rule, for_match_text=False):
    from tally import merchant_engine as ME
    row = tuple(rule[:5]) + (rule[6],)
    if for_match_text:       # the match line does not depend on the names; make sure a section is written at all
        row = (row[0], 'M', 'C', '', row[4], [])
    return ME.csv_to_merchants_content([row])


LABEL = {'relative-date': 'D14c.relative-date-modifier', 'legacy-expression': 'D14d.legacy-pattern-evaluates-as-expression',
         'upper': 'D14h.description-upper-not-case-equivalent', 'untrimmed': 'D14f.untrimmed-or-empty-name',
         'tag-syntax': 'D14g.tag-with-comma-or-parenthesis', 'backslash-or-quote': 'D14a.pattern-with-backslash-or-quote',
         'amount-eq': 'D14b.amount-eq-epsilon', 'empty-rule': 'D14e.row-without-category-and-tags',
         'many-digit-threshold': 'other.amount-threshold-with-7-or-more-significant-digits',      # never a known finding
         'calendar-range': 'other.date-range-on-month-or-year-boundaries'}                       # never a known finding


def load_label(feats):
    for k in ('relative-date', 'empty-rule', 'untrimmed', 'backslash-or-quote'):
        if k in feats:
            return LABEL[k]
    return 'other.does-not-load'


def diff_label(feats, txn, rules):
    # the classes of the known findings first; then, when the row's modifiers alone answer differently on the two sides, the modifier
    # classes before the pattern class (none of these four labels can be a known finding)
    tail = ('many-digit-threshold', 'backslash-or-quote', 'amount-eq', 'calendar-range')
    if 'modifiers-disagree' in feats:
        tail = ('many-digit-threshold', 'amount-eq', 'calendar-range', 'backslash-or-quote')
    for k in ('relative-date', 'legacy-expression', 'upper', 'untrimmed', 'tag-syntax') + tail:
        if k in feats:
            return LABEL[k]
    return 'other.classification-differs'


FINDING_OF = {'D14c.relative-date-modifier': 'D14c', 'D14d.legacy-pattern-evaluates-as-expression': 'D14d',
              'D14f.untrimmed-or-empty-name': 'D14f', 'D14g.tag-with-comma-or-parenthesis': 'D14g',
              'D14h.description-upper-not-case-equivalent': 'D14h'}


def classify(pf):
    """Narrow classifiers (input class of the responsible CSV row + kind of failure):
    D14c  the row carries a [date:lastNdays] modifier (condition dropped, or the note breaks the match line)
    D14d  the CSV path evaluates the row's pattern as an EXPRESSION (residue of D1), the migrated rule uses it as a regex
    D14f  merchant/category/subcategory with leading/trailing white space or an empty merchant (.rules syntax trims / rejects)
    D14g  a tag containing ',' '(' or ')' (.rules tag list syntax)
    D14h  str.upper() of the description is not a case-insensitive equivalent (ß, ǆ, ﬁ …) or the pattern switches
          case-insensitivity off with (?-i:…): the CSV path searches description.upper()
    Everything else — in particular backslash/quote patterns (D14a), [amount=v] (D14b), rows without category and tags
    (D14e) — is NOT a known finding."""
    return FINDING_OF.get(pf.get('class'))


# ------------------------------------------------------------------------------------------------ correspondence streams

def cond_json(parsed, unit):
    def num(v):
        return {'val': exact(v, unit), 'text': cps(repr(v))}
    am, dt = [], []
    for c in parsed.amount_conditions:
        if c.operator == ':':
            am.append({'op': ':', 'lo': num(c.min_value), 'hi': num(c.max_value)})
        else:
            am.append({'op': c.operator, 'v': num(c.value)})
    for c in parsed.date_conditions:
        if c.operator == '=':
            dt.append({'op': '=', 'd': [c.value.year, c.value.month, c.value.day]})
        elif c.operator == ':':
            dt.append({'op': ':', 'a': [c.start_date.year, c.start_date.month, c.start_date.day],
                       'b': [c.end_date.year, c.end_date.month, c.end_date.day]})
        elif c.operator == 'month':
            dt.append({'op': 'month', 'm': c.month})
        else:
            dt.append({'op': 'relative', 'n': c.relative_days})
    return {'amount': am, 'date': dt}


def parsed_doubles(parsed):
    out = [0.01]
    for c in parsed.amount_conditions:
        out += [x for x in (c.value, c.min_value, c.max_value) if x is not None]
    return out


def finite(parsed):
    import math
    return all(math.isfinite(x) for x in parsed_doubles(parsed))


def txn_json(txn, unit):
    d = txn.get('date')
    return {'desc': cps(txn['description']), 'amount': None if txn['amount'] is None else exact(txn['amount'], unit),
            'date': [d.year, d.month, d.day] if d else None}


def cutoffs_json(parsed):
    today = datetime.date.today()
    out = []
    for c in parsed.date_conditions:
        if c.operator == 'relative':
            try:
                co = today - datetime.timedelta(days=c.relative_days)
                out.append([c.relative_days, [co.year, co.month, co.day]])
            except OverflowError:
                pass
    return out


def escape_stream(ctx, patterns):
    """pyEscape vs the converter; returns the detected fixA (None if neither model agrees)."""
    from tally import merchant_engine as ME
    from tally.modifier_parser import ParsedPattern
    impl = []
    for p in patterns:
        content = ME.csv_to_merchants_content([(p, 'M', 'C', 'S', ParsedPattern(regex_pattern=p), [])])
        line = [l for l in content.split('\n') if l.startswith('match: ')][0]
        assert line.startswith('match: regex("') and line.endswith('")'), line
        impl.append(line[len('match: regex("'):-2])
    d = common.Driver()
    agree = {}
    for fix in (False, True):
        model = d.batch([{'op': 'migrate', 'kind': 'escape', 'fixA': fix, 'p': cps(p)} for p in patterns])
        agree[fix] = [uncps(m['out']) == i for m, i in zip(model, impl)]
    interesting = [i for i, p in enumerate(patterns) if '\\' in p or '"' in p]
    det = None
    for fix in (False, True):
        if all(agree[fix]):
            det = fix if (det is None or interesting) else det
    if all(agree[False]) and all(agree[True]):
        det = False
    bad = None
    if det is None:
        i = next(i for i in range(len(patterns)) if not agree[False][i] or not agree[True][i])
        bad = {'pattern': patterns[i], 'converter_wrote': impl[i]}
    ctx.obligation('correspondence:converter-escaping-vs-Migrate.pyEscape', 'correspondence', det is not None,
                   cases=len(patterns), error=json.dumps(bad)[:600] if bad else None)
    return det


def expected_numbers(parsed, fixB):
    """The numbers a faithful rendering of the modifiers has to DENOTE, in order (CSV thresholds, the 0.01 window of `=`, months)."""
    out = []
    for c in parsed.amount_conditions:
        if c.operator == ':':
            out += [c.min_value, c.max_value]
        elif c.operator == '=' and fixB:
            out += [c.value, 0.01]
        else:
            out.append(c.value)
    for c in parsed.date_conditions:
        if c.operator == 'month':
            out.append(float(c.month))
    return out


def denoted_numbers(text):
    """The numeric literals of a generated modifier expression, as CPython reads them (None: not an expression CPython parses)."""
    try:
        tree = ast.parse(text, mode='eval')
    except (SyntaxError, ValueError):
        return None
    nums = [(n.lineno, n.col_offset, float(n.value)) for n in ast.walk(tree)
            if isinstance(n, ast.Constant) and type(n.value) in (int, float)]
    return [v for _, _, v in sorted(nums)]


def literal_value_stream(ctx, items):
    """Oracle on the converter alone (no model): every amount threshold of the CSV rule is denoted EXACTLY (same double) by the
    numeric literal written into the generated expression, whatever its spelling (`200`, `200.0`, `2e2` are all fine)"""
    from tally import merchant_engine as ME
    bad, n, many = [], 0, 0
    seen = set()
    for parsed, _ in items:
        text = ME._modifier_to_expr(parsed)
        if not text or '#' in text or text in seen:
            continue
        seen.add(text)
        got = denoted_numbers(text)
        if got is None:
            continue
        bits = lambda l: [common.float_bits(float(x)) for x in l]
        exps = [expected_numbers(parsed, True), expected_numbers(parsed, False)]    # `=` written with or without the 0.01 window
        n += 1
        many += any(float('%.6g' % v) != v for v in exps[0])
        if bits(got) not in [bits(e) for e in exps]:
            bad.append({'generated_expression': text, 'denotes': got, 'csv_thresholds': exps[0]})
    ctx.obligation('oracle:numeric-literals-of-the-generated-expression-denote-the-CSV-thresholds-exactly', 'assumption-test', not bad,
                   cases=n, error=json.dumps(bad[0])[:600] if bad else None)
    ctx.notes['threshold_literals_checked'] = {'distinct_modifier_expressions': n, 'with_a_threshold_of_7_or_more_significant_digits': many}


def rounding_sensitive(parsed, amount):
    """[amount=v] is `abs(amount - v) < 0.01` in DOUBLE arithmetic on both paths; the model evaluates it on exact values
    (trusted base: the rounding of that one subtraction is modelled away).  True when the two readings differ for this amount —
    a razor's edge of one ulp around v ± 0.01 that the boundary generator hits on purpose; such a case is left to the
    implementation-only oracle (both pipelines still have to agree) and counted."""
    if amount is None:
        return False
    for c in parsed.amount_conditions:
        if c.operator == '=':
            try:
                exact_lt = abs(Fraction(amount) - Fraction(c.value)) < Fraction(0.01)
                float_lt = abs(amount - c.value) < 0.01
            except (ValueError, OverflowError, TypeError):
                continue
            if exact_lt != float_lt:
                return True
    return False


ROUNDING_SKIPPED = [0]


def mods_stream(ctx, items):
    """items: (parsed, txn). modifierExpr/_modifier_to_expr, checkAll/check_all_conditions, evaluation/expr_parser."""
    from tally import merchant_engine as ME, expr_parser as EP
    from tally.modifier_parser import check_all_conditions
    impl, cases = [], {False: [], True: []}
    kept = []
    for parsed, txn in items:
        if rounding_sensitive(parsed, txn['amount']):
            ROUNDING_SKIPPED[0] += 1
            continue
        kept.append((parsed, txn))
    items = kept
    for parsed, txn in items:
        unit = doubles_unit(parsed_doubles(parsed) + [txn['amount']])
        text = ME._modifier_to_expr(parsed)
        chk = bool(check_all_conditions(parsed, txn['amount'], txn.get('date')))
        t = {'description': txn['description'], 'amount': txn['amount'] or 0}
        if txn.get('date'):
            t['date'] = txn['date']
        hit = None
        if text and '#' not in text:
            try:
                with quiet():
                    hit = bool(EP.matches_transaction(text, t))
            except Exception:       # ExpressionError (or, before the D8 repair, the raw TypeError): the rule does not match
                hit = False
        impl.append({'text': text, 'check': chk, 'hit': hit})
        for fix in (False, True):
            cases[fix].append({'op': 'migrate', 'kind': 'mods', 'fixB': fix, 'parsed': cond_json(parsed, unit),
                               'txn': txn_json(txn, unit), 'eps': {'val': exact(0.01, unit), 'text': cps('0.01')},
                               'cutoffs': cutoffs_json(parsed)})
    d = common.Driver()
    res = {}
    for fix in (False, True):
        model = d.batch(cases[fix])
        bad = []
        for (parsed, txn), im, mo in zip(items, impl, model):
            ok = uncps(mo['text']) == im['text'] and mo['check'] == im['check'] and (im['hit'] is None or mo['conj'] == im['hit'])
            if not ok:
                bad.append({'modifiers': im['text'], 'txn': jtxn(txn), 'implementation': im,
                            'model': {'text': uncps(mo['text']), 'check': mo['check'], 'hit': mo['conj']}})
        res[fix] = bad
    has_eq = any(any(c.operator == '=' for c in p.amount_conditions) for p, _ in items)
    det = None
    if not res[False]:
        det = False
    if not res[True] and (det is None or has_eq and res[False]):
        det = True
    if not res[False] and not res[True]:
        det = False
    bad = None
    if det is None:
        bad = (res[False] or res[True])[0]
        if res[False] and res[True]:
            # report the disagreement that is NOT about the '=' form if there is one; otherwise one of the variant that is closer
            closer = res[True] if len(res[True]) <= len(res[False]) else res[False]
            bad = next((x for x in res[True] if x in res[False]), closer[0])
    ctx.obligation('correspondence:_modifier_to_expr+check_all_conditions+evaluation-vs-Migrate.modifierExpr/checkAll/hitConj',
                   'correspondence', det is not None, cases=len(items), error=json.dumps(bad, default=str)[:900] if bad else None)
    return det


def detect_fixE():
    from tally import merchant_engine as ME
    from tally.modifier_parser import ParsedPattern
    return '[M]' not in ME.csv_to_merchants_content([('X', 'M', '', '', ParsedPattern(regex_pattern='X'), [])])


def regex_arg(match_text):
    """The decoded first argument of the first regex(...) call of a match expression, by CPython."""
    try:
        with warnings.catch_warnings():
            warnings.simplefilter('ignore')
            tree = ast.parse(match_text, mode='eval')
    except (SyntaxError, ValueError):
        return None
    for node in ast.walk(tree):
        if isinstance(node, ast.Call) and isinstance(node.func, ast.Name) and node.func.id == 'regex' and node.args \
                and isinstance(node.args[0], ast.Constant) and isinstance(node.args[0].value, str):
            return node.args[0].value
    return None


def re_search(p, s):
    try:
        with warnings.catch_warnings():
            warnings.simplefilter('ignore')
            return re.search(p, s, re.IGNORECASE) is not None
    except (re.error, RecursionError, OverflowError):
        return None


def model_rules_json(rules, unit):
    return [{'pattern': cps(r[0]), 'merchant': cps(r[1] or ''), 'category': cps(r[2] or ''), 'subcategory': cps(r[3] or ''),
             'parsed': cond_json(r[4], unit), 'tags': [cps(t) for t in r[6]]} for r in rules]


def classify_stream(ctx, cases, fixA, fixB, fixE, b):
    """file + classify ops against the real converter / parser / both pipelines."""
    from tally import merchant_utils as MU, merchant_engine as ME, expr_parser as EP
    file_cases, file_impl, cl_cases, cl_impl, meta = [], [], [], [], []
    hupper = {'pairs': 0, 'violations': [], 'empty_ok': True}
    skipped = 0
    for case in cases:
        csv_text = case.get('csv_text') or render_csv(case)
        txn = case['txn']
        obs = run_pipelines(csv_text, txn, b)
        rules = obs['rules_csv']
        if not rules or not all(finite(r[4]) for r in rules) or any(x is None for r in rules for x in r[:4]):
            skipped += 1
            continue
        if any(rounding_sensitive(r[4], txn['amount']) for r in rules):
            ROUNDING_SKIPPED[0] += 1
            skipped += 1        # one-ulp edge of [amount=v]: outside the exact-arithmetic model (see rounding_sensitive)
            continue
        if not fixA and any('"' in r[0] for r in rules):
            skipped += 1        # pinned converter + raw quote: the line is re-tokenised by Python in ways the literal model does not cover
            continue
        unit = doubles_unit([x for r in rules for x in parsed_doubles(r[4])] + [txn['amount']])
        eps = {'val': exact(0.01, unit), 'text': cps('0.01')}
        mrules = model_rules_json(rules, unit)
        content = obs['content']
        if content is None:
            skipped += 1
            continue
        # ---- file op
        match_texts = []
        for rule in rules:
            single = single_row_content(rule, for_match_text=True)
            match_texts.append([l for l in single.split('\n') if l.startswith('match: ')][0][len('match: '):].strip())
        valid = []
        for mt in set(match_texts):
            try:
                with quiet():
                    EP.parse_expression(mt)
                valid.append([cps(mt), True])
            except EP.ExpressionError:
                valid.append([cps(mt), False])
        file_cases.append({'op': 'migrate', 'kind': 'file', 'fixA': fixA, 'fixB': fixB, 'fixE': fixE, 'eps': eps, 'rules': mrules, 'valid': valid})
        try:
            with quiet():
                eng = ME.parse_merchants(content)
            parsed_impl = {'ok': [{'name': r.name, 'merchant': r.merchant, 'category': r.category, 'subcategory': r.subcategory,
                                   'tags': sorted(r.tags), 'match': r.match_expr, 'priority': r.priority} for r in eng.rules]}
        except ME.MerchantParseError as e:
            parsed_impl = {'err': e.line_number}
        file_impl.append({'lines': content.split('\n'), 'parsed': parsed_impl})
        # ---- classify op (oracle tables from CPython / the implementation's own primitives)
        desc = txn['description']
        t = {'description': desc, 'amount': txn['amount'] or 0, 'field': copy.deepcopy(txn.get('field')), 'source': None, 'location': None}
        if txn.get('date'):
            t['date'] = txn['date']
        retab, lexpr, lower, dynl, dyne, cut = [], [], [], [], [], []
        for rule, mt in zip(rules, match_texts):
            p = rule[0]
            retab.append([cps(p), cps(desc.upper()), re_search(p, desc.upper())])
            retab.append([cps(p), cps(desc), re_search(p, desc)])
            q = regex_arg(mt)
            if q is not None:
                retab.append([cps(q), cps(desc), re_search(q, desc)])
            a, bb = re_search(p, desc.upper()), re_search(p, desc)
            hupper['pairs'] += 1
            if a != bb and len(hupper['violations']) < 5:
                hupper['violations'].append({'pattern': p, 'description': desc, 'on_upper': a, 'on_original': bb, 'corner': case.get('corner')})
            le = None
            if MU._is_expression_pattern(p):
                try:
                    with quiet():
                        le = bool(EP.matches_transaction(p, copy.deepcopy(t)))
                except EP.ExpressionError:
                    le = None
            lexpr.append([cps(p), le])
            for tag in rule[6]:
                s = tag.strip()
                lower.append([cps(s), cps(s.lower())])
                if s.startswith('{') and s.endswith('}'):
                    dynl.append([cps(s), [cps(x) for x in MU._resolve_dynamic_tags([s], copy.deepcopy(t))]])
                    dummy = ME.MerchantRule(name='x', match_expr='true', tags={s})
                    dyne.append([cps(s), [cps(x) for x in sorted(ME.MerchantEngine()._resolve_tags(dummy, copy.deepcopy(t), {}))]])
            cut += cutoffs_json(rule[4])
        if re_search('', desc) is not True:
            hupper['empty_ok'] = False
        cl_cases.append({'op': 'migrate', 'kind': 'classify', 'fixA': fixA, 'fixB': fixB, 'fixE': fixE, 'eps': eps, 'rules': mrules,
                         'txn': txn_json(txn, unit), 're': retab, 'upper': [[cps(desc), cps(desc.upper())]], 'lower': lower,
                         'legacy_expr': lexpr, 'dyn_legacy': dynl, 'dyn_engine': dyne, 'cutoffs': cut, 'valid': valid,
                         'fallback': MU.extract_merchant_name(desc)})
        cl_impl.append({'legacy': obs['legacy'], 'migrated': obs.get('migrated'), 'load_error': obs.get('load_error')})
        meta.append({'csv_text': csv_text, 'txn': jtxn(txn)})
    d = common.Driver()
    fm = d.batch(file_cases)
    cm = d.batch(cl_cases)
    bad_file, bad_cl, structure_checked, unmodelled = [], [], 0, 0
    for mo, im, me in zip(fm, file_impl, meta):
        lines = [uncps(l) for l in mo['lines']]
        if lines != im['lines']:
            k = next((i for i, (a, b_) in enumerate(zip(lines, im['lines'])) if a != b_), min(len(lines), len(im['lines'])))
            bad_file.append(dict(me, what='generated lines differ', line=k, model=lines[k:k + 1], implementation=im['lines'][k:k + 1]))
            continue
        mp = mo['parsed']
        if 'ok' in mp:
            got = {'ok': [{'name': uncps(r['name']), 'merchant': uncps(r['merchant']), 'category': uncps(r['category']),
                           'subcategory': uncps(r['subcategory']), 'tags': sorted(uncps(t) for t in r['tags']),
                           'match': uncps(r['match']), 'priority': r['priority']} for r in mp['ok']['rules']]}
        else:
            got = {'err': mp['line']}
        if got != im['parsed']:
            bad_file.append(dict(me, what='parse of the generated file differs', model=got, implementation=im['parsed']))
            continue
        if all(mo['ok']):          # the statement of `structure`: CsvRuleOk ⇒ parses to exactly toRule of every row
            structure_checked += 1
            exp = [{'name': uncps(r['name']), 'merchant': uncps(r['merchant']), 'category': uncps(r['category']),
                    'subcategory': uncps(r['subcategory']), 'tags': sorted(uncps(t) for t in r['tags']),
                    'match': uncps(r['match']), 'priority': r['priority']} for r in mo['expect']]
            if got != {'ok': exp}:
                bad_file.append(dict(me, what='CsvRuleOk file does not parse to toRule of its rows', model_expect=exp, parsed=got))
    for mo, im, me in zip(cm, cl_impl, meta):
        ml = [mo['legacy'][k] for k in ('merchant', 'category', 'subcategory', 'tags')]
        if ml != im['legacy']:
            bad_cl.append(dict(me, side='legacy', model=ml, implementation=im['legacy'], outcomes=mo['outcomes']))
            continue
        me_ = mo['engine']
        if any(d.get('err') == 'unsupported' for d in mo['decoded']):
            unmodelled += 1      # pinned converter only: a raw \N{…} / surrogate escape reached the literal; the model declines
        elif 'unmodelled' in me_:
            unmodelled += 1
        elif 'load_error' in me_:
            if not (im['load_error'] or '').startswith('MerchantParseError'):
                bad_cl.append(dict(me, side='migrated', model=me_, implementation=im['migrated'] or im['load_error']))
        elif im['migrated'] is None:
            bad_cl.append(dict(me, side='migrated', model=me_, implementation=im['load_error']))
        else:
            mg = [me_[k] for k in ('merchant', 'category', 'subcategory', 'tags')]
            if mg != im['migrated']:
                bad_cl.append(dict(me, side='migrated', model=mg, implementation=im['migrated'], hits=mo['hits']))
    ctx.obligation('correspondence:csv_to_merchants_content+parse_merchants-vs-Migrate.render+Impl.parseRulesFile', 'correspondence',
                   not bad_file, cases=len(file_cases), error=json.dumps(bad_file[0], default=str)[:1200] if bad_file else None)
    ctx.obligation('correspondence:both-pipelines-vs-Migrate.classifyLegacy/classifyEngine', 'correspondence',
                   not bad_cl, cases=len(cl_cases), error=json.dumps(bad_cl[0], default=str)[:1200] if bad_cl else None)
    unexpected = [v for v in hupper['violations'] if v.get('corner') != 'upper']
    ctx.obligation('hypothesis:H_upper-and-H_empty-on-generated-pairs(CPython re)', 'assumption-test',
                   not unexpected and hupper['empty_ok'], cases=hupper['pairs'],
                   error=json.dumps(unexpected[0])[:500] if unexpected else None)
    ctx.notes['H_upper'] = {'pairs_tested': hupper['pairs'],
                            'excluded_points_seen (corner stream "upper": ß/ǆ/ﬁ descriptions, (?-i:…))': [v for v in hupper['violations'] if v.get('corner') == 'upper'][:3]}
    ctx.notes['structure_statement_checked_on_files'] = structure_checked
    ctx.notes['classify_cases_unmodelled(section count differs / literal escape the model declines)'] = unmodelled
    ctx.notes['correspondence_cases_skipped(non-finite amount literal / short row / raw quote on pinned converter)'] = skipped
    return len(file_cases) + len(cl_cases)


# ------------------------------------------------------------------------------------------------ fixed witnesses / excluded points

HDR = 'Pattern,Merchant,Category,Subcategory,Tags\n'
D = datetime.date
WITNESSES = [
    ('D14a-wordboundary', HDR + '\\bUBER\\b,Uber,Transport,Ride,\n', {'description': 'UBER TRIP', 'amount': 5.0, 'date': D(2025, 1, 1)}),
    ('D14a-backreference', HDR + '(\\w)\\1,Double,Misc,,\n', {'description': 'SEATTLE', 'amount': 5.0, 'date': D(2025, 1, 1)}),
    ('D14a-backslash', HDR + 'A\\\\B,AB,Misc,,\n', {'description': 'A\\B IMPORTS', 'amount': 5.0, 'date': D(2025, 1, 1)}),
    ('D14a-quote', HDR + '"SAY ""HI""",Hi,Misc,,\n', {'description': 'SAY "HI" STORE', 'amount': 5.0, 'date': D(2025, 1, 1)}),
    ('D14b-eq-epsilon', HDR + 'SHOP[amount=100],Shop,Shopping,,a|B\n', {'description': 'SHOP', 'amount': 100.004, 'date': D(2025, 1, 1)}),
    ('D14c-relative-dropped', HDR + 'X[date:last30days],X,Cat,,\n', {'description': 'X', 'amount': 1.0, 'date': D(2020, 1, 1)}),
    ('D14c-relative-breaks-file', HDR + 'X[amount>5][date:last30days],X,Cat,,\n', {'description': 'X', 'amount': 10.0, 'date': D(2020, 1, 1)}),
    ('D14d-legacy-expression', HDR + 'contains("UBER"),One,Transport,Rideshare,\n', {'description': 'UBER TRIP', 'amount': 1.0, 'date': D(2025, 1, 1)}),
    ('D1b-fixed', HDR + '(123)[amount:0-100],M0,Food,,\nSTORE,M1,Shopping,,\n', {'description': 'trader store 123', 'amount': -20.5, 'date': D(2025, 1, 1)}),
    ('D14e-empty-rule', HDR + 'UBER,Uber,,,\nLYFT,Lyft,Transport,,\n', {'description': 'LYFT', 'amount': 1.0, 'date': D(2025, 1, 1)}),
    ('D14f-untrimmed', HDR + 'UBER, Uber ,Cat , Sub,\n', {'description': 'UBER', 'amount': 1.0, 'date': D(2025, 1, 1)}),
    ('D14g-tag-syntax', HDR + 'UBER,Uber,Cat,Sub,"a,b|c"\n', {'description': 'UBER', 'amount': 1.0, 'date': D(2025, 1, 1)}),
    ('D14h-upper', HDR + 'STRASSE,Street,Cat,,\n', {'description': 'STRAßE 5', 'amount': 1.0, 'date': D(2025, 1, 1)}),
    ('D1-fixed', HDR + '(UBER|LYFT),Ride,Transport,Rideshare,\n', {'description': 'UBER TRIP', 'amount': 12.5, 'date': D(2025, 1, 1)}),
    ('ok-combination', HDR + '# c\nCOSTCO(?!GAS)[amount:50-200][date:2025-01-01..2025-12-31][month=6],Costco,Shopping,Wholesale,big|x y\n',
     {'description': 'costco whse #123', 'amount': 200.0, 'date': D(2025, 6, 30)}),
]

EXCLUDED_POINTS = [
    ('transaction-without-amount', HDR + 'UBER[amount<5],Uber,Cat,Sub,\n', {'description': 'uber', 'amount': None, 'date': D(2020, 1, 1)}),
    ('short-row', 'Pattern,Merchant,Category,Subcategory\nUBER,Uber\n', {'description': 'uber', 'amount': 1.0, 'date': D(2020, 1, 1)}),
    ('newline-in-category', HDR + 'UBER,Uber,"Ca\nt",Sub,\n', {'description': 'uber', 'amount': 1.0, 'date': D(2020, 1, 1)}),
    ('amount-literal-overflows-to-inf', HDR + 'UBER[amount<' + '9' * 400 + '],Uber,Cat,Sub,\n', {'description': 'uber', 'amount': 1.0, 'date': D(2020, 1, 1)}),
]


# ------------------------------------------------------------------------------------------------ the check

# obligations whose failure points at the loader / modifier-parser side (model Legacy.*): theorem names of §8, the translator, the streams
LEGACY_OBLIGATION_MARKS = ('Legacy.', 'legacy-loader', 'modifier_tables', 'modifier_regexes_as_modelled', 'parse_blocks', 'parse_render',
                           'blanks_insensitive', 'parse_shape', 'parse_ok_prefix', 'parse_error_local', 'comment_line', 'crlf_is_lf',
                           'load_written', 'row_local', 'moderr_row_keeps_cell', 'migration_preserves_from_file', 're-IGNORECASE')

def gen_cases(r, n, corners=True, focus=False):
    out = []
    for i in range(n):
        corner = None
        if corners and i % 12 == 11:
            corner = CORNER_KINDS[(i // 12) % len(CORNER_KINDS)]
        out.append(gen_case(r, corner, focus=focus and i % 2 == 0))
    return out


STRUCT_RE = re.compile(r'\\[1-9]|\(\?P[<=]|\(\?\(|^\(\?[aimsx]+\)')


def stream_coverage(cases):
    """Counts of the input classes of the widened generator (for the evidence)."""
    from tally.modifier_parser import parse_pattern_with_modifiers, ModifierParseError
    cov = {'files_with_adjacent_rows_sharing_outputs': 0, 'files_with_non_adjacent_rows_sharing_outputs': 0,
           'shared_output_runs_with_backreference_named_group_conditional_or_leading_flag': 0,
           'rows_with_backreference_named_group_conditional_or_leading_flag': 0,
           'amount_thresholds_with_7_or_more_significant_digits': 0, 'transactions_on_a_precision_probe_of_a_threshold': 0}
    for case in cases:
        rows, share = case.get('rows'), case.get('share')
        if not rows:
            continue
        adj = [i for i, j in enumerate(share) if j is not None and j == i - 1]
        cov['files_with_adjacent_rows_sharing_outputs'] += bool(adj)
        cov['files_with_non_adjacent_rows_sharing_outputs'] += any(j is not None and j != i - 1 for i, j in enumerate(share))
        probes = set()
        for i, row in enumerate(rows):
            try:
                parsed = parse_pattern_with_modifiers(row[0].strip())
            except ModifierParseError:
                continue
            st = bool(STRUCT_RE.search(parsed.regex_pattern))
            cov['rows_with_backreference_named_group_conditional_or_leading_flag'] += st
            if st and (i in adj or i + 1 in adj):
                cov['shared_output_runs_with_backreference_named_group_conditional_or_leading_flag'] += 1
            for c in parsed.amount_conditions:
                for v in (c.value, c.min_value, c.max_value):
                    if v is not None and float('%.6g' % v) != v:
                        cov['amount_thresholds_with_7_or_more_significant_digits'] += 1
                        probes.update(precision_probes(v))
        cov['transactions_on_a_precision_probe_of_a_threshold'] += case['txn']['amount'] in probes or -case['txn']['amount'] in probes
    return cov


def calendar_coverage(cal_cases):
    """Counts of what the calendar stream produced (for the evidence): shapes of the ranges as the CSV LOADER parsed them, and where
    the probe transactions fall."""
    from tally.modifier_parser import parse_pattern_with_modifiers, ModifierParseError
    cov = {'files': len(cal_cases), 'ranges': 0, 'whole_single_month': 0, 'whole_single_year': 0, 'whole_years_several': 0,
           'whole_months_first_to_last_same_year': 0, 'first_of_month_M_to_last_of_month_M_of_a_LATER_year': 0,
           'first_to_last_of_different_months_across_years': 0, 'end_on_Feb_29': 0, 'end_on_Dec_31': 0, 'start_on_Jan_1': 0,
           'an_end_one_day_off_a_month_boundary': 0, 'reversed(empty)': 0, 'crossing_a_year_end': 0, 'spanning_3_or_more_calendar_years': 0,
           'rows_with_range_and_month_or_date_or_amount_modifier': 0, 'rows_with_two_ranges': 0, 'files_with_fallback_row': 0,
           'probe_dates': 0, 'probe_dates_inside_a_range': 0, 'probe_dates_inside_a_range_after_its_first_month': 0,
           'probe_dates_on_a_range_end_or_the_day_outside': 0}
    for case in cal_cases:
        ranges = []
        for row in case['rows']:
            try:
                parsed = parse_pattern_with_modifiers(row[0].strip())
            except ModifierParseError:
                continue
            rr = [(c.start_date, c.end_date) for c in parsed.date_conditions if c.operator == ':']
            cov['rows_with_two_ranges'] += len(rr) > 1
            cov['rows_with_range_and_month_or_date_or_amount_modifier'] += bool(rr) and (
                bool(parsed.amount_conditions) or any(c.operator != ':' for c in parsed.date_conditions))
            ranges += rr
        cov['files_with_fallback_row'] += bool(case.get('fallback'))
        for a, b in ranges:
            cov['ranges'] += 1
            aligned = a.day == 1 and (b + ONE_DAY).day == 1 and a <= b
            cov['whole_single_month'] += aligned and (a.year, a.month) == (b.year, b.month)
            cov['whole_single_year'] += aligned and a.year == b.year and (a.month, b.month) == (1, 12)
            cov['whole_years_several'] += aligned and a.year < b.year and (a.month, b.month) == (1, 12)
            cov['whole_months_first_to_last_same_year'] += aligned and a.year == b.year and a.month != b.month
            cov['first_of_month_M_to_last_of_month_M_of_a_LATER_year'] += aligned and a.year < b.year and a.month == b.month
            cov['first_to_last_of_different_months_across_years'] += aligned and a.year < b.year and a.month != b.month
            cov['end_on_Feb_29'] += (b.month, b.day) == (2, 29)
            cov['end_on_Dec_31'] += (b.month, b.day) == (12, 31)
            cov['start_on_Jan_1'] += (a.month, a.day) == (1, 1)
            cov['an_end_one_day_off_a_month_boundary'] += any(not on_calendar_boundary(d) and (on_calendar_boundary(d - ONE_DAY) or
                                                               on_calendar_boundary(d + ONE_DAY)) for d in (a, b))
            cov['reversed(empty)'] += a > b
            cov['crossing_a_year_end'] += a <= b and a.year < b.year
            cov['spanning_3_or_more_calendar_years'] += a <= b and b.year - a.year >= 2
        for d in case['sweep']:
            cov['probe_dates'] += 1
            inside = [(a, b) for a, b in ranges if a <= d <= b]
            cov['probe_dates_inside_a_range'] += bool(inside)
            cov['probe_dates_inside_a_range_after_its_first_month'] += any((d.year, d.month) > (a.year, a.month) for a, b in inside)
            cov['probe_dates_on_a_range_end_or_the_day_outside'] += any(abs((d - e).days) <= 1 for ab in ranges for e in ab)
    return {k: int(v) for k, v in cov.items()}


def nontrivial(obs_legacy, case):
    return obs_legacy[1] != 'Unknown' or bool(obs_legacy[3])


def run(ctx):
    warnings.simplefilter('ignore', SyntaxWarning)
    lo = common.lean_phase(ctx, 'TallyVerif.Props.C14', regen.regen_modifier_tables)   # noqa: F841
    r = ctx.rng

    # ---- replay
    if ctx.replay:
        rp = json.loads(common.read(ctx.replay))
        ce = rp.get('counterexample') or {}
        if ce.get('legacy_oracle'):
            with Scratch() as b:
                pf = LL.replay(ce, b)
            print(f'[{ctx.prop}] replay: {"still fails" if pf else "passes now"}')
            common.conclude(ctx, [pf] if pf else [], classify=classify, required=REQUIRED)
            return ctx.finish()
        if 'csv_text' not in ce:
            print(f'[{ctx.prop}] replay file carries no counterexample (broken-obligation replay): re-running the full check')
            ctx.replay = None
            return run(ctx)
        with Scratch() as b:
            pf = oracle({'csv_text': ce['csv_text'], 'txn': untxn(ce['txn'])}, b)
        print(f'[{ctx.prop}] replay: {"still fails" if pf else "passes now"}')
        common.conclude(ctx, [pf] if pf else [], classify=classify, required=REQUIRED)
        return ctx.finish()

    evaluations = 0
    prop_fail = []
    try:
        evaluations += literal_stream(ctx, r)
    except Exception as e:
        ctx.obligation('correspondence:CPython-literal-decoding-vs-Migrate.pyUnescape', 'correspondence', False, error=str(e)[:600])

    n = 350 if ctx.quick else 50000
    cases = [{'csv_text': c, 'txn': t, 'witness': name, 'corner': name.split('-')[0] == 'D14h' and 'upper' or None}
             for name, c, t in WITNESSES] + gen_cases(r, n)
    # date ranges aligned to the calendar, each file with a transaction on every month in and around its ranges (drawn AFTER the
    # stream above, so that stream is the same as before for a given VERIF_SEED)
    cal_cases = [gen_calendar_case(r) for _ in range(80 if ctx.quick else 3000)]
    nontriv = set()
    classes = {}
    sweep_txns = 0
    with Scratch() as b:
        # ---- property oracle on every case (implementation only)
        for case in cases + cal_cases:
            pfs = [oracle(case, b)]
            evaluations += 1
            if case.get('sweep'):
                more, k = oracle_sweep(case, b)
                pfs += more
                evaluations += k
                sweep_txns += k
            for pf in pfs:
                if not pf:
                    continue
                if case.get('witness'):
                    pf['witness'] = case['witness']
                prop_fail.append(pf)
                classes[pf['class']] = classes.get(pf['class'], 0) + 1
        # ---- correspondence
        try:
            from tally import merchant_utils as MU
            from tally.modifier_parser import parse_pattern_with_modifiers, ModifierParseError
            patterns = ['\\bUBER\\b', '(A)\\1', 'A\\\\B', 'SAY "HI"', 'plain', "JOE'S", '\\', '"', '\\"', 'a\\\\"b', '', 'é\\d"']
            mod_items = []
            for case in cases + cal_cases:
                rows = case.get('rows')
                if not rows:
                    continue
                for row in rows:
                    try:
                        parsed = parse_pattern_with_modifiers(row[0].strip())
                    except ModifierParseError:
                        continue
                    patterns.append(parsed.regex_pattern)
                    if (parsed.amount_conditions or parsed.date_conditions) and finite(parsed):
                        mod_items.append((parsed, case['txn']))
                        if r.random() < 0.15:
                            mod_items.append((parsed, dict(case['txn'], date=None)))
                        if case.get('sweep'):       # the model's reading of the range on further probe dates of the file
                            for d in r.sample(case['sweep'], min(4, len(case['sweep']))):
                                mod_items.append((parsed, dict(case['txn'], date=d)))
            for name, c, t in WITNESSES:
                for line in c.split('\n')[1:]:
                    if line and not line.startswith('#'):
                        try:
                            parsed = parse_pattern_with_modifiers(line.split(',')[0])
                            if parsed.amount_conditions or parsed.date_conditions:
                                mod_items.append((parsed, t))
                        except ModifierParseError:
                            pass
            patterns = [p for p in dict.fromkeys(patterns) if p and '\n' not in p]
            fixA = escape_stream(ctx, patterns)
            fixB = mods_stream(ctx, mod_items)
            literal_value_stream(ctx, mod_items)
            evaluations += len(patterns) + len(mod_items)
            fixE = detect_fixE()
            ctx.notes['one_ulp_edges_of_amount_equals_left_to_the_implementation_oracle'] = ROUNDING_SKIPPED[0]
            ctx.notes['implementation_corresponds_to_model_with'] = {'fixA (D14a escaping)': fixA, 'fixB (D14b epsilon)': fixB,
                                                                     'fixE (D14e rows without category and tags skipped)': fixE}
            m = len(cases) if ctx.quick else 8000
            cal_corr = []
            for case in cal_cases[:len(cal_cases) if ctx.quick else 1000]:      # each calendar file on three of its probe dates
                cal_corr += [case] + [dict(case, txn=dict(case['txn'], date=r.choice(case['sweep']))) for _ in range(2)]
            evaluations += classify_stream(ctx, cases[:m] + cal_corr, bool(fixA), bool(fixB), fixE, b)
        except Exception as e:
            import traceback
            ctx.obligation('correspondence:driver', 'correspondence', False, error=traceback.format_exc()[-1500:])
        # ---- coverage
        for case in cases[:400]:
            obs = run_pipelines(case.get('csv_text') or render_csv(case), case['txn'], b)
            if nontrivial(obs['legacy'], case):
                nontriv.add(json.dumps([case.get('rows') or case.get('witness'), jtxn(case['txn'])], default=str))
        # ---- excluded points: run on the real code, recorded (not verdicts)
        ex = {}
        for name, c, t in EXCLUDED_POINTS:
            try:
                obs = run_pipelines(c, t, b)
                ex[name] = {'legacy': obs['legacy'], 'migrated': obs.get('migrated'), 'load_error': obs.get('load_error')}
            except Exception as e:
                ex[name] = {'raised': type(e).__name__}
        ctx.notes['excluded_points_outside_the_generator (observed, not verdicts)'] = ex
        # ---- the legacy CSV loader and the modifier text parser (drawn LAST from ctx.rng: the streams above are unchanged)
        legacy_fails, legacy_ev, legacy_nontrivial = LL.run_streams(ctx, r, b)
        prop_fail += legacy_fails
        for pf in legacy_fails:
            classes[pf['class']] = classes.get(pf['class'], 0) + 1
        evaluations += legacy_ev

    ctx.cov['evaluations'] = evaluations
    ctx.cov['traces_validated_against_impl'] = evaluations
    ctx.cov['distinct_nontrivial'] = len(nontriv) + legacy_nontrivial
    ctx.cov['rule'] = ('generated CSV rule files (1–6 rows; patterns with \\b \\d \\s anchors, alternation, groups, back-references, look-ahead/behind, '
                       'quotes, brackets, \\\\, \\x41, \\101, \\u004f, \\N{…}, invalid regexes; every modifier form alone and combined, with spaces, '
                       'invalid modifiers; pipe tags incl. {field.x}; comments, blank lines, 4/5 columns) × transactions on the modifier '
                       'boundaries (v, v±0.004, v±0.0099, v±0.01, v±0.011, range ends ±1 day, month edges, negative amounts); every case '
                       'runs both real pipelines (oracle) and both model classifiers; non-trivial = the CSV rules categorise or tag the '
                       'transaction (counted on the first 400 cases)')
    ctx.notes['property_failures_by_class'] = classes
    try:
        sc = stream_coverage(cases)
        ctx.notes['widened_generator_coverage'] = sc
    except Exception as e:
        sc = {'error': str(e)}
    try:
        cc = calendar_coverage(cal_cases)
        cc['transactions_tried_by_the_oracle(one per probe date and file)'] = sweep_txns
        ctx.notes['calendar_range_coverage'] = cc
    except Exception as e:
        cc = {'error': str(e)}
    ctx.cov['rule'] += ('; ALSO: rows sharing merchant/category/subcategory/tags/modifiers with the previous row, with an earlier row, '
                        'or exact duplicates, mostly with group-structured patterns (numbered and named groups, numbered and named '
                        'back-references, conditional groups, leading inline flags (?i) (?s) (?m) (?a)); amount thresholds with 7+ '
                        'significant digits (10000+ with cents, 7–20 digit integers, 5 decimals, beyond 2**53) with transactions on their '
                        'precision probes (the value written with 3–15 significant digits / 0–3 decimals / as an integer / as a float32, '
                        'and the midpoint); counts: ' + json.dumps(sc))
    ctx.cov['rule'] += ('; ALSO (calendar stream): files whose rows carry [date:A..B] ranges with both ends on or one day off a calendar '
                        'boundary (A: 1st of a month, Jan 1, the day before/after, a month\'s last day; B: last day of a month, Dec 31, '
                        'Feb 29 of a leap year, the day before/after, the 28th, a 1st), within one year or reaching 1, 2, 3, 5 years on, '
                        'same-numbered or different months at the two ends, alone or with [month=], [date=], an amount modifier or a '
                        'second range, often followed by a fallback row without modifiers; the oracle runs both real pipelines on one '
                        'transaction per PROBE DATE: the 1st, 15th and last day of every month from the month before the range to the '
                        'month after it, Jan 1 / Dec 31 of every touched year and of the years just outside, each end ±1 day; counts: '
                        + json.dumps(cc))
    ctx.cov['rule'] += ('; ALSO (legacy loader / modifier parser, harness/props/legacy_loader.py): pattern cells spelled from structured '
                        'truth (every modifier form, blanks of all 29 \\s kinds, ASCII and non-ASCII decimal digits, invalid blocks) and hostile '
                        'cells (mutations, unclosed / nested / swallowed blocks, ] inside, upper-case keywords, look-alike blanks, 4300+ digit '
                        'numbers); rule files written by csv.writer (LF / CRLF / CR, any column order, extra / missing / duplicated columns) and '
                        'hostile files (BOM, short / long rows, quoted cells with line breaks and comment-looking continuation lines, '
                        'unterminated quotes, header damage, byte-level mutations); non-trivial there = a cell with conditions or a '
                        'ModifierParseError, a file with two or more rules; counts: ' + json.dumps(ctx.notes.get('legacy_loader_streams', {})))
    for case in cases[len(WITNESSES):len(WITNESSES) + 3]:
        ctx.sample({'csv': render_csv(case), 'txn': jtxn(case['txn'])})

    def search():
        out = []
        legacy_broken = [o for o in ctx.broken() if any(k in o['name'] for k in LEGACY_OBLIGATION_MARKS)]
        if legacy_broken:
            # the loader / parser side is what no longer checks: its implementation-only oracles first (bigger budget)
            with Scratch() as b2:
                out = LL.search(ctx, r, b2)
            if out:
                return out
        with Scratch() as b2:
            # half of the cases from the focused classes: runs of rows sharing their outputs with group-structured patterns,
            # many-digit thresholds with transactions on their precision probes
            # every sixth case (thorough: every fourth): a file with calendar-aligned date ranges, tried on all of its probe dates
            tried, every = 0, 6 if ctx.quick else 4
            for i in range(6000 if ctx.quick else 40000):
                if i % every == every - 1:
                    pfs, k = oracle_sweep(gen_calendar_case(r), b2)
                    tried += k
                else:
                    pfs = [oracle(gen_case(r, None, focus=i % 2 == 0), b2)]
                    tried += 1
                pfs = [pf for pf in pfs if pf and not classify(pf)]
                if pfs:
                    out.append(pfs[0])
                    break
        ctx.cov['evaluations'] += tried
        return out

    # the fixed witnesses first (D14a, D14b, D14c, …), then the smallest generated failing inputs
    order = {name: i for i, (name, _, _) in enumerate(WITNESSES)}
    prop_fail.sort(key=lambda pf: (order.get(pf.get('witness'), len(order)), len(pf.get('csv_text') or pf.get('file_text') or pf.get('cell') or '')))
    common.conclude(ctx, prop_fail, classify=classify, search=search, required=REQUIRED)
    return ctx.finish(extra_trusted=[
        'CPython string-literal decoding is MODELLED (Migrate.pyUnescape) and compared with tokenize+ast.literal_eval on every run; \\N{…}, '
        'surrogates and backslash-newline are declined by the model (none of them is produced by the repaired escaping)',
        're (search with IGNORECASE), str.upper, str.lower, date.today are parameters (`Oracles`); H_upper ("case-insensitive search is '
        'unchanged by upper-casing the subject") and H_empty are hypotheses of per_rule_agree / migration_preserves, tested on every generated pair',
        'parse_pattern_with_modifiers and load_merchant_rules are MODELLED (Legacy.parsePattern / Legacy.loadRules) and compared with the code '
        'on generated cells and files every run; the migration streams above still start from the tuples the implementation loaded; '
        'float(repr(v)) == v and date.fromisoformat(d.isoformat()) == d (CPython)',
        'parameters of the loader model (Legacy.Oracles): float() of a captured [\\d.]+ text, the decimal value of non-ASCII Nd characters, '
        'strptime on date texts with a non-ASCII digit, sys.get_int_max_str_digits(); hypothesis H_space (no \\s character is a decimal '
        'digit) and the case-insensitive letters of last…days are compared with CPython over all code points every run; csv fields longer '
        'than csv.field_size_limit() (131072) and undecodable bytes are outside the model',
        'amounts are exact integers in a common power-of-two unit: rounding inside the float subtraction amount - v is modelled away',
        'the expression evaluator is modelled only on the fragment the converter generates (regex(), comparisons on amount/date/month, abs, and)'])
