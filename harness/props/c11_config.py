"""C11, settings resolution: `config_loader.load_config` / `resolve_source_format` and the way `commands/run.cmd_run` consumes the
resolved config, against the Lean model `Config.resolveConfig` / `Config.planSources` / `Config.readArgs` (driver op `config`).

`yaml.safe_load` is a trusted parser: the settings file is written (yaml.safe_dump, or hand-written texts in user spellings), read back
by the implementation's own `load_settings`, and the LOADED OBJECT is shipped to the model as a `Y` value.

Streams
  load    load_config on a real temporary budget directory  vs  resolveConfig: per source `_parser_type`, `_supplemental`, every FormatSpec
          field (delimiter / has_header / negate_amount / description_template as the raw values the code stores), name / file /
          decimal_separator as later read, rule_mode, `_merchants_file` / `_merchants_format`, `_views_file`, the types of the warnings,
          the removed settings named - or the exception class
  plan    cmd_run IN-PROCESS with `parse_generic_csv` / `parse_amex` / `parse_boa` (the names `commands/run.py` calls) wrapped by the harness:
          every call is recorded (which source, the file path, every FormatSpec field, source_name, decimal_separator) and compared with
          planSources, with and without --quiet - or the exception class / early exit
  read    `_iter_rows_with_delimiter` / `parse_amount` on the raw argument values (any YAML type)  vs  readArgs: which separator, is a
          header skipped, EU decimals, the sign flags - observed on a probe file, not computed by the harness
  paths   posixpath.join / dirname / normpath  vs  pjoin2 / dirname / normpath, densely
"""
import argparse
import contextlib
import io
import json
import math
import os
import shutil
import struct
import tempfile

from .. import common

VIEWS_OK = '[Big]\nfilter: total > 100\n'
VIEWS_BAD = '[Big]\nfilter: total >\n'
RULES_OK = '[Uber]\nmatch: contains("UBER")\ncategory: Transport\n'
LEGACY_OK = 'Pattern,Merchant,Category,Subcategory\nUBER,Uber,Transport,Rideshare\n'
CSV_TEXT = 'Date,Description,Amount\n2025-01-05,UBER EATS,12.50\n2025-01-06,SHELL OIL,40.00\n'


class Unmodelled(Exception):
    pass


# ---------------------------------------------------------------- YAML values <-> the model's `Y`

def y_json(v):
    if v is None or isinstance(v, bool) or isinstance(v, str):
        if isinstance(v, str) and '\x00' in v:
            raise Unmodelled('NUL in a string')
        return v
    if isinstance(v, int):
        return {'i': str(v)}
    if isinstance(v, float):
        return {'f': str(struct.unpack('<Q', struct.pack('<d', v))[0])}
    if isinstance(v, list):
        return [y_json(x) for x in v]
    if isinstance(v, dict):
        out = []
        for k, x in v.items():
            # a key that is not a string can never equal a key the code looks up: shipped as a string no YAML stream can contain
            out.append([k if isinstance(k, str) else '\x00%s:%r' % (type(k).__name__, k), y_json(x)])
        return {'m': out}
    raise Unmodelled(type(v).__name__)       # date / datetime / bytes / set: not in Y


def ext_of(obj):
    """the `Ext` tables for every string anywhere in the object: non-ASCII space / word characters and lower-casings (twice: the code
    lower-cases a `type:` twice)"""
    import re
    texts = []

    def walk(v):
        if isinstance(v, str):
            texts.append(v)
        elif isinstance(v, list):
            for x in v:
                walk(x)
        elif isinstance(v, dict):
            for k, x in v.items():
                walk(k); walk(x)
    walk(obj)
    chars = {c for s in texts for c in s if ord(c) >= 128}
    lows = {}
    for s in texts:
        cand = [s, s.strip()]
        for part in s.split(','):
            m = re.match(r'\{([-+]?)(\w+|\*)(?::([^}]+))?\}', part.strip())
            if m:
                cand.append(m.group(2))
        for c in cand:
            for _ in range(3):
                if not c.isascii():
                    lows[c] = c.lower()
                c = c.lower()
    return {'space': sorted(ord(c) for c in chars if c.isspace()), 'word': sorted(ord(c) for c in chars if re.match(r'\w', c)),
            'lower': sorted([k, v] for k, v in lows.items())}


# ---------------------------------------------------------------- generators (objects; written with yaml.safe_dump)

FORMATS_OK = ['{date:%Y-%m-%d},{description},{amount}', '{date}, {description}, {-amount}', '{date:%m/%d/%Y},{_},{description},{+amount}',
              '{date:%d.%m.%Y},{description},{amount},{location}', '{Date:%Y-%m-%d}, {DESCRIPTION}, {Amount}', '{date},{description},{amount},{card}',
              '{*},{date:%Y-%m-%d},{description},{-amount}', '{date:%Y-%m-%d},{description},{-AMOUNT}']
FORMATS_MODE2 = ['{date:%Y-%m-%d},{type},{merchant},{amount}', '{date},{merchant},{-amount}', '{date},{Merchant},{TYPE},{+amount}']
TEMPLATES_OK = ['{merchant} ({type})', '{merchant}', '{type}: {merchant}', 'x {merchant}']
FORMATS_BAD = ['{date},{amount}', '{date},{description}', '{date},{date},{description},{amount}', 'date,description,amount', '', '{date},{desc},{amount}',
               '{date}{description},{amount}', '{date},{description},{amount},{amount}', '{date},{a},{A},{amount}', '{description},{amount}',
               '{date},{description},{amount', '{date};{description};{amount}', '{dätum},{description},{amount},{date}', '{date},{description},{amount},{ſ}']
BOOLISH = [True, False, 'true', 'false', 'yes', 'no', 'False', '', 0, 1, 0.0, -0.0, 1.5, float('nan'), float('inf'), None, [], [False], {}, {'a': 0}, 'off', ' ']
DELIMS_VALID = [',', ';', 'tab', '\t', ' ', '|', ':', 'regex:^(.*?);(.*?);(.*)$', '\u2003']
DELIMS_ODD = ['TAB', 'Tab', 'regex:', 'regex', 'regex:(', 'REGEX:x', ';;', 'ta', '', None, False, True, 0, 5, 1.0, 0.0, [';'], [], {'d': ';'}, {}, '\\t', 'comma',
              'whitespace', '"', '\n']
DECIMALS = [',', '.', ',', '.', ';', '', None, 5, True, [','], ' ,', ',,', '\u066b', {}, 0]
NAMES = ['Checking', 'AMEX', 'card 1', 'Src0', 'Src1', 'orders', 'CSV', '\u00dcn\u00efcode', '', None, 5, 0, True, 1.5, ['a'], {'n': 1}]
TYPES = ['amex', 'boa', 'AMEX', 'Boa', 'BoA', 'aMeX', 'generic', 'visa', '', None, 5, True, ['amex'], {'t': 'amex'}, 'amex ', ' boa', '\uff21\uff2d\uff25\uff38',
         'bo\u00e0', 'BO\u0391', 'amex\u212a', '\u0130amex', 1.0]
TEMPLATES_ODD = ['{nothing}', 'plain', '', None, 0, 5, True, False, ['{merchant}'], [], {'a': 1}, {}, 1.5, 0.0, '{merchant', '{merchant} {Type}', '{}', ' ']
RULE_MODES = ['first_match', 'most_specific', 'most_specific', 'MOST_SPECIFIC', 'Most_Specific', 'most-specific', 'most_specific ', ' first_match', 'mostspecific',
              'specific', '', None, 5, 0, True, False, 1.5, ['most_specific'], {'mode': 'most_specific'}, [], {}, 'first', 'first_match\n']
EXTRA_KEYS = [('account', '1234'), ('notes', ['a', 'b']), ('currency', 'EUR'), ('tags_from_fields', ['card']), ('Format', 'x'), ('FORMAT', 1), ('Type', 'amex'),
              ('has-header', False), ('hasHeader', False), ('delimeter', ';'), ('decimal', ','), ('date_format', '%Y'), (5, 'five'), (True, 'yes'), (None, 'null'),
              (1.5, 'x'), ('skip_negatives', True), ('account_types', 'x'), ('', 'empty key'), ('supplemental ', True)]
TOP_EXTRA = [('year', 2025), ('title', 'My budget'), ('output_dir', 'out'), ('html_filename', 'x.html'), ('currency_format', '\u20ac{amount}'), ('currency_format', None),
             ('Rule_Mode', 'most_specific'), ('rule-mode', 'most_specific'), ('merchants', 'config/merchants.rules'), ('datasources', []), (5, 5), (None, 1),
             ('sections', 'x'), ('_merchants_file', '/etc/passwd'), ('_warnings', 5), ('_config_dir', 'x')]


def pick_settings(r, src, hostile):
    """the per-source settings that govern reading: present with the documented values mostly, in every other type sometimes"""
    p = 0.55 if hostile else 0.3
    odd = 0.5 if hostile else 0.12
    if r.random() < p:
        src['delimiter'] = r.choice(DELIMS_ODD) if r.random() < odd else r.choice(DELIMS_VALID)
    if r.random() < p:
        src['has_header'] = r.choice(BOOLISH) if r.random() < odd * 1.5 else r.choice([True, False])
    if r.random() < p:
        src['decimal_separator'] = r.choice(DECIMALS) if r.random() < odd else r.choice([',', '.'])
    if r.random() < p * 0.7:
        src['negate_amount'] = r.choice(BOOLISH) if r.random() < odd * 1.5 else r.choice([True, False])
    if r.random() < (0.35 if hostile else 0.2):
        src['supplemental'] = r.choice(BOOLISH) if r.random() < odd * 1.5 else r.choice([True, False])


def gen_source(r, i, files, hostile):
    """one data source (a dict - or, in the hostile stream, something else) and the files it needs"""
    src = {}
    if hostile and r.random() < 0.06:
        return r.choice([None, 'source', 5, True, [], ['name', 'x'], [{'name': 'x'}], 1.5, ''])
    # name
    u = r.random()
    if u < (0.5 if hostile else 0.9):
        src['name'] = r.choice(['Checking', 'Card', 'Src%d' % i, 'orders', 'AMEX', 'Src0'])
    elif u < (0.8 if hostile else 0.95):
        src['name'] = r.choice(NAMES)
    # file
    rel = 'data/s%d.csv' % i
    spell = r.choice([rel, rel, rel, './' + rel, 'data//s%d.csv' % i, 'data/sub/../s%d.csv' % i, 'data/./s%d.csv' % i, 'nodir/../' + rel, 'link/../s%d.csv' % i, '@ABS@/' + rel,
                      '../outside%d.csv' % i, 'data/S%d.CSV' % i, rel + '/', 'data/s%d .csv' % i, '@ABS@/../outside%d.csv' % i])
    state = r.random()
    u = r.random()
    if u < (0.6 if hostile else 0.93):
        src['file'] = spell
        if state < 0.75:
            files[spell] = CSV_TEXT
    elif u < (0.85 if hostile else 0.97):
        src['file'] = r.choice([None, 5, 0, True, ['data/a.csv'], {'p': 1}, '', 1.5, 'data', 'config', '.', '..', '/'])
    # format / type
    u = r.random()
    kind = ('format' if u < 0.68 else 'type' if u < 0.86 else 'both' if u < 0.97 else 'neither') if not hostile else \
           ('format' if u < 0.4 else 'type' if u < 0.65 else 'both' if u < 0.8 else 'neither')
    if kind in ('format', 'both'):
        v = r.random()
        if v < (0.45 if hostile else 0.9):
            if r.random() < 0.3:
                src['format'] = r.choice(FORMATS_MODE2)
                src['columns'] = {'description': r.choice(TEMPLATES_OK)}
            else:
                src['format'] = r.choice(FORMATS_OK)
        elif v < (0.7 if hostile else 0.96):
            src['format'] = r.choice(FORMATS_BAD + FORMATS_MODE2)
        else:
            src['format'] = r.choice([None, 5, True, False, ['{date}', '{description}', '{amount}'], {'f': 1}, 0, 1.5, ''])
        if r.random() < (0.45 if hostile else 0.1):
            t = r.choice(TEMPLATES_ODD + TEMPLATES_OK)
            src['columns'] = r.choice([{'description': t}, {'description': t}, {'description': t, 'other': 1}, {}, [], 'x', None, 5, {'desc': t}, [['description', t]], True])
    if kind in ('type', 'both'):
        src['type'] = r.choice(TYPES) if (hostile or r.random() < 0.12) else r.choice(['amex', 'boa', 'AMEX', 'Boa'])
    pick_settings(r, src, hostile)
    if r.random() < (0.2 if hostile else 0.03):
        src[r.choice(['account_type', 'skip_negative'])] = r.choice(['credit', True, False, None, 0, ''])
    for _ in range(r.choice([0, 0, 0, 1, 2]) if not hostile else r.choice([0, 1, 2, 3])):
        k, v = r.choice(EXTRA_KEYS)
        src.setdefault(k, v)
    items = list(src.items())
    r.shuffle(items)
    return dict(items)


def gen_case(r, hostile):
    """a budget directory: the settings object, the files that exist, and how they are laid out"""
    files, dirs = {}, []
    st = {}
    n = r.choice([1, 2, 2, 3, 4]) if not hostile else r.choice([0, 1, 2, 3, 5])
    srcs = [gen_source(r, i, files, hostile) for i in range(n)]
    if hostile and srcs and r.random() < 0.15 and isinstance(srcs[0], dict):
        srcs.append(dict(srcs[0]))                       # the same source twice (duplicate name, same file)
    u = r.random()
    if not hostile or u < 0.72:
        st['data_sources'] = srcs
    elif u < 0.96:
        named = {('s%d' % i): s for i, s in enumerate(srcs)}
        st['data_sources'] = r.choice([None, [], {}, named or {'a': 1}, 'data/s0.csv', '', 5, 0, True, False, 1.5, 0.0, [None], ['x'], [5], [srcs], [[]], [{}],
                                       {0: srcs[0] if srcs else 1}, (srcs + [None])])
    # rule mode
    if r.random() < (0.6 if hostile else 0.4):
        st['rule_mode'] = r.choice(RULE_MODES) if (hostile or r.random() < 0.25) else r.choice(['first_match', 'most_specific'])
    # rules file: configured & there / configured & missing / configured falsy / absent, with or without the legacy CSV
    legacy = r.random() < 0.4
    if legacy:
        files['config/merchant_categories.csv'] = LEGACY_OK
    u = r.random()
    if u < 0.4:
        mf = r.choice(['config/merchants.rules', 'config/merchants.rules', 'rules/my.rules', './config/merchants.rules', 'config/../config/merchants.rules', '@ABS@/config/merchants.rules',
                       'config/merchant_categories.csv', 'config/rules.txt', 'link/../config/merchants.rules'])
        st['merchants_file'] = mf
        if r.random() < 0.6:
            files[mf] = LEGACY_OK if not mf.endswith('.rules') else RULES_OK
    elif u < (0.7 if hostile else 0.48):
        st['merchants_file'] = r.choice(['', None, False, 0, [], {}, 0.0, 5, True, ['config/merchants.rules'], {'f': 'x'}, 1.5, 'config', '.', '/'])
    # views
    u = r.random()
    if u < 0.3:
        vf = r.choice(['config/views.rules', 'config/views.rules', 'views.rules', '@ABS@/config/views.rules', 'config//views.rules'])
        st['views_file'] = vf
        if r.random() < 0.7:
            files[vf] = VIEWS_OK if r.random() < 0.7 else VIEWS_BAD
    elif u < (0.55 if hostile else 0.34):
        st['views_file'] = r.choice(['', None, False, 0, [], 5, True, ['config/views.rules'], {'f': 'x'}, 'data', 'config', 1.5])
    # removed settings, extras
    for k in ('home_locations', 'home_state', 'travel_labels'):
        if r.random() < (0.2 if hostile else 0.05):
            st[k] = r.choice([['WA'], 'WA', None, {}, 0])
    if r.random() < (0.15 if hostile else 0.03):
        st['description_cleaning'] = r.choice([['^UBER '], ['a', 'b', 'c', 'd'], [], None, '', 'x', 0, 5, True, {}, {'a': 1}, [None], [5]])
    for _ in range(r.choice([0, 1, 1, 2])):
        k, v = r.choice(TOP_EXTRA)
        st.setdefault(k, v)
    items = list(st.items())
    r.shuffle(items)
    st = dict(items)
    whole = st
    if hostile and r.random() < 0.05:
        whole = r.choice([None, [], [st], 'settings', 5, True, {}, 0])
    import yaml
    # the case is stored as the TEXT of its settings file (JSON-safe, replayable; absolute paths as the placeholder @ABS@)
    return {'yaml': yaml.safe_dump(whole, sort_keys=False, allow_unicode=True), 'files': files, 'link': r.random() < 0.5, 'hostile': hostile}


HAND_WRITTEN = [
    # user spellings: yes/no, quoted "false", a real tab escape, a comment, flow style, an anchor shared by two sources
    ('data_sources:\n  - name: Checking   # main account\n    file: data/s0.csv\n    format: "{date:%Y-%m-%d},{description},{amount}"\n    has_header: no\n'
     '    delimiter: "\\t"\n    decimal_separator: \',\'\n  - {name: Card, file: data/s1.csv, format: \'{date},{description},{-amount}\', has_header: "false", negate_amount: off}\n'
     'rule_mode: most_specific\nmerchants_file: config/merchants.rules\n', ['data/s0.csv', 'data/s1.csv', 'config/merchants.rules']),
    ('defaults: &d\n  format: "{date},{description},{amount}"\n  delimiter: tab\n  has_header: yes\ndata_sources:\n  - <<: *d\n    name: A\n    file: data/s0.csv\n'
     '  - <<: *d\n    name: B\n    file: data/s1.csv\n    delimiter: 5\n    supplemental: Yes\nrule_mode: Most_Specific\nviews_file: config/views.rules\n',
     ['data/s0.csv', 'config/views.rules', 'config/merchant_categories.csv']),
    ('data_sources:\n- name: AMEX\n  file: data/s0.csv\n  type: AMEX\n- name: BOA\n  file: data/s1.csv\n  type: boa\n  format: ~\n- file: data/s2.csv\n  type: amex\n'
     'home_state: WA\ntravel_labels: {HI: Hawaii}\nrule_mode: 1\n', ['data/s0.csv', 'data/s1.csv', 'data/s2.csv']),
    ('data_sources:\n  - name: 2025\n    file: data/s0.csv\n    format: "{date},{type},{merchant},{amount}"\n    columns:\n      description: "{merchant} ({type})"\n'
     '    negate_amount: false\n    decimal_separator: ","\n    delimiter: ;\n  - name: orders\n    file: data/s1.csv\n    format: "{date},{item},{amount}"\n    columns: {description: "{item}"}\n'
     '    supplemental: true\nmerchants_file: ""\n', ['data/s0.csv', 'data/s1.csv', 'config/merchant_categories.csv']),
    ('', []), ('# only a comment\n', []), ('data_sources:\n', []), ('data_sources: []\nrule_mode: most_specific\n', []), ('- a\n- b\n', []),
    ('data_sources:\n  a:\n    file: data/s0.csv\n    format: "{date},{description},{amount}"\n', ['data/s0.csv']),
]


def hand_written_cases():
    import yaml
    out = []
    for text, present in HAND_WRITTEN:
        files = {}
        for p in present:
            files[p] = RULES_OK if p.endswith('merchants.rules') else VIEWS_OK if p.endswith('views.rules') else LEGACY_OK if p.endswith('categories.csv') else CSV_TEXT
        out.append({'yaml': text, 'files': files, 'link': False, 'hostile': False, 'hand_written': True})
    return out


# ---------------------------------------------------------------- a case on disk

def absify(v, root):
    if isinstance(v, str):
        return v.replace('@ABS@', root + '/b')
    if isinstance(v, list):
        return [absify(x, root) for x in v]
    if isinstance(v, dict):
        return {absify(k, root): absify(x, root) for k, x in v.items()}
    return v


def materialise(case):
    """write the budget directory of the case under a fresh temporary root; returns (root, cfgdir, settings object as loaded back)"""
    import yaml
    root = os.path.realpath(tempfile.mkdtemp(prefix='tvcfg_'))
    b = os.path.join(root, 'b')
    os.makedirs(os.path.join(b, 'config'))
    os.makedirs(os.path.join(b, 'data', 'sub'))
    if case.get('link'):
        os.makedirs(os.path.join(root, 'elsewhere', 'inner'))
        os.symlink(os.path.join(root, 'elsewhere', 'inner'), os.path.join(b, 'link'))      # b/link/.. is root/elsewhere, not b
    for rel, text in case['files'].items():
        rel = absify(rel, root)
        p = rel if rel.startswith('/') else os.path.join(b, rel)
        if p.endswith('/'):
            continue
        try:
            os.makedirs(os.path.dirname(p), exist_ok=True)
            with open(p, 'w', encoding='utf-8') as f:
                f.write(text)
        except OSError:
            pass                                                   # (a path through a missing directory or a dangling link: the file is simply absent)
    with open(os.path.join(b, 'config', 'settings.yaml'), 'w', encoding='utf-8') as f:
        f.write(case['yaml'].replace('@ABS@', root + '/b'))
    return root, os.path.join(b, 'config'), None


# ---------------------------------------------------------------- the implementation, canonicalised

def _py_truthy(yj):
    """truthiness of a value in its `Y` JSON form (harness statistics only)"""
    if isinstance(yj, dict):
        if 'i' in yj:
            return int(yj['i']) != 0
        if 'f' in yj:
            return int(yj['f']) not in (0, 1 << 63)
        return bool(yj.get('m'))
    return bool(yj)


def exc_class(e):
    for cls in (KeyError, AttributeError, TypeError):
        if isinstance(e, cls):
            return cls.__name__
    if isinstance(e, ValueError) and not isinstance(e, UnicodeError):
        return 'ValueError'
    return type(e).__name__


def spec_view(fs):
    def pairs(d):
        return None if d is None else [[k, v] for k, v in d.items()]
    return {'spec': {'date_column': fs.date_column, 'date_format': fs.date_format, 'amount_column': fs.amount_column,
                     'description_column': fs.description_column, 'custom_captures': pairs(fs.custom_captures), 'extra_fields': pairs(fs.extra_fields),
                     'location_column': fs.location_column, 'abs_amount': fs.abs_amount},
            'template': y_json(fs.description_template), 'delimiter': y_json(fs.delimiter), 'has_header': y_json(fs.has_header),
            'negate_amount': y_json(fs.negate_amount)}


def model_spec_view(g):
    if g is None:
        return None
    s = dict(g['spec'])
    s.pop('description_template', None)          # the raw value is compared as `template`
    s.pop('negate_amount', None)                 # the value the code stores is compared as `negate_amount`
    return {'spec': s, 'template': g['template'], 'delimiter': g['delimiter'], 'has_header': g['has_header'], 'negate_amount': g['negate_amount']}


def impl_load(cfgdir):
    from tally import config_loader
    try:
        with contextlib.redirect_stdout(io.StringIO()), contextlib.redirect_stderr(io.StringIO()):
            config = config_loader.load_config(cfgdir)
    except Exception as e:       # noqa
        return {'err': exc_class(e)}
    srcs = []
    for s in config['data_sources']:
        fs = s.get('_format_spec')
        srcs.append({'name': {'v': y_json(s['name'])} if 'name' in s else None, 'file': {'v': y_json(s['file'])} if 'file' in s else None,
                     'parser_type': s['_parser_type'], 'format_spec': None if fs is None else spec_view(fs),
                     'supplemental': y_json(s['_supplemental']), 'decimal_separator': y_json(s.get('decimal_separator', '.'))})
    removed = []
    for w in config['_warnings']:
        if w.get('type') == 'deprecated' and w.get('source') == 'settings.yaml':
            removed = w['feature'].split(', ')
    return {'ok': {'sources': srcs, 'rule_mode': config['rule_mode'],
                   'merchants': {'path': config['_merchants_file'], 'format': config['_merchants_format']},
                   'views_file': config['_views_file'], 'warnings': [w['type'] for w in config['_warnings']], 'removed_settings': removed,
                   'description_cleaning': bool(config.get('description_cleaning'))}}


def model_load_view(out):
    c = out.get('config', {})
    if 'err' in c:
        return {'err': c['err']}
    if 'ok' not in c:
        return {'model_error': out}
    k = c['ok']
    return {'ok': {'sources': [dict(s, format_spec=model_spec_view(s['format_spec'])) for s in k['sources']], 'rule_mode': k['rule_mode'],
                   'merchants': k['merchants'], 'views_file': k['views_file'], 'warnings': k['warnings'], 'removed_settings': k['removed_settings'],
                   'description_cleaning': k['description_cleaning']}}


def impl_plan(cfgdir, quiet, raws=None):
    """cmd_run in-process; the three parser entry points AS NAMED IN commands/run.py are wrapped: each call is recorded and returns no
    transaction (so the run ends with "No transactions found" right after the loop)"""
    from tally.commands import run as RUN
    calls = []
    raws = [] if raws is None else raws
    state = {'config': None, 'supp_stage': False}
    real = {k: getattr(RUN, k) for k in ('parse_generic_csv', 'parse_amex', 'parse_boa', 'load_config', 'load_supplemental_sources')}

    def load_config(*a, **kw):
        state['config'] = real['load_config'](*a, **kw)
        return state['config']

    def load_supp(*a, **kw):
        state['supp_stage'] = True
        return real['load_supplemental_sources'](*a, **kw)

    def generic(filepath, format_spec, rules, source_name='CSV', decimal_separator='.', transforms=None, data_sources=None):
        idx = next((i for i, s in enumerate(state['config']['data_sources']) if s.get('_format_spec') is format_spec), None)
        calls.append({'index': idx, 'path': filepath, 'call': 'generic', 'format_spec': spec_view(format_spec),
                      'source_name': y_json(source_name), 'decimal_separator': y_json(decimal_separator)})
        raws.append((format_spec.delimiter, format_spec.has_header, decimal_separator))
        return []

    def amex(filepath, rules):
        calls.append({'path': filepath, 'call': 'amex'})
        return []

    def boa(filepath, rules):
        calls.append({'path': filepath, 'call': 'boa'})
        return []
    args = argparse.Namespace(config=cfgdir, settings='settings.yaml', summary=False, output=None, quiet=quiet, format='json', verbose=0, only=None,
                              category=None, tags=None, embedded_html=True, migrate=False, group_by='merchant')
    RUN.parse_generic_csv, RUN.parse_amex, RUN.parse_boa, RUN.load_config, RUN.load_supplemental_sources = generic, amex, boa, load_config, load_supp
    try:
        with contextlib.redirect_stdout(io.StringIO()), contextlib.redirect_stderr(io.StringIO()):
            try:
                RUN.cmd_run(args)
                return {'completed': True, 'calls': calls}
            except SystemExit:
                if not state['supp_stage']:
                    return {'err': 'SystemExit'}
                return {'ok': calls}
            except Exception as e:       # noqa
                return {'err': exc_class(e), 'loaded': state['config'] is not None}
    finally:
        for k, v in real.items():
            setattr(RUN, k, v)
        try:
            from tally import cli
            cli._deprecated_parser_warnings.clear()
        except Exception:       # noqa
            pass


def model_plan_view(out, quiet):
    c = out.get('config', {})
    if 'err' in c:
        return {'err': c['err'], 'loaded': False}
    p = out.get('plan_quiet' if quiet else 'plan_verbose', {})
    if 'err' in p:
        return {'err': p['err']} if p['err'] == 'SystemExit' else {'err': p['err'], 'loaded': True}
    calls = []
    for x in p.get('ok', []):
        if x['call'] == 'generic':
            calls.append({'index': x['index'], 'path': x['path'], 'call': 'generic', 'format_spec': model_spec_view(x['format_spec']),
                          'source_name': x['source_name'], 'decimal_separator': x['decimal_separator']})
        else:
            calls.append({'path': x['path'], 'call': x['call']})
    return {'ok': calls}


def views_outcome(path):
    from tally.section_engine import load_sections, SectionParseError
    try:
        load_sections(path)
        return 'ok'
    except SectionParseError:
        return 'parse_error'
    except Exception as e:       # noqa
        return exc_class(e)


# ---------------------------------------------------------------- the property, on the implementation alone

def _wellformed_sources(loaded):
    """the data sources of a settings object the PROPERTY speaks about without interpretation: a list of mappings whose `file` is a string"""
    if not isinstance(loaded, dict) or not isinstance(loaded.get('data_sources'), list) or not loaded['data_sources']:
        return None
    srcs = loaded['data_sources']
    if not all(isinstance(x, dict) and isinstance(x.get('file'), str) and type(x.get('supplemental', False)) is bool for x in srcs):
        return None
    return srcs


def settings_oracle(case, cfgdir, loaded, il, ip):
    """what the property demands of `load_config` / `cmd_run` on THIS settings object, from the settings as written (no model, no tally code):
    every parsed source is read with ITS OWN delimiter / header / decimal / sign / name as written (values of the documented type only);
    exactly the non-supplemental sources whose file is there are parsed, in order; only `most_specific` selects that mode; a
    configured-but-missing merchants_file does not turn into the legacy CSV"""
    fails = []

    def fail(cls, **kw):
        fails.append(dict({'class': cls, 'config_case': case}, **kw))
    if 'ok' not in il:
        return fails
    k = il['ok']
    budget = os.path.dirname(cfgdir)
    if isinstance(loaded, dict):
        v = loaded.get('rule_mode', 'first_match')
        want = 'most_specific' if isinstance(v, str) and v == 'most_specific' else 'first_match'
        if k['rule_mode'] != want:
            fail('rule-mode-not-the-configured-one', written=repr(v), required=want, observed=k['rule_mode'])
        mf = loaded.get('merchants_file')
        legacy = os.path.join(cfgdir, 'merchant_categories.csv')
        if isinstance(mf, str) and mf and '..' not in mf.split('/'):
            p = os.path.join(budget, mf)
            want = {'path': p, 'format': 'new'} if os.path.exists(p) else {'path': None, 'format': None}
            if k['merchants'] != want:
                fail('wrong-rules-file-selected', written=mf, required=want, observed=k['merchants'], legacy_csv_exists=os.path.exists(legacy))
        elif 'merchants_file' not in loaded:
            want = {'path': legacy, 'format': 'csv'} if os.path.exists(legacy) else {'path': None, 'format': None}
            if k['merchants'] != want:
                fail('wrong-rules-file-selected', written=None, required=want, observed=k['merchants'])
    srcs = _wellformed_sources(loaded)
    if srcs is None or ip is None or 'ok' not in ip:
        return fails
    calls = ip['ok']
    # which sources are parsed, in which order
    if all('..' not in x['file'].split('/') and not x['file'].startswith('/') for x in srcs):
        want = [os.path.realpath(os.path.join(budget, x['file'])) for x in srcs if not x.get('supplemental', False) and os.path.exists(os.path.join(budget, x['file']))]
        got = [os.path.realpath(c['path']) for c in calls]
        if got != want:
            fail('not-exactly-the-ordinary-sources-with-a-file-are-parsed', required_files_in_order=want, observed=got)
            return fails
    for c in calls:
        if c['call'] != 'generic' or c.get('index') is None or c['index'] >= len(srcs):
            continue
        x = srcs[c['index']]
        fs = c['format_spec']
        checks = []
        if 'delimiter' not in x or isinstance(x['delimiter'], str):
            checks.append(('delimiter', fs['delimiter'], y_json(x.get('delimiter'))))
        if 'has_header' not in x or type(x['has_header']) is bool:
            checks.append(('has_header', fs['has_header'], x.get('has_header', True)))
        if 'decimal_separator' not in x or isinstance(x['decimal_separator'], str):
            checks.append(('decimal_separator', c['decimal_separator'], x.get('decimal_separator', '.')))
        if 'name' not in x or isinstance(x['name'], str):
            checks.append(('name', c['source_name'], x.get('name', 'CSV')))
        if type(x.get('negate_amount')) is bool:
            checks.append(('negate_amount', fs['negate_amount'], x['negate_amount']))
        elif 'negate_amount' not in x and isinstance(x.get('format'), str):
            checks.append(('negate_amount', fs['negate_amount'], '{-amount' in x['format'].lower().replace(' ', '')))
        for key, got, want in checks:
            if got != want:
                fail('source-not-read-with-its-own-setting:' + key, source_index=c['index'], written=repr(x.get(key)), required=want, handed_to_the_parser=got)
    return fails


def locality_variants(r, loaded):
    """(description, edited settings object, index of the edited source or None) - ONE source's setting or ONE top-level key changed"""
    import copy
    srcs = _wellformed_sources(loaded)
    if srcs is None:
        return []
    out = []
    i = r.randrange(len(srcs))
    e = copy.deepcopy(loaded)
    x = e['data_sources'][i]
    what = r.choice(['has_header', 'delimiter', 'decimal_separator', 'negate_amount', 'file', 'name', 'supplemental', 'extra'])
    if what == 'has_header':
        x['has_header'] = not bool(x.get('has_header', True))
    elif what == 'delimiter':
        x['delimiter'] = ';' if x.get('delimiter') != ';' else '|'
    elif what == 'decimal_separator':
        x['decimal_separator'] = ',' if x.get('decimal_separator') != ',' else '.'
    elif what == 'negate_amount':
        x['negate_amount'] = not bool(x.get('negate_amount', False))
    elif what == 'file':
        x['file'] = 'data/not-there-%d.csv' % i
    elif what == 'name':
        x['name'] = 'Renamed %d' % i
    elif what == 'supplemental':
        x['supplemental'] = not x.get('supplemental', False)
    else:
        x['note_%d' % i] = ['anything']
    out.append(('source %d: %s' % (i, what), e, i))
    e = copy.deepcopy(loaded)
    what = r.choice(['year', 'title', 'rule_mode', 'views_file', 'currency_format', 'unknown'])
    if what == 'rule_mode':
        e['rule_mode'] = 'most_specific' if e.get('rule_mode') != 'most_specific' else 'first_match'
    elif what == 'views_file':
        e['views_file'] = 'config/no-such-views.rules'
    else:
        e[what] = r.choice([2024, 'x', None, ['y']])
    out.append(('top level: ' + what, e, None))
    return out


def locality_oracle(r, case, loaded, ip, root1):
    """changing ONE setting of ONE source leaves the parser calls of every OTHER source as they are; changing a top-level key other than
    data_sources leaves ALL of them as they are (calls observed on the real cmd_run, before and after)"""
    fails = []
    if ip is None or 'ok' not in ip:
        return fails
    import yaml
    symbolic = yaml.safe_load(case['yaml'])          # (absolute paths still as the placeholder: each run has its own temporary root)
    for what, edited, idx in locality_variants(r, symbolic):
        c2 = dict(case, yaml=yaml.safe_dump(edited, sort_keys=False, allow_unicode=True))
        root, cfgdir, _ = materialise(c2)
        try:
            ip2 = impl_plan(cfgdir, True)
            if ip2.get('completed'):
                ip2 = {'ok': ip2['calls']}
        finally:
            shutil.rmtree(root, ignore_errors=True)
        if 'ok' not in ip2:
            if idx is None:
                fails.append({'class': 'top-level-setting-not-local', 'config_case': case, 'edit': what, 'after': ip2})
            continue

        def others(calls, rt):
            # compare what is handed to the parser; the temporary directory differs between the two runs
            return [dict(c, path=c['path'].replace(rt, '/@ROOT@')) for c in calls if idx is None or c.get('index') != idx or c['call'] != 'generic']
        before, after = others(ip['ok'], root1), others(ip2['ok'], root)
        if idx is not None:
            # amex / boa calls carry no index: drop the edited source's own call by its file
            srcs = symbolic['data_sources']
            own = os.path.normpath(os.path.join('/@ROOT@/b', absify(srcs[idx]['file'], '/@ROOT@')))
            before = [c for c in before if c['call'] == 'generic' or os.path.normpath(c['path']) != own]
            after = [c for c in after if c['call'] == 'generic' or os.path.normpath(c['path']) != own]
        if before != after:
            fails.append({'class': 'setting-not-local' if idx is not None else 'top-level-setting-not-local', 'config_case': case, 'edit': what,
                          'other_sources_before': before, 'other_sources_after': after})
    return fails



# ---------------------------------------------------------------- what the reader makes of the raw argument values

PROBE_H = 'h1,h2,h3;h4;h5|h6|h7\th8\th9 h10 h11:h12:h13\u2003h14\u2003h15'
PROBE_V = PROBE_H.replace('h', 'v')


def impl_read(delimiter, has_header, decimal_separator):
    """observe `_iter_rows_with_delimiter(probe, delimiter, has_header)` and `parse_amount('1.234,5', decimal_separator)`: which character
    separates the cells, whether the first line is gone, and how the amount reads - without computing any of it here"""
    from tally import parsers
    d = tempfile.mkdtemp(prefix='tvrd_')
    try:
        p = os.path.join(d, 'probe.txt')
        with open(p, 'w', encoding='utf-8', newline='') as f:
            f.write(PROBE_H + '\n' + PROBE_V + '\n')
        try:
            rows = [list(x) for x in parsers._iter_rows_with_delimiter(p, delimiter, has_header)]
        except Exception as e:       # noqa
            return {'err': exc_class(e) if not isinstance(e, __import__('re').error) else 'regex'}
        # two lines in the file: one row left = the first line was skipped (no row at all: a pattern that matches neither line - undetermined)
        out = {'has_header': None if not rows else len(rows) == 1}
        if isinstance(delimiter, str) and delimiter.startswith('regex:'):
            out['delim'] = 'regex'
        else:
            full = PROBE_V
            row = rows[-1] if rows else []
            seps = [c for c in ',;|\t :\u2003' if row == full.split(c)]
            out['delim'] = seps[0] if len(seps) == 1 else ('?%r' % row)
        try:
            out['eu'] = parsers.parse_amount('1.234,5', decimal_separator) == 1234.5
        except Exception as e:       # noqa
            out['eu'] = 'err:' + exc_class(e)
        return out
    finally:
        shutil.rmtree(d, ignore_errors=True)


# ---------------------------------------------------------------- the streams

def path_items(r, quick):
    comps = ['a', 'b', '..', '.', '', 'data', 'config', 'x.csv', ' ', '...', '..a', 'a..', '\u00e9', 'a b']
    items = []
    for a in ['', '/', '//', '///', '////', '.', '..', '/..', '/../..', 'a', 'a/', '/a', '//a', '///a', 'a//b', 'a/./b', 'a/../b', '../a', '../../a', 'a/..', 'a/../..',
              '/a/../../b', '//a/../../b', 'a/b/../../..', './', '/.', '/./', 'a/.', './a', '/tmp/x/b/config', '/tmp/x/b/config/', '/config', 'config', '/']:
        for b in ['', 'f.csv', '/abs/f.csv', '../f.csv', 'data/f.csv', './f', '//f', 'd/']:
            items.append({'a': a, 'b': b})
    for _ in range(400 if quick else 20000):
        def rp():
            s = r.choice(['', '', '/', '//', '///']) + r.choice(['/', '//', '/']).join(r.choice(comps) for _ in range(r.randint(0, 5)))
            return s + r.choice(['', '', '/', '//'])
        items.append({'a': rp(), 'b': rp()})
    return items


TRUTHY_VALUES = [None, True, False, 0, 1, -1, 10 ** 30, 0.0, -0.0, 1e-320, float('nan'), float('inf'), float('-inf'), '', ' ', '0', 'false', 'False', 'no', [], [0], [[]], {},
                 {'a': None}, {0: 0}, [None], '\x1f']


def run_streams(ctx):
    """runs the four streams; returns (obligation results, coverage notes, property-level failures for the search)"""
    r = ctx.rng
    quick = ctx.quick
    drv = common.Driver()
    res = {}
    # ---- paths
    items = path_items(r, quick)
    mo = drv.batch([{'op': 'paths', 'items': items}])[0].get('out', [])
    pf = []
    for it, m in zip(items, mo):
        want = {'join': os.path.join(it['a'], it['b']), 'dirname': os.path.dirname(it['a']), 'normpath': os.path.normpath(it['a']),
                'join3': os.path.join(it['a'], '..', it['b'])}
        if m != want:
            pf.append({'item': it, 'model': m, 'implementation': want})
    if len(mo) != len(items):
        pf.append({'answers': len(mo), 'items': len(items)})
    res['paths'] = (pf, len(items))
    # ---- truthiness
    tv = [y_json(v) for v in TRUTHY_VALUES]
    mo = drv.batch([{'op': 'truthy', 'values': tv}])[0].get('out', [])
    tf = [{'value': repr(v), 'model': m, 'python': bool(v)} for v, m in zip(TRUTHY_VALUES, mo) if m != bool(v)]
    if len(mo) != len(tv):
        tf.append({'answers': len(mo)})
    res['truthy'] = (tf, len(tv))
    # ---- load + plan
    if ctx.replay:
        ce = json.loads(common.read(ctx.replay)).get('counterexample', {})
        cases = [ce['config_case']] if 'config_case' in ce else []
    else:
        n_ok, n_bad = (220, 260) if quick else (6000, 8000)
        cases = hand_written_cases() + [gen_case(r, False) for _ in range(n_ok)] + [gen_case(r, True) for _ in range(n_bad)]
    load_fail, plan_fail, read_fail, prop_fail, finding_fail = [], [], [], [], []
    stats = {'cases': 0, 'unmodelled_values': 0, 'load_ok': 0, 'load_errors': {}, 'plans_with_calls': 0, 'plan_errors': {}, 'calls': 0,
             'sources_resolved': 0, 'sources_generic': 0, 'sources_special': 0, 'sources_supplemental_truthy': 0, 'settings_of_other_type': 0,
             'rules_file': {}, 'warnings': {}, 'second_path_taken': 0, 'read_probes': 0, 'read_errors': 0}
    roots, work = [], []
    try:
        for case in cases:
            root, cfgdir, st = materialise(case)
            roots.append(root)
            from tally import config_loader
            try:
                loaded = config_loader.load_settings(cfgdir)
                sj = y_json(loaded)
            except Unmodelled:
                stats['unmodelled_values'] += 1
                continue
            except Exception as e:       # noqa   (yaml refuses the text: not a settings object at all)
                stats['unmodelled_values'] += 1
                continue
            work.append({'case': case, 'root': root, 'cfgdir': cfgdir, 'settings': sj, 'ext': ext_of(loaded), 'exists': [], 'views_ok': [], 'loaded': loaded})
        # round 1: which paths does the model ask about; round 2: with the answers
        def ops():
            return [{'op': 'config', 'settings': w['settings'], 'cfgdir': w['cfgdir'], 'exists': w['exists'], 'views_ok': w['views_ok'], 'ext': w['ext']} for w in work]
        outs = drv.batch(ops())
        for w, o in zip(work, outs):
            cands = sorted(set(o.get('candidates', [])))
            w['exists'] = [[p, os.path.exists(p)] for p in cands]
            w['views_ok'] = [[p, views_outcome(p)] for p in o.get('views_candidates', []) if os.path.exists(p)]
        outs = drv.batch(ops())
        reads = {}
        for w, o in zip(work, outs):
            stats['cases'] += 1
            il, ml = impl_load(w['cfgdir']), model_load_view(o)
            if il != ml:
                load_fail.append({'config_case': w['case'], 'settings_as_loaded': w['settings'], 'model': ml, 'implementation': il})
                prop_fail.extend(settings_oracle(w['case'], w['cfgdir'], w['loaded'], il, None))
                continue
            if 'err' in il:
                stats['load_errors'][il['err']] = stats['load_errors'].get(il['err'], 0) + 1
                continue
            stats['load_ok'] += 1
            k = il['ok']
            stats['sources_resolved'] += len(k['sources'])
            for s in k['sources']:
                stats['sources_generic' if s['format_spec'] else 'sources_special'] += 1
                stats['sources_supplemental_truthy'] += bool(_py_truthy(s['supplemental']))
                fs = s['format_spec'] or {}
                stats['settings_of_other_type'] += sum(1 for key, ok in (('delimiter', (str, type(None))), ('has_header', (bool,)), ('negate_amount', (bool,)))
                                                       if fs and not isinstance(fs[key], ok))
            mk = str(k['merchants']['format'])
            stats['rules_file'][mk] = stats['rules_file'].get(mk, 0) + 1
            for t in k['warnings']:
                stats['warnings'][t] = stats['warnings'].get(t, 0) + 1
            # the rules file must load for cmd_run to reach the loop: only such budgets go to the plan stream
            mpath = k['merchants']['path']
            if mpath and (os.path.isdir(mpath) or not (mpath.endswith('.rules') or mpath.endswith('.csv'))):
                prop_fail.extend(settings_oracle(w['case'], w['cfgdir'], w['loaded'], il, None))
                continue
            ipq = None
            for quiet in (True, False):
                raws = []
                ip, mp = impl_plan(w['cfgdir'], quiet, raws), model_plan_view(o, quiet)
                if ip.get('completed'):
                    ip = {'ok': ip['calls']}
                if quiet:
                    ipq = ip
                elif mp == {'err': 'KeyError', 'loaded': True} and o.get('plan_verbose', {}).get('site') == 'key_error:name':
                    # finding F11-name (notes/config_notes.md): a source WITHOUT `name:` that gets past the file lookup kills a run without --quiet
                    # (`source['name']` on a progress line).  The model has the defect; a repaired implementation does what it does with --quiet.
                    nameless = {'class': 'nameless-source-stops-the-run-without-quiet', 'config_case': w['case'], 'observed': ip,
                                'required': 'the run goes on as with --quiet', 'with_quiet': ipq}
                    if ip == mp:
                        stats['F11_name_defect_present'] = stats.get('F11_name_defect_present', 0) + 1
                        finding_fail.append(nameless)
                        continue
                    if ip == ipq:
                        stats['F11_name_repaired'] = stats.get('F11_name_repaired', 0) + 1
                        continue
                if not quiet and isinstance(ip, dict) and ip.get('err') == 'KeyError' and isinstance(ipq, dict) and 'ok' in ipq:
                    # F11-name (repaired in /repo aa7bfcd; listed under `fixed`): the SAME run completes with --quiet and dies without it on a
                    # source that has no `name:` key - a progress line must not decide whether the other sources are read
                    prop_fail.append({'class': 'nameless-source-stops-the-run-without-quiet', 'config_case': w['case'], 'observed': ip,
                                      'required': 'the run goes on as with --quiet', 'with_quiet': ipq})
                if ip != mp:
                    plan_fail.append({'config_case': w['case'], 'quiet': quiet, 'settings_as_loaded': w['settings'], 'model': mp, 'implementation': ip})
                    break
                if 'err' in ip:
                    site = ('quiet:' if quiet else 'verbose:') + o.get('plan_quiet' if quiet else 'plan_verbose', {}).get('site', '?')
                    stats['plan_errors'][site] = stats['plan_errors'].get(site, 0) + 1
                elif quiet:
                    stats['plans_with_calls'] += bool(ip['ok'])
                    stats['calls'] += len(ip['ok'])
                    # non-trivial: at least two sources resolved, at least one parser call made AND at least one source NOT parsed (supplemental /
                    # missing file / unknown) or read with a non-default setting
                    odd = len(ip['ok']) < len(k['sources']) or any(c['call'] == 'generic' and (c['format_spec']['delimiter'] is not None or c['format_spec']['has_header'] is not True
                                                                   or c['decimal_separator'] != '.' or c['format_spec']['negate_amount'] is not False) for c in ip['ok'])
                    stats['nontrivial'] = stats.get('nontrivial', 0) + (len(k['sources']) >= 2 and bool(ip['ok']) and odd)
                    stats['second_path_taken'] += sum(1 for c in ip['ok'] if '/../' in c['path'] or '//' in c['path'])
            prop_fail.extend(settings_oracle(w['case'], w['cfgdir'], w['loaded'], il, ipq))
            if stats['load_ok'] % (3 if quick else 2) == 0 or ctx.replay:
                stats['locality_runs'] = stats.get('locality_runs', 0) + 1
                prop_fail.extend(locality_oracle(r, w['case'], w['loaded'], ipq, w['root']))
            gen = [x for x in o.get('plan_verbose', {}).get('ok', []) if x['call'] == 'generic']
            if len(gen) == len(raws):            # (the last run was the verbose one; the plans agree, so the i-th raw triple is the i-th generic call)
                for x, raw in zip(gen, raws):
                    key = json.dumps([x['format_spec']['delimiter'], x['format_spec']['has_header'], x['decimal_separator']], sort_keys=True)
                    reads.setdefault(key, (x, raw))
        # ---- read: the raw argument values through the reader
        for key, (x, raw) in reads.items():
            mr = x['read']
            ir = impl_read(*raw)
            stats['read_probes'] += 1
            if 'err' in ir or 'err' in mr:
                stats['read_errors'] += 1
                same = ('err' in ir) == ('err' in mr) and (ir.get('err') == mr.get('err') or ir.get('err') == 'regex')
                # a `regex:` pattern that does not compile: re.error - the model asks the regex oracle, not this probe
                if ir.get('err') == 'regex':
                    same = mr.get('delim') == 'regex'
            elif ir['has_header'] is None:
                stats['read_unprobed_header'] = stats.get('read_unprobed_header', 0) + 1
                same = ir['delim'] == mr['delim'] and ir['eu'] == mr['eu']
            elif mr['delim'] != 'regex' and mr['delim'] not in ',;|\t :\u2003':
                stats['read_unprobed_separator'] = stats.get('read_unprobed_separator', 0) + 1     # (a quote / line break as separator: C05's domain)
                same = ir['has_header'] == mr['has_header'] and ir['eu'] == mr['eu']
            else:
                same = ir['delim'] == mr['delim'] and ir['has_header'] == mr['has_header'] and ir['eu'] == mr['eu']
            if not same:
                read_fail.append({'arguments': json.loads(key), 'model': mr, 'implementation': ir})
    finally:
        for root in roots:
            shutil.rmtree(root, ignore_errors=True)
    res['load'] = (load_fail, stats['cases'])
    res['plan'] = (plan_fail, stats['load_ok'])
    res['read'] = (read_fail, stats['read_probes'])
    return res, stats, prop_fail, finding_fail


def search(ctx, budget=1200):
    """bigger budget, implementation only: fresh settings objects through load_config / cmd_run and the oracles above"""
    r = ctx.rng
    out = []
    for n in range(budget):
        case = gen_case(r, hostile=(n % 3 == 2))
        root, cfgdir, st = materialise(case)
        try:
            from tally import config_loader
            try:
                loaded = config_loader.load_settings(cfgdir)
                y_json(loaded)
            except Exception:       # noqa
                continue
            il = impl_load(cfgdir)
            ip = None
            if 'ok' in il:
                mpath = il['ok']['merchants']['path']
                if not (mpath and (os.path.isdir(mpath) or not (mpath.endswith('.rules') or mpath.endswith('.csv')))):
                    ip = impl_plan(cfgdir, True)
                    if ip.get('completed'):
                        ip = {'ok': ip['calls']}
            out.extend(settings_oracle(case, cfgdir, loaded, il, ip))
            if not out and ip is not None:
                out.extend(locality_oracle(r, case, loaded, ip, root))
        finally:
            shutil.rmtree(root, ignore_errors=True)
        if out:
            break
    return out
