"""C01 — see harness/props/rules_common.py (shared model, correspondence and oracles) and lean/TallyVerif/Props/C01.lean."""
from . import rules_common


def run(ctx):
    return rules_common.run(ctx, 'C01')
